"""validate MANIFEST.json and evidence/*.json against the given schemas"""
import json, sys, glob, jsonschema
m = json.load(open('/verif/MANIFEST.json'))
jsonschema.validate(m, json.load(open('/root/.vp/MANIFEST.schema.json')))
props = [json.loads(l)['id'] for l in open('/verif/properties.jsonl')]
claimed = [c['property_id'] for c in m['checks']]
na = [c['property_id'] for c in m.get('not_applicable', [])]
missing = [p for p in props if p not in claimed and p not in na]
print('manifest ok; claimed', claimed, 'na', na, 'UNLISTED', missing)
es = json.load(open('/root/.vp/EVIDENCE.schema.json'))
for f in sorted(glob.glob('/verif/evidence/*.json')):
    e = json.load(open(f)); jsonschema.validate(e, es); print('evidence ok', f, e['level'], e['coverage'].get('obligations'), e['coverage'].get('discharged'))
