#!/usr/bin/env python3
"""Confirm a seeded change and run checks against it.

  python3 tools_seed.py confirm <src_dir> <seed_id>     # scratch worktree: applies, suite passes, demo PASS->FAIL; copies to seeded/<seed_id>
  python3 tools_seed.py run <seed_id> <prop> [<prop>..]  # apply to /repo, run ./check <prop> quick, always undo
"""
import json
import os
import shutil
import subprocess
import sys
import time

VERIF = os.path.dirname(os.path.abspath(__file__))
REPO = "/repo"


def sh(cmd, cwd=None, env=None, timeout=3600):
    e = dict(os.environ)
    if env:
        e.update(env)
    p = subprocess.run(cmd, shell=True, cwd=cwd, env=e, capture_output=True, text=True, timeout=timeout)
    return p.returncode, p.stdout + p.stderr


def confirm(src, seed_id):
    wt = f"/tmp/wt_confirm_{os.getpid()}"
    rc, out = sh(f"git -C {REPO} worktree add --detach {wt} HEAD -q")
    assert rc == 0, out
    ran = []
    try:
        env = {"PYTHONPATH": wt}
        rc0, o0 = sh(f"/venv/bin/python {src}/demo.py", cwd=wt, env=env)
        ran.append(f"clean: demo rc={rc0}")
        rc, out = sh(f"git apply {os.path.abspath(src)}/patch.diff", cwd=wt)
        if rc != 0:
            print("patch does not apply:", out)
            return False
        rct, ot = sh("/venv/bin/python -m pytest -q -p no:cacheprovider --timeout=900 --continue-on-collection-errors 2>&1 | tail -1", cwd=wt, env=env)
        ran.append(f"patched: test suite: {ot.strip()}")
        rc1, o1 = sh(f"/venv/bin/python {src}/demo.py", cwd=wt, env=env)
        ran.append(f"patched: demo rc={rc1}")
        ok = rc0 == 0 and rc1 != 0 and "66 passed" in ot
        print("\n".join(ran))
        if not ok:
            print("NOT CONFIRMED", o0[-300:], o1[-300:])
            return False
        dst = os.path.join(VERIF, "seeded", seed_id)
        os.makedirs(dst, exist_ok=True)
        for f in ("patch.diff", "demo.py"):
            shutil.copy(os.path.join(src, f), os.path.join(dst, f))
        meta = {}
        try:
            meta = json.load(open(os.path.join(src, "meta.json")))
        except Exception:
            pass
        meta["confirmed"] = ran
        meta["base_commit"] = sh(f"git -C {REPO} rev-parse HEAD")[1].strip()
        json.dump(meta, open(os.path.join(dst, "meta.json"), "w"), indent=1)
        print("confirmed ->", dst)
        return True
    finally:
        sh(f"git -C {REPO} worktree remove --force {wt}")


def run(seed_id, props):
    dst = os.path.join(VERIF, "seeded", seed_id)
    rc, out = sh(f"git -C {REPO} status --porcelain")
    assert out.strip() == "", "repo not clean: " + out
    rc, out = sh(f"git -C {REPO} apply {dst}/patch.diff")
    assert rc == 0, out
    results = {}
    try:
        for p in props:
            t = time.time()
            rc, out = sh(f"./check {p} quick", cwd=VERIF)
            lines = [l for l in out.split("\n") if l.startswith(("VIOLATION", "UNDECIDED", "PROBLEM", "KNOWN", "  failed"))]
            results[p] = {"rc": rc, "lines": lines[:6], "secs": round(time.time() - t, 1)}
            print(p, "rc=", rc, f"{time.time()-t:.0f}s")
            for l in lines[:6]:
                print("   ", l[:300])
    finally:
        sh(f"git -C {REPO} checkout -- .")
        sh(f"git -C {VERIF} checkout -- evidence")
    mp = os.path.join(dst, "meta.json")
    meta = json.load(open(mp))
    meta.setdefault("check_results", {}).update(results)
    json.dump(meta, open(mp, "w"), indent=1)


if __name__ == "__main__":
    if sys.argv[1] == "confirm":
        sys.exit(0 if confirm(sys.argv[2], sys.argv[3]) else 1)
    run(sys.argv[2], sys.argv[3:])
