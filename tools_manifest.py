#!/usr/bin/env python3
"""Regenerate MANIFEST.json from props.py (single source of truth)."""
import json
import os
import sys

sys.path.insert(0, os.path.dirname(os.path.abspath(__file__)))
import props  # noqa: E402

NA_FIXED = {
    "C01": "cycle-exact simulation relation between coroutine semantics and the emitted state machine over all programs: not a per-function pre/postcondition; needs an operational semantics of both languages and an inductive simulation proof (protocol-level invariant), no VHDL simulator to replay",
    "C15": "exactly-once hand-over between two independently scheduled contexts with delay lines is an interleaving/history property (concurrency): outside what per-call contracts decide",
    "C16": "clock counts come out of the coroutine translation (C01) and Duration arithmetic is IEEE floating point: no per-function integer contract expresses 'resumes exactly n clocks later'",
}
NA_FIXED.update(getattr(props, "NOT_APPLICABLE", {}))

TECH = "contract-based deductive verification: verification conditions generated from the real AST of the functions under contract (sidecar spec functions, loop invariants), discharged by z3 (cvc5 on z3 unknowns); counter-models replayed natively; assumed bit-level primitives checked by bounded native enumeration"

ids = [json.loads(l)["id"] for l in open(os.path.join(os.path.dirname(__file__), "properties.jsonl"))]
checks = []
for pid in ids:
    cfg = props.PROPERTIES.get(pid)
    if cfg is None or cfg.get("disabled"):
        continue
    checks.append({
        "property_id": pid,
        "quick_cmd": f"./check {pid} quick",
        "thorough_cmd": f"./check {pid} thorough",
        "evidence_file": f"evidence/{pid}.json",
        "replay_cmd_template": "env PYTHONPATH=/verif:/repo python3-vt {path}",
        "engine": "pyvc",
        "technique": cfg.get("technique", TECH),
        "level_claimed": {"category": cfg.get("level", "other"), "text": cfg["explanation"], "design_ref": f"DESIGN.md section 6 {pid}"},
        "level_note": "Assumed / trusted: " + " | ".join(cfg.get("assumptions", []))[:3000],
    })
claimed = {c["property_id"] for c in checks}
na = []
for pid in ids:
    if pid in claimed:
        continue
    na.append({"property_id": pid, "reason": NA_FIXED.get(pid, "within reach of the technique; contracts not built yet (see DESIGN.md section 10) - not claimed")})
m = {
    "version": 1,
    "setup_cmd": "cd /verif && PYTHONPATH=/verif:/repo python3-vt -m pyvc.selftest",
    "hooks": {
        "guard": "COHDL_VERIF",
        "enable": "no hooks: contracts are sidecar files under /verif/contracts, the real source of /repo is re-read and re-parsed on every run; the guard variable guards nothing",
        "baseline_off_cmd": "cd /repo && /venv/bin/python -m pytest -ra -q -p no:cacheprovider --timeout=900 --continue-on-collection-errors",
        "source_commits": [],
        "add_only": True,
    },
    "engines": [{
        "name": "pyvc",
        "path": "pyvc/",
        "serves_properties": sorted(claimed),
        "kind_free_text": "verification-condition generator: symbolic interpretation of the real Python AST of /repo against sidecar contracts (spec functions, loop invariants, ghost state), obligations discharged by z3 (cvc5 for z3 unknowns); counter-models replayed natively on the real code; bounded native enumeration for assumed bit-level primitives",
    }],
    "checks": checks,
    "not_applicable": na,
    "notes": "fix: commits made in /repo for genuine defects are listed in known_findings.json (fixed) and DESIGN.md section 7.",
}
json.dump(m, open(os.path.join(os.path.dirname(__file__), "MANIFEST.json"), "w"), indent=1)
print("claimed", sorted(claimed), "not_applicable", [x["property_id"] for x in na])
