"""C13: parametrised types are canonical and form the documented lattice.

The three metaclass __getitem__ functions build classes lazily and cache them
in `cls._SubTypes`.  Contract (for an ARBITRARY cache state, i.e. any call
history): the (normalised) key that is looked up is the key that is stored;
on a hit the cached class is returned and nothing is created; on a miss exactly
one class is created, with the bases the statement prescribes, stored under
exactly that key and returned.  With "type(name, bases, ns) creates a fresh
subclass of exactly the closure of bases" (DESIGN.md 5.2) and the cache being
written nowhere else (C11 inventory), canonicity and the lattice follow.

Recursive uses (cls[Unsigned], BitVector[w], Signal[T]) are taken from the
function's own contract: they denote THE canonical class of those parameters
(induction on the nesting rank of the parameter).
"""

from __future__ import annotations

import cohdl
from cohdl import Unsigned, Signed, BitVector, Integer, Bit, Signal, Variable, Temporary, Port, Array
from cohdl._core._bit_vector import BitOrder, _BitVector
from cohdl._core._boolean import _Boolean
from cohdl._core._type_qualifier import _TypeQualifier, TypeQualifier

from pyvc import contracts as C
from pyvc import interp as I
from pyvc import ops, sym
from pyvc.contracts import Case, contract, Const, PyInt, PyBool
from pyvc.values import SCls, SObj
from contracts import core_models as M
from contracts.c05_format_cast import Built

PROPS = ("C13",)
MISSING = I._MISSING


# ---- ghost dictionary: an arbitrary cache state ---------------------------------------
class GhostDict:
    def __contains__(self, key): ...
    def __getitem__(self, key): ...
    def __setitem__(self, key, value): ...


def _gd_contains(it, self, key):
    self.fields["queries"].append(key)
    return self.fields["hit"]


def _gd_getitem(it, self, key):
    self.fields["reads"].append(key)
    return self.fields["canon"](key)


def _gd_setitem(it, self, key, value):
    self.fields["stores"].append((key, value))


I.register_model(GhostDict.__contains__, _gd_contains)
I.register_model(GhostDict.__getitem__, _gd_getitem)
I.register_model(GhostDict.__setitem__, _gd_setitem)


def install_cache(it, owner_cls, hit, canon):
    gd = SObj(GhostDict, hit=hit, queries=[], reads=[], stores=[], canon=canon)
    it.ctx.attr_overlay[(id(owner_cls), "_SubTypes")] = (owner_cls, gd)
    it.ghost = gd
    return gd


# ---- canonical class of (qualifier, wrapped, direction): the induction hypothesis --------
def normalise(w):
    if w is bool:
        return _Boolean
    if w is int:
        return Integer
    return w


def canon_tq(q, wrapped, direction):
    return SCls(q, wrapped=normalise(wrapped), direction=direction)


def _tq_subscript(it, cls, key):
    q = it.base_kind(cls) if isinstance(cls, SCls) else cls
    if isinstance(key, tuple):
        w, d = key
    else:
        w, d = key, None
    return canon_tq(q, w, d)


I.SUBSCRIPT_MODELS[TypeQualifier] = _tq_subscript


def _tq_cls_attr(it, cls, name):
    if isinstance(cls, SCls):
        if name == "__params__":
            return {k: v for k, v in cls.params.items()}
        if name == "__base_kind__":
            return cls.kind
        if name == "_Wrapped" and "wrapped" in cls.params:
            return cls.params["wrapped"]
        if name == "_direction" and cls.params.get("direction") is not None:
            return cls.params["direction"]
    return MISSING


I.CLS_ATTR_MODELS[TypeQualifier] = _tq_cls_attr


def same(it, a, b):
    r = ops.identical(it, a, b)
    return sym.simp(r) if sym.is_sym(r) else r


def rank(w):
    """nesting rank of a wrapped type: recursive lookups must go down"""
    if isinstance(w, SCls):
        return 3 if w.kind in (Unsigned, Signed) else 2
    if w in (Unsigned, Signed):
        return 1
    return 0


# ---- expected bases, from the statement ---------------------------------------------------
def expected_tq_bases(q, W, d):
    """bases of Q[W] / Port[W, d]"""
    is_port = issubclass(q, Port)
    dd = d if is_port else None
    if isinstance(W, SCls) and W.kind in (Unsigned, Signed):
        parent = [canon_tq(q, W.kind, dd), canon_tq(q, SCls(BitVector, width=W.params["width"]), dd)]
    elif isinstance(W, SCls) and W.kind is BitVector:
        parent = canon_tq(q, BitVector, dd)
    elif W in (Unsigned, Signed):
        parent = canon_tq(q, BitVector, dd)
    else:
        parent = q
    return parent, is_port


def tq_spec(q, Wmake, d, hit):
    def spec(sx, cls, Wrapped):
        it = sx.it
        gd = it.ghost
        W = normalise(Wrapped[0] if isinstance(Wrapped, tuple) else Wrapped)
        key = (W, d)

        def key_is(k):
            return isinstance(k, tuple) and len(k) == 2 and same(it, k[0], W) is True and k[1] is d

        def holds(res):
            f = gd.fields
            if len(f["queries"]) != 1 or not key_is(f["queries"][0]):
                return False
            created = [e[1] for e in it.ctx.events if e[0] == "type"]
            if hit:
                return bool(len(f["reads"]) == 1 and key_is(f["reads"][0]) and not f["stores"] and not created
                            and same(it, res, canon_tq(q, W, d)) is True)
            parent, is_port = expected_tq_bases(q, W, d)
            # an intermediate parent class (Q[Unsigned] + Q[BitVector[n]]) may be created first
            if isinstance(parent, list):
                if len(created) != 2:
                    return False
                mid, new = created
                if len(mid.bases) != 2 or not all(same(it, x, y) is True for x, y in zip(mid.bases, parent)):
                    return False
                if mid.ns != {}:
                    return False
                parent_cls = mid
            else:
                if len(created) != 1:
                    return False
                new = created[0]
                parent_cls = parent
            if res is not new:
                return False
            if is_port:
                want_bases = (parent_cls, canon_tq(Signal, W, None))
                want_ns = {"_Wrapped": W, "_direction": d}
            else:
                want_bases = (parent_cls,)
                want_ns = {"_Wrapped": W}
            if len(new.bases) != len(want_bases):
                return False
            for x, y in zip(new.bases, want_bases):
                if not (x is y or same(it, x, y) is True):
                    return False
            if set(new.ns) != set(want_ns) or not all(new.ns[k] is want_ns[k] or same(it, new.ns[k], want_ns[k]) is True for k in want_ns):
                return False
            return bool(len(f["stores"]) == 1 and key_is(f["stores"][0][0]) and f["stores"][0][1] is new and not f["reads"])

        return C.Pred(holds, "cache discipline + bases")

    return spec


WRAPPED = [
    ("bool", lambda env: bool),
    ("int", lambda env: int),
    ("Bit", lambda env: Bit),
    ("Integer", lambda env: Integer),
    ("Boolean", lambda env: _Boolean),
    ("BitVector", lambda env: BitVector),
    ("Unsigned", lambda env: Unsigned),
    ("Signed", lambda env: Signed),
    ("BitVector[w]", lambda env: SCls(BitVector, width=env["w"])),
    ("Unsigned[w]", lambda env: SCls(Unsigned, width=env["w"])),
    ("Signed[w]", lambda env: SCls(Signed, width=env["w"])),
]

con = contract("cohdl._core._type_qualifier:_TypeQualifier.__getitem__", PROPS)
for q in (Signal, Variable, Temporary, Port):
    for wname, wmake in WRAPPED:
        dirs = [Port.Direction.INPUT, Port.Direction.OUTPUT, Port.Direction.INOUT] if q is Port else [None]
        for d in dirs:
            for hit in (True, False):
                names = ["w"] if "[w]" in wname else []

                def mk(env, wmake=wmake, d=d):
                    W = wmake(env)
                    return (W, d) if d is not None else W

                arg = Built(names, mk, lambda asg: "None", lambda asg: None, (lambda env: env["w"] >= 1) if names else None)
                c = Case(f"{q.__name__}[{wname}{',' + d.name if d else ''}]{'-hit' if hit else '-miss'}",
                         [Const(q, f"cohdl.{q.__name__}"), arg], tq_spec(q, wmake, d, hit))
                c.native = False
                c.interp_flags = {"abstract_type_creation": True}
                c.setup = lambda it, ctx, args, env, q=q, hit=hit: install_cache(it, q, hit, lambda key, q=q: canon_tq(q, key[0], key[1]))
                con.cases.append(c)


# ---- _BitVector.__getitem__ ------------------------------------------------------------------
def bv_spec(K, hit, form):
    def spec(sx, cls, size):
        it = sx.it
        gd = it.ghost
        w = size if form == "int" else size.start + 1
        sx.require(w > 0)  # non-positive widths are rejected

        def key_is(k):
            return isinstance(k, tuple) and len(k) == 2 and k[0] is BitOrder.DOWNTO and sym.simp(sym.eq(k[1], w)) is True

        def holds(res):
            f = gd.fields
            if len(f["queries"]) != 1 or not key_is(f["queries"][0]):
                return False
            created = [e[1] for e in it.ctx.events if e[0] == "type"]
            if hit:
                return bool(len(f["reads"]) == 1 and key_is(f["reads"][0]) and not f["stores"] and not created and sym.simp(sym.eq(res.params.get("width"), w)) is True)
            if len(created) != 1 or res is not created[0]:
                return False
            new = created[0]
            if K is BitVector:
                ok_b = len(new.bases) == 1 and new.bases[0] is BitVector
            else:
                ok_b = (len(new.bases) == 2 and new.bases[0] is K and isinstance(new.bases[1], SCls) and new.bases[1].kind is BitVector
                        and sym.simp(sym.eq(new.bases[1].params["width"], w)) is True)
            ok_ns = set(new.ns) == {"_width", "_order"} and sym.simp(sym.eq(new.ns["_width"], w)) is True and new.ns["_order"] is BitOrder.DOWNTO
            return bool(ok_b and ok_ns and len(f["stores"]) == 1 and key_is(f["stores"][0][0]) and f["stores"][0][1] is new and not f["reads"])

        return C.Pred(holds, "cache discipline + bases")

    return spec


con = contract("cohdl._core._bit_vector:_BitVector.__getitem__", PROPS)
for K in (BitVector, Unsigned, Signed):
    for hit in (True, False):
        for form in ("int", "slice"):
            if form == "int":
                arg = PyInt("n", None, None, -2, 9)
            else:
                arg = Built(["n"], lambda env: slice(env["n"], 0, None), lambda asg: f"slice({asg['n']},0)", lambda asg: slice(asg["n"], 0), lambda env: env["n"] >= 0)  # [0:0] included: the width-1 vector, identical to K[1]
            c = Case(f"{K.__name__}-{form}-{'hit' if hit else 'miss'}", [Const(K, f"cohdl.{K.__name__}"), arg], bv_spec(K, hit, form))
            c.native = False
            c.interp_flags = {"abstract_type_creation": True}
            c.setup = lambda it, ctx, args, env, K=K, hit=hit: install_cache(it, K, hit, lambda key, K=K: SCls(K, width=key[1]))
            con.cases.append(c)


# ---- parametrising a type that already HAS its parameters -------------------------------------------------------------------
# `BitVector[37][23]` must not be created as a subclass of BitVector[37] and stored in the shared cache under the key of
# BitVector[23] (from then on unrelated widths would be subclasses of each other, depending on the order of first use).  It is the
# regular member of the same family for the NEW parameters: BitVector[37][23] is BitVector[23], Unsigned[41][19] is Unsigned[19]
# (std.reg relies on `Unsigned[w][w]`), Array[Bit, 7][Bit, 5] is Array[Bit, 5].  Nothing is derived from the parametrised class.
def _reparam_spec(K):
    def spec(sx, cls, size):
        it = sx.it
        w = size
        sx.require(w > 0)

        def holds(res):
            created = [e[1] for e in it.ctx.events if e[0] == "type"]
            if any(isinstance(t, SCls) and any(b is cls for b in getattr(t, "bases", ())) for t in created):
                return False  # a class derived from the parametrised type
            return isinstance(res, SCls) and it.base_kind(res) is K and sym.simp(sym.eq(res.params.get("width"), w)) is True and not created

        return C.Pred(holds, "the family's canonical class for the new width; no class derived from the parametrised type")

    return spec


def _family_subscript(it, cls, key):
    # induction hypothesis: subscripting the UNPARAMETRISED family root yields its canonical class (the cases above)
    K = cls
    w = key if not isinstance(key, slice) else key.start + 1
    return SCls(K, width=w)


for K in (BitVector, Unsigned, Signed):
    c = Case(f"{K.__name__}-already-parametrised", [Const(K[5], f"cohdl.{K.__name__}[5]"), PyInt("n", None, None, -2, 9)], _reparam_spec(K))
    c.native = False
    c.interp_flags = {"abstract_type_creation": True}

    def _setup_reparam(it, ctx, args, env, K=K):
        gd = install_cache(it, K, False, lambda key, K=K: SCls(K, width=key[1]))
        it.ctx.attr_overlay[(id(K[5]), "_SubTypes")] = (K[5], gd)  # the parametrised class sees the cache of its family

    c.setup = _setup_reparam
    c.custom_replay = "contracts.c13_types.replay_reparametrised"
    con.cases.append(c)

from cohdl._core._array import _MetaArray  # noqa: E402


def _array_spec(sx, cls, slice):
    def holds(res):
        created = [e[1] for e in sx.it.ctx.events if e[0] == "type"]
        return len(created) == 1 and res is created[0] and len(res.bases) == 1 and res.bases[0] is Array and res.ns.get("_elemtype_") is Bit and res.ns.get("_count_") == 3

    return C.Pred(holds, "a new class derived from Array with element type and count")


def _array_reparam_spec(sx, cls, slice):
    def holds(res):
        created = [e[1] for e in sx.it.ctx.events if e[0] == "type"]
        if len(created) > 1 or any(any(b is cls for b in t.bases) for t in created):
            return False  # nothing may be derived from Array[Bit, 7]
        if isinstance(res, type):  # the real canonical class (the family root was subscripted natively)
            return res._count_ == 5 and res._elemtype_ is Bit and cls not in res.__mro__
        return isinstance(res, SCls) and (res.ns.get("_count_") == 5 if getattr(res, "ns", None) else res.params.get("count") == 5)

    return C.Pred(holds, "Array[Bit, 5], not a class derived from Array[Bit, 7]")


C.inline("cohdl._core._primitive_type:is_primitive_type")
con_arr = contract("cohdl._core._array:_MetaArray.__getitem__", PROPS)
c = Case("Array-miss", [Const(Array, "cohdl.Array"), Const((Bit, 3), "(Bit, 3)")], _array_spec)
c.native = False
c.interp_flags = {"abstract_type_creation": True}
c.setup = lambda it, ctx, args, env: install_cache(it, Array, False, lambda key: SCls(Array, elemtype=key[0], count=key[1]))
con_arr.cases.append(c)
c = Case("Array-already-parametrised", [Const(Array[Bit, 7], "cohdl.Array[Bit, 7]"), Const((Bit, 5), "(Bit, 5)")], _array_reparam_spec)
c.native = False
c.interp_flags = {"abstract_type_creation": True}
c.setup = lambda it, ctx, args, env: install_cache(it, Array, False, lambda key: SCls(Array, elemtype=key[0], count=key[1]))
c.custom_replay = "contracts.c13_types.replay_reparametrised"
con_arr.cases.append(c)

_REPARAM_SCRIPT = '''
from cohdl import BitVector, Unsigned, Array, Bit
out = []
for what, f, want in (("BitVector[37][23]", lambda: BitVector[37][23], lambda: BitVector[23]), ("Unsigned[41][19]", lambda: Unsigned[41][19], lambda: Unsigned[19]),
                      ("Unsigned[4][4]", lambda: Unsigned[4][4], lambda: Unsigned[4]), ("Array[Bit, 7][Bit, 5]", lambda: Array[Bit, 7][Bit, 5], lambda: Array[Bit, 5])):
    try:
        if f() is not want():
            out.append(what + " is another class")
    except AssertionError:
        out.append(what + " rejected")
print("POISONED" if issubclass(BitVector[23], BitVector[37]) or issubclass(Array[Bit, 5], Array[Bit, 7]) or out else "CLEAN", out)
'''


def replay_reparametrised(payload):
    from contracts.c06_extra import _run_design

    rc, out = _run_design(_REPARAM_SCRIPT)
    return {"reproduced": rc == 0 and "POISONED" in out, "detail": "parametrising a parametrised primitive type before the first regular use of the second parameter: " + out[-200:]}


_WIDTH1_SCRIPT = '''
from cohdl import BitVector, Unsigned, Signed
print("SAME" if all(K[0:0] is K[1] for K in (BitVector, Unsigned, Signed)) else "DIFFERENT", str(BitVector[0:0]), str(BitVector[1]))
'''


def replay_width1(payload):
    from contracts.c06_extra import _run_design

    rc, out = _run_design(_WIDTH1_SCRIPT)
    return {"reproduced": rc == 0 and "DIFFERENT" in out, "detail": "K[0:0] and K[1] (equal parameters: width 1) must be the identical class: " + out[-80:]}


for _c in C.CONTRACTS["cohdl._core._bit_vector:_BitVector.__getitem__"].cases:
    if "-slice-" in _c.name:
        _c.custom_replay = "contracts.c13_types.replay_width1"
