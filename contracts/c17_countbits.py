"""C17, bounded and native: std.count_bits of an OBJECT is the width of its serialisation.

The layout contracts of C17 (c17_serial) state count_bits over TYPES.  The documented signature also takes an object
(`if not isinstance(inp, type): inp = type(inp)`); for a type-qualified object (Port / Signal / Variable / Temporary)
`type(obj)` is the qualifier class, which carries no width.  Statement checked here, one design per kind of object:

    std.count_bits(obj) == std.count_bits(type of the wrapped value) == std.to_bits(obj).width

for ports, local signals, variables, slices, records of signals and arrays, inside a synthesizable context.
"""

from __future__ import annotations

import json

_SCRIPT = r'''
from __future__ import annotations
import json, linecache
from cohdl import Entity, Port, BitVector, Bit, Unsigned, Signed, Signal, Variable, Array, std


class Rec(std.Record):
    x: BitVector[3]
    y: Bit


KINDS = {
    "input port BitVector[4]": ("self.a", 4), "input port Bit": ("self.b", 1), "input port Signed[5]": ("self.c", 5), "output port Unsigned[6]": ("self.o", 6),
    "local Signal[Unsigned[7]]": ("s", 7), "Variable[Unsigned[7]]": ("v", 7), "slice of a port": ("self.a[2:1]", 2), "element of a port": ("self.a[0]", 1),
    "record of signals": ("r", 4), "Signal[Array[BitVector[2], 3]]": ("arr", 6), "result of std.to_bits(record)": ("std.to_bits(r)", 4), "unqualified BitVector[4] value": ('BitVector[4]("0000")', 4),
    "signed view of a port": ("self.a.signed", 4),
}
bad, n = [], 0


def build(expr, want):
    ns = dict(globals())
    src = f"""
class Top(Entity):
    a = Port.input(BitVector[4])
    b = Port.input(Bit)
    c = Port.input(Signed[5])
    o = Port.output(Unsigned[6])

    def architecture(self):
        r = Rec(Signal[BitVector[3]](), Signal[Bit]())
        arr = Signal[Array[BitVector[2], 3]]()
        s = Signal[Unsigned[7]]()

        @std.sequential(std.Clock(Signal[Bit]()))
        def logic():
            v = Variable[Unsigned[7]]()
            assert std.count_bits({expr}) == {want}, "WRONG-COUNT"
"""
    fname = f"<count_bits design {len(linecache.cache)}>"
    linecache.cache[fname] = (len(src), None, src.splitlines(True), fname)
    exec(compile(src, fname, "exec"), ns)
    std.VhdlCompiler.to_string(ns["Top"])


for kind, (expr, want) in KINDS.items():
    n += 1
    try:
        build(expr, want)
    except Exception as e:
        msg = str(e)
        if "WRONG-SERIALISED-WIDTH" in msg:
            continue  # the serialisation itself (C17 layout contracts) is not what this sweep decides
        if "WRONG-COUNT" in msg:
            bad.append([kind, f"std.count_bits({expr}) differs from the {want} bits std.to_bits({expr}) has"])
        else:
            bad.append([kind, f"std.count_bits({expr}) is rejected ({type(e).__name__}: {msg[:90]}); the object serialises to {want} bits"])
print("RESULT" + json.dumps({"evaluations": n, "bad": bad}))
'''


def count_bits_object_sweep(tier="quick", seed=0):
    from contracts.c06_extra import _run_design

    rc, text = _run_design(_SCRIPT)
    if "RESULT" not in text:
        return {"problems": [f"count_bits_object_sweep: the script failed: {text[-400:]}"]}
    data = json.loads(text[text.index("RESULT") + 6:].splitlines()[0])
    violations = []
    for key, what in data["bad"]:
        oid = f"C17/count_bits_object_sweep[{key}]#bounded"
        w = f"{key}: {what}"
        violations.append({"kind": "custom", "qual": "<C17 count_bits of objects>", "case": key, "oid": oid, "check": "count_bits_object_sweep", "key": key, "assignment": {"object": key}, "solver": {"what": w},
                           "reproduced": True, "replay_payload": {"property": "C17", "custom": "contracts.c17_countbits.replay", "key": key, "obligation": oid, "verifier_output": w}})
    return {"evaluations": data["evaluations"], "distinct": data["evaluations"], "violations": violations, "samples": [{"evaluations": data["evaluations"]}],
            "bounded": [{"function": "cohdl.std._core_utility:count_bits (object argument)", "case": "count_bits_object_sweep", "evaluations": data["evaluations"], "exhaustive_within_bound": True,
                         "bound": "13 kinds of object (ports of four types, local signal, variable, slice, element, typed view, record of signals, array signal, to_bits result, plain value); oracle = width of std.to_bits(obj) and of the type"}]}


def replay(payload):
    r = count_bits_object_sweep()
    hit = [v for v in r.get("violations", []) if v["key"] == payload["key"]]
    return {"reproduced": bool(hit), "detail": hit[0]["solver"]["what"] if hit else "count_bits(obj) equals the width of to_bits(obj)"}
