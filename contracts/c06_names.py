"""C06 (unique, non-reserved names): VhdlScope.complete_setup.

Strings are uninterpreted (sort Str; lower / strip / concatenation / str(int)
are uninterpreted functions: congruence is all the argument needs).

Loop invariants (sidecar, keyed by the source-order ordinal of the loop):
  #3 for id, decl in declarations.items():   U_entry is a subset of used_names
       per iteration (obligations):  the name given to the declaration is added
       to used_names exactly once, lower-cased, and was NOT a member before
       => names of one scope are pairwise distinct case-insensitively, distinct
          from every ancestor-scope name and from every reserved / user-reserved word
  #4 while name.lower() in used_names (doubling):   name == base_name + str(cnt)
  #5 while step (halving):   lower(base_name + str(cnt)) not in used_names  and  step >= 0
Termination of the doubling loop is not proved (needs finiteness of the set).
"""

from __future__ import annotations

import z3

import cohdl
from cohdl import Signal, Variable, Temporary, Port, Unsigned
from cohdl._core._type_qualifier import TypeQualifier
from cohdl._compiler.backend.vhdl import _vhdl_repr as VR
from cohdl._compiler.backend.vhdl._vhdl_repr import VhdlScope

from pyvc import contracts as C
from pyvc import interp as I
from pyvc import sym
from pyvc.contracts import Case, contract
from pyvc.values import SCls, SObj, SStr, SSet
from contracts import core_models as M
from contracts.c05_format_cast import Built

PROPS = ("C06",)
FN = "VhdlScope.complete_setup"
QUAL = "cohdl._compiler.backend.vhdl._vhdl_repr:VhdlScope.complete_setup"
SetS = z3.SetSort(sym.StrS)


def lower(t):
    return sym.S_LOWER(t)


# ---- models of the name sources -----------------------------------------------------------
def _name_model(it, self, *a, **k):
    return self.fields.get("__name__")


for cls in (TypeQualifier, VR.Entity, VR.Architecture):
    raw = None
    for k in cls.__mro__:
        if "name" in k.__dict__:
            raw = k.__dict__["name"]
            break
    I.register_model(raw, _name_model)

C.inline("cohdl._compiler.backend.vhdl._vhdl_repr:VhdlScope.Declaration.__init__")

VALID = z3.Function("VALID_IDENTIFIER", sym.StrS, z3.BoolSort())
IDENT = z3.Function("IDENT", sym.StrS, sym.StrS, sym.StrS)


def _ident_model(it, name, fallback):
    from pyvc import ops

    tn = ops.str_term(name)
    tf = ops.str_term(fallback if fallback is not None else "<no fallback>")
    t = IDENT(tn, tf)
    if not hasattr(it, "ident_terms"):
        it.ident_terms = []
    it.ident_terms.append(t)
    return SStr(t)


if "_valid_identifier" in VhdlScope.__dict__:
    I.register_model(VhdlScope.__dict__["_valid_identifier"].__func__, _ident_model)


# ---- loop specs ------------------------------------------------------------------------------
class NameLoop(C.LoopSpec):
    eval_iterable = False

    def enter(self, it, frame, iterable):
        used = frame.locals["used_names"]
        st = {"entry": used.term, "adds": [], "decl": None}
        it.name_loop_state = st

        def on_add(sset, t):
            # every insertion into used_names must be a NEW name
            st["adds"].append(t)
            it.ctx.prove(QUAL + "#loop3#fresh-name", z3.Not(z3.IsMember(t, sset.term)), loop=self.key)

        it.on_set_add = on_add
        return st

    def invariant(self, it, frame, st):
        return z3.IsSubset(st["entry"], frame.locals["used_names"].term)

    def havoc(self, it, frame, st):
        frame.locals["used_names"] = SSet(z3.Const(f"used!{it.ctx.fresh_int().decl().name()}", SetS))
        st["before"] = frame.locals["used_names"].term
        st["adds"].clear()

    def has_next(self, it, frame, st):
        return it.ctx.fresh_bool("more_declarations")

    def next_item(self, it, frame, st):
        decl = it.case_decl(it)
        st["decl"] = decl
        return (it.ctx.fresh_int("id"), decl)

    def advance(self, it, frame, st):
        decl = st["decl"]
        nm = decl.fields.get("name")
        used = frame.locals["used_names"].term
        ok = False
        if len(st["adds"]) == 1:
            from pyvc import ops

            t = ops.str_term(nm)
            if t is not None:
                lt = ops.str_term(nm.lower()) if isinstance(nm, str) else lower(t)
                ok = z3.And(st["adds"][0] == lt, used == z3.SetAdd(st["before"], lt))
        it.ctx.prove(QUAL + "#loop3#name-recorded", ok, loop=self.key)
        # the name is a legal VHDL identifier: VALID is an uninterpreted predicate; what is known about it is the contract
        # of VhdlScope._valid_identifier (its result is VALID, contract + bounded sweep in this module) and that a valid
        # identifier followed by a decimal number is valid again (the counter appended to resolve collisions)
        valid_ok = False
        from pyvc import ops

        t = ops.str_term(nm)
        if t is not None:
            k = z3.Int("k!valid")
            hyps = []
            for ident in getattr(it, "ident_terms", []):
                hyps.append(VALID(ident))
                hyps.append(z3.ForAll([k], z3.Implies(k >= 0, VALID(sym.S_CAT(ident, sym.S_NUM(k))))))
            valid_ok = z3.Implies(z3.And(*hyps) if hyps else z3.BoolVal(True), VALID(t))
        it.ctx.prove(QUAL + "#loop3#valid-identifier", valid_ok, loop=self.key)
        if hasattr(it, "ident_terms"):
            it.ident_terms.clear()


class DoublingLoop(C.LoopSpec):
    def invariant(self, it, frame, st):
        from pyvc import ops

        cnt, name, base = frame.locals["cnt"], frame.locals["name"], frame.locals["base_name"]
        tn, tb = ops.str_term(name), ops.str_term(base)
        if tn is None or tb is None or not sym.is_intlike(cnt):
            return False
        return z3.And(sym.to_z3(cnt) >= 1, tn == sym.S_CAT(tb, sym.S_NUM(sym.to_z3(cnt))))

    def havoc(self, it, frame, st):
        from pyvc import ops

        cnt = it.ctx.fresh_int("cnt")
        frame.locals["cnt"] = cnt
        frame.locals["name"] = SStr(z3.Const(f"name!{cnt.decl().name()}", sym.StrS))


class HalvingLoop(C.LoopSpec):
    def invariant(self, it, frame, st):
        from pyvc import ops

        cnt, step, base = frame.locals["cnt"], frame.locals["step"], frame.locals["base_name"]
        tb = ops.str_term(base)
        used = frame.locals["used_names"].term
        if tb is None:
            return False
        # cnt >= 2 * step keeps the counter positive (the appended text is a decimal number without sign)
        return z3.And(sym.to_z3(step) >= 0, sym.to_z3(cnt) >= 1, sym.to_z3(cnt) >= 2 * sym.to_z3(step), z3.Not(z3.IsMember(lower(sym.S_CAT(tb, sym.S_NUM(sym.to_z3(cnt)))), used)))

    def havoc(self, it, frame, st):
        c = it.ctx.fresh_int("cnt")
        frame.locals["cnt"] = c
        frame.locals["step"] = it.ctx.fresh_int("step")
        frame.locals["name"] = SStr(z3.Const(f"name!{c.decl().name()}", sym.StrS))


# loop ordinals in SOURCE order, located in the source that is being verified (the labels keep their historical numbers): the naming
# loop is the `for ... in declarations.items()` statement, the two `while` loops after it search a free suffix.  (Before it: the
# selection of the active declarations and the enumeration-literal pass, executed concretely.)
def _loop_ordinals():
    import ast as _ast
    import inspect as _inspect
    import textwrap as _tw

    tree = _ast.parse(_tw.dedent(_inspect.getsource(VhdlScope.complete_setup)))
    loops = sorted((n for n in _ast.walk(tree) if isinstance(n, (_ast.For, _ast.While))), key=lambda n: (n.lineno, n.col_offset))
    naming = [i for i, n in enumerate(loops, 1) if isinstance(n, _ast.For) and _ast.unparse(n.iter) == "declarations.items()"]
    whiles = [i for i, n in enumerate(loops, 1) if isinstance(n, _ast.While) and naming and i > naming[0]]
    if len(naming) != 1 or len(whiles) < 2:
        raise AssertionError("complete_setup: naming loop / suffix search loops not found")
    return naming[0], whiles[0], whiles[1]


_N, _D, _H = _loop_ordinals()
NameLoop(FN, _N, prop="C06", name=QUAL + "#loop3")
DoublingLoop(FN, _D, prop="C06", name=QUAL + "#loop4")
HalvingLoop(FN, _H, prop="C06", name=QUAL + "#loop5")


# ---- cases: the kind of the declared object, with / without user name, hint, parent scope ------
def scope_shape(with_parent):
    def make(env):
        parent = None
        if with_parent:
            parent = SObj(VhdlScope, _used_names=SSet(z3.Const("U_parent", SetS)), _subscopes=[], _parent=None)
        return SObj(VhdlScope, _setup_complete=False, _parent=parent, _subscopes=[], _declarations={}, _used_names=SSet(z3.Const("U_own", SetS)))

    return Built([], make, lambda asg: "None", lambda asg: None)


OBJ_KINDS = {
    "port": lambda: SObj(Port),
    "signal": lambda: SObj(Signal),
    "variable": lambda: SObj(Variable),
    "temporary": lambda: SObj(Temporary),
    "concurrent": lambda: SObj(VR.Concurrent),
    "process": lambda: SObj(VR.Process),
    "entity": lambda: SObj(VR.Entity),
    "architecture": lambda: SObj(VR.Architecture),
    "instance": lambda: SObj(VR.EntityInst),
}


def spec_done(sx, self):
    return C.Pred(lambda res: res is None, "returns None")


# (also C07: two objects that get ONE name are emitted as one VHDL signal with the drivers of both)
con = contract(QUAL, PROPS + ("C07",))
for kname, mk in OBJ_KINDS.items():
    for named in (True, False):
        if named and kname in ("concurrent", "process", "instance"):
            continue  # these kinds have no user name
        if not named and kname in ("port", "entity", "architecture"):
            continue  # always named
        for hint in (True, False):
            for with_parent in (True, False):
                c = Case(f"{kname}{'-named' if named else ''}{'-hint' if hint else ''}{'-sub' if with_parent else '-top'}", [scope_shape(with_parent)], spec_done)
                c.native = False

                def setup(it, ctx, args, env, mk=mk, named=named, hint=hint):
                    def case_decl(it_):
                        obj = mk()
                        obj.fields["__name__"] = SStr(z3.Const("user_name", sym.StrS)) if named else None
                        return SObj(VhdlScope.Declaration, obj=obj, active=True, name_hint=SStr(z3.Const("hint", sym.StrS)) if hint else None, name="NOT_SET")

                    it.case_decl = case_decl

                c.setup = setup
                c.custom_replay = "contracts.c06_extra.replay_invalid_identifier"  # design-level reproduction of the valid-identifier obligation
                con.cases.append(c)


# ---- VhdlScope.reserve_name (entity attribute `reserved_names`): the invariant of complete_setup is "used_names holds LOWER-CASED
# names" (a candidate is tested with `name.lower() in used_names`); a name reserved in another spelling must be found by it
def reserve_spec(sx, self, name):
    real = sx.real_args[0]
    entry = real.fields["_used_names"].term

    def holds(res):
        used = real.fields["_used_names"].term
        return z3.And(z3.IsMember(lower(name.term), used), z3.IsSubset(entry, used))

    return C.Pred(holds, "lower(name) is a member of used_names afterwards (nothing removed)")


con = contract("cohdl._compiler.backend.vhdl._vhdl_repr:VhdlScope.reserve_name", PROPS)
c = Case("symbolic-name", [Built([], lambda env: SObj(VhdlScope, _used_names=SSet(z3.Const("U_reserved", SetS))), lambda asg: "None", lambda asg: None),
                           Built([], lambda env: SStr(z3.Const("reserved_name", sym.StrS)), lambda asg: "None", lambda asg: None)], reserve_spec)
c.native = False
con.cases.append(c)


# ---- enumeration literals: written unchanged (`type T is (idle, run);`), declared with their type in this scope ------------------
# For ARBITRARY names already in use (reserved words, names of the enclosing scopes): the setup is accepted only if every literal
# is a legal identifier, the literals of one type differ (case-insensitively) and none of them is in use; afterwards they ARE in use
# (the naming loop's fresh-name obligation then keeps every other object of the scope away from them).
import cohdl as _cohdl  # noqa: E402


class _GoodEnum(_cohdl.enum.Enum):
    idle = 0
    Run = 1


class _CaseEnum(_cohdl.enum.Enum):
    idle = 0
    IDLE = 1


class _InvalidEnum(_cohdl.enum.Enum):
    ok = 0
    two__underscores = 1


def enum_scope_shape(enum_cls, with_parent):
    def make(env):
        parent = None
        if with_parent:
            parent = SObj(VhdlScope, _used_names=SSet(z3.Const("U_parent", SetS)), _subscopes=[], _parent=None)
        decl = SObj(VhdlScope.Declaration, obj=enum_cls, active=True, name_hint=None, name="NOT_SET")
        return SObj(VhdlScope, _setup_complete=False, _parent=parent, _subscopes=[], _declarations={id(enum_cls): decl}, _used_names=SSet(z3.Const("U_own", SetS)))

    return Built([], make, lambda asg: "None", lambda asg: None)


def enum_spec(enum_cls, verdict, with_parent):
    def spec(sx, self):
        if verdict == "reject":
            sx.reject(AssertionError)
        real = sx.real_args[0]
        from pyvc import ops

        lits = [ops.str_term(m.lower()) for m in enum_cls.__members__]
        before = [z3.Const("U_own", SetS)] + ([z3.Const("U_parent", SetS)] if with_parent else [])

        def holds(res):
            used = real.fields["_used_names"].term
            return z3.And(*[z3.Not(z3.IsMember(t, b)) for t in lits for b in before], *[z3.IsMember(t, used) for t in lits])

        return C.Pred(holds, "accepted: no literal was in use before, all literals are in use afterwards")

    return spec


_real_valid_identifier = VhdlScope.__dict__["_valid_identifier"].__func__ if "_valid_identifier" in VhdlScope.__dict__ else None


def _ident_model_concrete(it, name, fallback):
    if isinstance(name, str) and _real_valid_identifier is not None:
        from pyvc import ops

        r = _real_valid_identifier(name, fallback)  # literal / class names are concrete: the real (pure) function decides
        if not hasattr(it, "ident_terms"):
            it.ident_terms = []
        it.ident_terms.append(ops.str_term(r))  # a result of _valid_identifier (VALID by its contract)
        return r
    return _ident_model(it, name, fallback)


for enum_cls, verdict in ((_GoodEnum, "ok"), (_CaseEnum, "reject"), (_InvalidEnum, "reject")):
    for with_parent in (True, False):
        c = Case(f"enum-literals:{enum_cls.__name__}{'-sub' if with_parent else '-top'}", [enum_scope_shape(enum_cls, with_parent)], enum_spec(enum_cls, verdict, with_parent))
        c.native = False
        if verdict == "ok":
            c.may_reject = AssertionError  # a literal that is already in use
        if _real_valid_identifier is not None:
            c.models = [(_real_valid_identifier, _ident_model_concrete)]

        def setup(it, ctx, args, env, enum_cls=enum_cls):
            it.case_decl = lambda it_: SObj(VhdlScope.Declaration, obj=enum_cls, active=True, name_hint=None, name="NOT_SET")

        c.setup = setup
        c.custom_replay = "contracts.c06_names.replay_enum_literals"
        con_setup = C.CONTRACTS[QUAL]
        con_setup.cases.append(c)

_ENUM_LITERAL_DESIGN = '''
import re
import cohdl
from cohdl import std, Bit, Port, Signal, enum
class LitA(cohdl.Entity):
    clk = Port.input(Bit)
    inp = Port.input(Bit)
    o = Port.output(Bit)
    def architecture(self):
        state_0 = Signal[Bit](False, name="state_0")
        @std.sequential(std.Clock(self.clk))
        async def proc():
            state_0.next = self.inp
            await cohdl.true
            self.o <<= state_0
t = std.VhdlCompiler.to_string(LitA)
print("TWICE" if re.search(r"type \\w+ is \\([^)]*\\bstate_0\\b", t) and re.search(r"signal state_0\\b", t) else "ONCE")
class Mode(enum.Enum):
    signal = enum.auto()
    idle = enum.auto()
class LitB(cohdl.Entity):
    clk = Port.input(Bit)
    o = Port.output(Bit)
    def architecture(self):
        mode = Signal[Mode](Mode.idle, name="mode")
        @std.sequential(std.Clock(self.clk))
        def proc():
            mode.next = Mode.signal
            self.o <<= mode == Mode.idle
try:
    std.VhdlCompiler.to_string(LitB)
    print("RESERVED-ACCEPTED")
except AssertionError:
    print("RESERVED-REJECTED")
'''


def replay_enum_literals(payload):
    from contracts.c06_extra import _run_design

    rc, out = _run_design(_ENUM_LITERAL_DESIGN)
    return {"reproduced": rc == 0 and ("TWICE" in out or "RESERVED-ACCEPTED" in out),
            "detail": "a signal named like a state literal / an enumeration literal that is a reserved word: " + out[-120:]}


# ---- sub-scopes are completed AFTER the names of this scope are published (C06 / C07) ------------------------------------------------
# A sub-scope builds its set of taken names from `parent._used_names`: if the parent publishes its names only after the sub-scopes
# are done, a process variable / local signal gets the name of an object of the enclosing scope and hides it (for an output port:
# `q <= buffer_q;` next to `q <= ...` in a process -- two drivers).
class _SubScopeProbe:
    """a sub-scope: its complete_setup records what the parent has published at that moment"""


_SubScopeProbe.complete_setup = lambda self: None
_SubScopeProbe.remove_declaration = lambda self, id: None


def _probe_setup(it, self):
    parent = self.fields["f_parent"]
    it.probe_seen.append((parent.fields.get("_setup_complete"), parent.fields["_used_names"].term))
    return None


I.register_model(_SubScopeProbe.complete_setup, _probe_setup)
I.register_model(_SubScopeProbe.remove_declaration, lambda it, self, id: None)


def subscope_shape():
    def make(env):
        scope = SObj(VhdlScope, _setup_complete=False, _parent=None, _subscopes=[], _declarations={}, _used_names=SSet(z3.Const("U_own", SetS)))
        scope.fields["_subscopes"] = [SObj(_SubScopeProbe, f_parent=scope), SObj(_SubScopeProbe, f_parent=scope)]
        return scope

    return Built([], make, lambda asg: "None", lambda asg: None)


def subscope_spec(sx, self):
    it = sx.it
    real = sx.real_args[0]

    def holds(res):
        if res is not None or len(it.probe_seen) != 2:
            return False
        final = real.fields["_used_names"].term
        return z3.And(*[z3.BoolVal(done is True) for done, _ in it.probe_seen], *[seen == final for _, seen in it.probe_seen])

    return C.Pred(holds, "every sub-scope is completed after this scope is marked complete and has published its final set of names")


c = Case("sub-scopes-see-the-published-names", [subscope_shape()], subscope_spec)
c.native = False


def _sub_setup(it, ctx, args, env):
    it.probe_seen = []
    it.case_decl = lambda it_: SObj(VhdlScope.Declaration, obj=SObj(Signal, __name__=SStr(z3.Const("user_name", sym.StrS))), active=True, name_hint=None, name="NOT_SET")


c.setup = _sub_setup
c.custom_replay = "contracts.c06_names.replay_subscope_names"
C.CONTRACTS[QUAL].cases.append(c)

_SUBSCOPE_DESIGN = '''
import re
from cohdl import Entity, Port, Bit, Signal, std
class Hide(Entity):
    clk = Port.input(Bit)
    a = Port.input(Bit)
    q = Port.output(Bit)
    def architecture(self):
        @std.sequential(std.Clock(self.clk))
        def proc():
            q = Signal[Bit](name="q")
            q <<= self.a
            self.q <<= q
t = std.VhdlCompiler.to_string(Hide)
print("SIGNALS-NAMED-q", len(re.findall(r"signal q :", t)), "DRIVERS-OF-q", len(re.findall(r"^\\s*q <= ", t, flags=re.M)))
'''


def replay_subscope_names(payload):
    from contracts.c06_extra import _run_design

    rc, out = _run_design(_SUBSCOPE_DESIGN)
    return {"reproduced": rc == 0 and "SIGNALS-NAMED-q 0" not in out, "detail": "a local signal named like the output port q: " + out[-60:]}
