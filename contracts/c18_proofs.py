"""C18: the pure selection / decomposition helpers, proved from the real source
for symbolic inputs (arity enumerated).

_first_impl(*(cond, value), default): the value of the FIRST pair whose
  condition holds, else default (priority selection behind choose_first,
  count_elements_while/until, count_leading/trailing_*).
_repeat_filter_by_factor(list, factor): selects exactly the entries whose index
  is a set bit of `factor`, so the selected powers of two sum to `factor`
  (std.repeat builds val*times from val*2**k pieces).
"""

from __future__ import annotations

import z3

from cohdl.std import _core_utility as CU

from pyvc import contracts as C
from pyvc import sym
from pyvc.contracts import Case, contract, PyInt, PyBool
from contracts.c05_format_cast import Built

PROPS = ("C18",)


def first_spec(n):
    def spec(sx, *pairs, default=None):
        for c, v in pairs:
            if sx.branch(c):
                return v
        return default

    return spec


con = contract("cohdl.std._core_utility:_first_impl", PROPS)
for n in range(0, 7):
    shapes = [Built([f"c{i}", f"v{i}"], (lambda i: lambda env: (env[f"c{i}"] != 0, env[f"v{i}"]))(i), (lambda i: lambda a: f"({bool(a[f'c{i}'])}, {a[f'v{i}']})")(i),
                    (lambda i: lambda a: (bool(a[f"c{i}"]), a[f"v{i}"]))(i), None, (lambda i: lambda rng, a: a.update({f"c{i}": rng.randint(0, 1), f"v{i}": rng.randint(-9, 9)}))(i)) for i in range(n)]
    c = Case(f"{n}-pairs", shapes, first_spec(n), kwargs={"default": PyInt("dflt")})
    con.cases.append(c)


def filter_spec(k):
    def spec(sx, lst, factor):
        sx.domain(sym.And(factor >= 0, factor < 2**k))
        want = [x for nr, x in enumerate(lst) if sx.branch(sym.Not(sym.eq(sym.bit_at(factor, nr), 0)))]
        return want

    return spec


# ---- folds: the application tree of an ABSTRACT binary function over the arguments -------------------------------------
# binary_fold: left fold  f(...f(f(a0, a1), a2)..., ak-1)   (right_fold: f(a0, f(a1, ... f(ak-2, ak-1)))).
# batched_fold: the arguments are combined batch-wise; for every batch size the result is a bracketing of the arguments
# IN ORDER (each argument exactly once, order preserved), every application combining at most `batch_size` operands
# left to right -- hence equal to the left fold for every associative f (select_batch, parity, minimum rely on it).
from pyvc import interp as I  # noqa: E402
from pyvc.values import SObj  # noqa: E402
import cohdl.std._core_utility as _CU  # noqa: E402


def _abstract_fn(a, b):
    """the folded function: builds the application tree"""


I.register_model(_abstract_fn, lambda it, a, b: ("f", a, b))
I.register_inline(_CU.const_cond)
I.register_inline(_CU._batch_args)
FOLD_MODELS = [
    (_CU._Value.__dict__["__call__"], lambda it, self, x, *a, **k: x),
    (_CU.static_assert, lambda it, cond, *a, **k: None),
]


def left_tree(xs):
    t = xs[0]
    for x in xs[1:]:
        t = ("f", t, x)
    return t


def right_tree(xs):
    t = xs[-1]
    for x in reversed(xs[:-1]):
        t = ("f", x, t)
    return t


def leaves(t):
    return leaves(t[1]) + leaves(t[2]) if isinstance(t, tuple) and t and t[0] == "f" else [t]


def fold_summary(sx, fn, args, right_fold=False):
    """binary_fold as callers may use it: the left (right) fold of fn over args"""
    xs = list(args)
    app = lambda a, b: sx.it.call(fn, [a, b], {})
    if right_fold:
        t = xs[-1]
        for x in reversed(xs[:-1]):
            t = app(x, t)
        return t
    t = xs[0]
    for x in xs[1:]:
        t = app(t, x)
    return t


FN = Built([], lambda env: _abstract_fn, lambda a: "f", lambda a: None)
con = contract("cohdl.std._core_utility:binary_fold", PROPS)
con.summary = fold_summary
for k in range(1, 7):
    for right in (False, True):
        ARGS = Built([], (lambda k: lambda env: [f"a{i}" for i in range(k)])(k), lambda a: "args", lambda a: None)
        c = Case(f"{k}-args,{'right' if right else 'left'}", [FN, ARGS], (lambda right: lambda sx, fn, args, right_fold=False: (right_tree if right else left_tree)(list(args)))(right),
                 kwargs={"right_fold": Built([], (lambda r: lambda env: r)(right), lambda a: repr(right), lambda a: None)})
        c.native = False
        c.models = FOLD_MODELS
        con.cases.append(c)


def max_arity(t):
    """largest number of operands combined by one left-to-right chain of applications"""
    if not (isinstance(t, tuple) and t and t[0] == "f"):
        return 1, 1
    # length of the left spine = operands of this chain
    n, cur, worst = 1, t, 1
    while isinstance(cur, tuple) and cur and cur[0] == "f":
        n += 1
        worst = max(worst, max_arity(cur[2])[1])
        cur = cur[1]
    worst = max(worst, max_arity(cur)[1])
    return n, max(worst, n)


def batched_spec(k, b):
    def spec(sx, fn, args, batch_size=2):
        want = [f"a{i}" for i in range(k)]

        def holds(res):
            # (the upper levels of the tree are combined with the DEFAULT batch size 2 -- the recursive call does not
            #  pass batch_size on; that changes the depth of the tree, not its value)
            return leaves(res) == want and (k > 1 or res == "a0")

        return C.Pred(holds, "bracketing of the arguments in order (each exactly once)")

    return spec


con = contract("cohdl.std._core_utility:batched_fold", PROPS)
for b in (2, 3, 4):
    for k in range(1, 10):
        ARGS = Built([], (lambda k: lambda env: [f"a{i}" for i in range(k)])(k), lambda a: "args", lambda a: None)
        c = Case(f"{k}-args,batch_size={b}", [FN, ARGS], batched_spec(k, b), kwargs={"batch_size": Built([], (lambda b: lambda env: b)(b), lambda a: repr(b), lambda a: None)})
        c.native = False
        c.models = FOLD_MODELS
        con.cases.append(c)


# ---- rotations and the overflow-free adder, for symbolic widths and values ------------------------------------------------
from cohdl import BitVector as _BV, Unsigned as _U  # noqa: E402
from contracts.core_models import BVShape, UShape, BV, U, width as _w, bits as _b, P2  # noqa: E402


def rot_spec(left):
    def spec(sx, inp, n=1):
        w, x = _w(inp), _b(inp)
        sx.require(sym.And(n >= 0, n <= w))
        # rotate by n: bit i of the result is bit (i -/+ n) mod w of the input
        k = n if left else w - n
        sx.lemma("mod-scale", x, P2(w - k), P2(k))
        sx.pow2_facts(w, k, w - k, products=[(k, w - k)])
        return BV(w, sym.pymod(x * P2(k), P2(w)) + sym.pydiv(x, P2(w - k)))

    return spec


for nm, left in (("rol", True), ("ror", False)):
    con = contract(f"cohdl.std._core_utility:{nm}", PROPS)
    c = Case("symbolic", [BVShape("w", "x"), PyInt("n", None, None, -1, 9)], rot_spec(left))
    c.may_reject = AssertionError
    c.interp_flags = {"arith_hints": True}
    # a @ b: the assumed (bounded stand-in: contracts/c09_bounded.py) contract of BitVector.__matmul__, a forms the MSBs
    c.models = [(_CU.static_assert, lambda it, cond, *a, **k: None if it.truth(cond) else it.raise_(AssertionError)),
                (_BV.__dict__["__matmul__"], lambda it, a, b: BV(sym.to_int(_w(a)) + sym.to_int(_w(b)), _b(a) * P2(_w(b)) + _b(b)))]
    con.cases.append(c)


def safe_add_spec(sx, a, b):
    # one bit wider than the wider operand: the sum is exact
    return U(sym.maxv(_w(a), _w(b)) + 1, _b(a) + _b(b))


con = contract("cohdl.std._core_utility:_safe_add_unsigned", PROPS)
c = Case("symbolic", [UShape("w1", "a"), UShape("w2", "b")], safe_add_spec)
c.interp_flags = {"arith_hints": True}
con.cases.append(c)
I.register_inline(_CU._safe_add_unsigned_target)
# std.Value[T](x) on an unqualified primitive: the real code is interpreted
from cohdl._core import _primitive_type as _PT  # noqa: E402
from cohdl._core._type_qualifier import TypeQualifierBase as _TQB  # noqa: E402

for _f in (_CU._Value.__dict__["__call__"], _CU._Value.__dict__["__getitem__"], _CU._Value.__dict__["__init__"], _PT.is_primitive_type, _TQB.__dict__["decay"], _CU._check_type_qualifier_params):
    I.register_inline(_f)

con = contract("cohdl.std._core_utility:_repeat_filter_by_factor", PROPS)
for k in range(1, 7):
    lst = Built([], (lambda k: lambda env: [f"piece{i}" for i in range(k)])(k), (lambda k: lambda a: repr([f"piece{i}" for i in range(k)]))(k), (lambda k: lambda a: [f"piece{i}" for i in range(k)])(k))
    c = Case(f"{k}-pieces", [lst, PyInt("factor", 0, 2**k - 1, 0, 2**k - 1)], filter_spec(k))
    con.cases.append(c)
