"""C18: the pure selection / decomposition helpers, proved from the real source
for symbolic inputs (arity enumerated).

_first_impl(*(cond, value), default): the value of the FIRST pair whose
  condition holds, else default (priority selection behind choose_first,
  count_elements_while/until, count_leading/trailing_*).
_repeat_filter_by_factor(list, factor): selects exactly the entries whose index
  is a set bit of `factor`, so the selected powers of two sum to `factor`
  (std.repeat builds val*times from val*2**k pieces).
"""

from __future__ import annotations

import z3

from cohdl.std import _core_utility as CU

from pyvc import contracts as C
from pyvc import sym
from pyvc.contracts import Case, contract, PyInt, PyBool
from contracts.c05_format_cast import Built

PROPS = ("C18",)


def first_spec(n):
    def spec(sx, *pairs, default=None):
        for c, v in pairs:
            if sx.branch(c):
                return v
        return default

    return spec


con = contract("cohdl.std._core_utility:_first_impl", PROPS)
for n in range(0, 7):
    shapes = [Built([f"c{i}", f"v{i}"], (lambda i: lambda env: (env[f"c{i}"] != 0, env[f"v{i}"]))(i), (lambda i: lambda a: f"({bool(a[f'c{i}'])}, {a[f'v{i}']})")(i),
                    (lambda i: lambda a: (bool(a[f"c{i}"]), a[f"v{i}"]))(i), None, (lambda i: lambda rng, a: a.update({f"c{i}": rng.randint(0, 1), f"v{i}": rng.randint(-9, 9)}))(i)) for i in range(n)]
    c = Case(f"{n}-pairs", shapes, first_spec(n), kwargs={"default": PyInt("dflt")})
    con.cases.append(c)


def filter_spec(k):
    def spec(sx, lst, factor):
        sx.domain(sym.And(factor >= 0, factor < 2**k))
        want = [x for nr, x in enumerate(lst) if sx.branch(sym.Not(sym.eq(sym.bit_at(factor, nr), 0)))]
        return want

    return spec


con = contract("cohdl.std._core_utility:_repeat_filter_by_factor", PROPS)
for k in range(1, 7):
    lst = Built([], (lambda k: lambda env: [f"piece{i}" for i in range(k)])(k), (lambda k: lambda a: repr([f"piece{i}" for i in range(k)]))(k), (lambda k: lambda a: [f"piece{i}" for i in range(k)])(k))
    c = Case(f"{k}-pieces", [lst, PyInt("factor", 0, 2**k - 1, 0, 2**k - 1)], filter_spec(k))
    con.cases.append(c)
