"""C17: the offset accumulation of Record serialisation, proved from the real
source of cohdl.std._record._make_serializable for symbolic member widths
(number of members enumerated).

For a record with members m_0 .. m_{k-1} of widths w_i >= 1 (whatever
count_bits returns for the member types):
   slice_map[m_i] == slice(w_0 + .. + w_i - 1,  w_0 + .. + w_{i-1})      (downto, contiguous,
   _cohdlstd_bitcount == w_0 + .. + w_{k-1}                                first member at bit 0)
and nothing is recomputed for a class whose OWN __dict__ already holds the
layout, while a layout found only on a base class is not reused.
"""

from __future__ import annotations

import z3

from cohdl.std import _record as REC
from cohdl.std import _core_utility as CU

from pyvc import contracts as C
from pyvc import sym
from pyvc.values import SObj, Opaque
from pyvc.contracts import Case, contract
from contracts.c05_format_cast import Built

PROPS = ("C17",)


class _RecCls:
    """stands for the record class object"""


def cls_shape(k, own_layout):
    names = [f"w{i}" for i in range(k)]

    def make(env):
        ann = {f"m{i}": Opaque(f"T{i}") for i in range(k)}
        d = {}
        o = SObj(_RecCls, _cohdlstd_record_annotations=ann)
        if own_layout:
            if own_layout == "own":
                d["_cohdlstd_bitcount"] = 99
            # "inherited": visible through attribute lookup, absent from the class' own __dict__
            o.fields["_cohdlstd_bitcount"] = 99
            o.fields["_cohdlstd_slice_map"] = "cached"
        o.fields["__dict__"] = d
        o.fields["f_widths"] = [env[n] for n in names]
        return o

    def assume(env):
        return sym.And(*[env[n] >= 1 for n in names]) if names else True

    return Built(names, make, lambda a: "<record class>", lambda a: None, assume)


def count_bits_model(it, t):
    # the widths are whatever count_bits yields for the member types: T_i -> w_i
    cls = it.case_cls
    idx = int(t.tag[1:])
    return cls.fields["f_widths"][idx]


def layout_spec(k, own_layout):
    def spec(sx, cls):
        if own_layout == "own":
            return C.Effect(None, {0: C.Pred(lambda real: sym.And(sym.eq(real.fields["_cohdlstd_bitcount"], 99), real.fields["_cohdlstd_slice_map"] == "cached"))})
        if k == 0:
            sx.require(False, AssertionError)
        ws = cls.fields["f_widths"]

        def post(real):
            sm = real.fields.get("_cohdlstd_slice_map")
            if not isinstance(sm, dict) or list(sm.keys()) != [f"m{i}" for i in range(k)]:
                return False
            conds = []
            lo = 0
            for i in range(k):
                s = sm[f"m{i}"]
                if not isinstance(s, slice) or s.step is not None:
                    return False
                conds.append(sym.eq(s.stop, lo))
                conds.append(sym.eq(s.start, lo + ws[i] - 1))
                lo = lo + ws[i]
            conds.append(sym.eq(real.fields.get("_cohdlstd_bitcount"), lo))
            return sym.And(*conds)

        return C.Effect(None, {0: C.Pred(post)})

    return spec


con = contract("cohdl.std._record:_make_serializable", PROPS)
for k in range(0, 6):
    for own in (False, "own", "inherited"):
        c = Case(f"{k}-members{'-' + own if own else ''}", [cls_shape(k, own)], layout_spec(k, own))
        c.native = False
        c.may_reject = AssertionError

        def setup(it, ctx, args, env):
            it.case_cls = args[0]

        c.setup = setup
        c.models = [(CU.count_bits, count_bits_model)]
        con.cases.append(c)


# ---- _get_reverse_elem_list: members in REVERSE DECLARATION order, whatever the construction order ------------
class _RecInst:
    """stands for a record instance"""


def inst_shape(k, perm):
    def make(env):
        vals = {f"m{i}": f"<value of m{i}>" for i in range(k)}
        o = SObj(_RecInst, _cohdlstd_record_annotations={f"m{i}": Opaque(f"T{i}") for i in range(k)})
        inst_dict = {}
        for i in perm:  # the instance dict is filled in construction (keyword) order
            o.fields[f"m{i}"] = vals[f"m{i}"]
            inst_dict[f"m{i}"] = vals[f"m{i}"]
        o.fields["__dict__"] = inst_dict
        o.fields["f_vals"] = vals
        return o

    return Built([], make, lambda a: "<record instance>", lambda a: None)


def reverse_spec(k):
    def spec(sx, self):
        return [self.fields["f_vals"][f"m{i}"] for i in reversed(range(k))]

    return spec


import itertools as _it

con = contract("cohdl.std._record:_get_reverse_elem_list", PROPS)
for k in range(1, 5):
    for perm in _it.permutations(range(k)):
        c = Case(f"{k}-members-constructed-{''.join(map(str, perm))}", [inst_shape(k, perm)], reverse_spec(k))
        c.native = False
        con.cases.append(c)
