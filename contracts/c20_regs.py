"""C20 (per-function part): address decode of register objects, proved from the
real source of RegisterObject._contains_addr_ for SYMBOLIC address width,
address value, global offset and size.

Contract: for an object occupying the units [offset, offset + size) of the
address space,
        _contains_addr_(addr)  <=>  offset <= addr < offset + size
whether the object takes the shift-compare path (size a power of two and
offset a multiple of it) or the range-compare path.  An object whose range does
not fit the address width is outside the domain (the comparison literals must
be representable, C09).
"""

from __future__ import annotations

import z3

from cohdl import Unsigned
from cohdl.std.reg import reg as REG
from cohdl.std import utility as SU

from pyvc import contracts as C
from pyvc import interp as I
from pyvc import sym
from pyvc.contracts import Case, contract
from pyvc.values import SObj
from contracts.core_models import UShape, width, bits
from contracts.c05_format_cast import Built

PROPS = ("C20",)
P2 = sym.pow2
IntS = z3.IntSort()
ISP2 = z3.Function("is_pow_two", IntS, z3.BoolSort())
LOG2 = z3.Function("int_log_2", IntS, IntS)


class _RegObj:
    """register object stand-in: global offset and unit count"""


def _is_pow_two(it, x):
    x = sym.simp(sym.to_int(x))
    if isinstance(x, int):
        return x > 0 and x & (x - 1) == 0
    return ISP2(sym.to_z3(x))


def _int_log_2(it, x):
    x = sym.simp(sym.to_int(x))
    if isinstance(x, int):
        return x.bit_length() - 1
    if not it.truth(ISP2(sym.to_z3(x))):
        it.raise_(AssertionError, "argument must be a power of 2")
    return LOG2(sym.to_z3(x))


MODELS = [(SU.is_pow_two, _is_pow_two), (SU.int_log_2, _int_log_2)]


def obj_shape(kind):
    names = ["go", "uc"] + (["k"] if kind != "not-pow2" else [])

    def make(env):
        o = SObj(REG.RegisterObject, _global_offset_=env["go"], f_unit_count=env["uc"])
        return o

    def assume(env):
        go, uc = env["go"], env["uc"]
        c = [go >= 0, uc >= 1]
        if kind == "not-pow2":
            c.append(z3.Not(ISP2(uc)))
        else:
            k = env["k"]
            c += [k >= 0, sym.eq(uc, P2(k)), ISP2(uc), LOG2(uc) == k]
        return sym.And(*c)

    return Built(names, make, lambda a: "<register object>", lambda a: None, assume)


def contains_spec(sx, self, addr):
    go, uc = self.fields["_global_offset_"], self.fields["f_unit_count"]
    a = bits(addr)
    # the object's range lies inside the address space (else the compared literals are not representable)
    sx.domain(go + uc < P2(width(addr)))
    return sym.And(a >= go, a < go + uc)


con = contract("cohdl.std.reg.reg:RegisterObject._contains_addr_", PROPS)
for kind in ("pow2-aligned", "pow2-unaligned", "not-pow2"):
    def req(env, kind=kind):
        if kind == "pow2-aligned":
            return sym.eq(sym.pymod(env["go"], env["uc"]), 0)
        if kind == "pow2-unaligned":
            return sym.Not(sym.eq(sym.pymod(env["go"], env["uc"]), 0))
        return True

    c = Case(kind, [obj_shape(kind), UShape("aw", "a")], contains_spec, requires=req)
    c.native = False
    c.may_reject = AssertionError
    c.models = MODELS + [(REG.RegisterObject.__dict__["_unit_count_"].__func__, lambda it, cls: it.unit_count)]
    c.interp_flags = {"arith_hints": True}

    def setup(it, ctx, args, env):
        it.unit_count = env["uc"]

    c.setup = setup
    con.cases.append(c)


# ---- global offsets: the address a register is decoded at is the SUM of the offsets of all enclosing register files -----
# RegisterObject.__init__ (registers, memories, arrays) and RegFile.__init__ (nested files): global = parent's GLOBAL
# offset + own offset relative to the parent, for symbolic offsets (the parent's own relative offset is a different
# number: with two levels of nesting it must not be used instead).
from pyvc.contracts import PyInt  # noqa: E402


class _Tools:
    _word_stride_ = 4


def offset_spec(sx, self, parent, name, **kw):
    env = sx.it.case_env
    pg, own = env["parent_global"], env["own"]
    if sx.branch(sym.Not(sym.eq(sym.pymod(pg + own, 4), 0))):
        raise C.SpecRaise(AssertionError)
    real = sx.real_args[0]
    return C.Pred(lambda res: res is None and sx.it.ctx.entails(sym.to_z3(real.fields["_global_offset_"]) == pg + own) and real.fields["_name_"] == "reg", "global offset = parent's global offset + own offset")


def _reg_cls_attr(it, cls, name):
    if name == "_parent_offset_":
        return cls.params["own"]
    return I._MISSING


I.CLS_ATTR_MODELS[REG.RegisterObject] = _reg_cls_attr

con = contract("cohdl.std.reg.reg:RegisterObject.__init__", PROPS)
SELF = Built([], lambda env: SObj(I.SCls(REG.RegisterObject, own=env["own"]), _register_tools_=_Tools), lambda a: "None", lambda a: None)
PARENT = Built([], lambda env: SObj(REG.RegFile, _global_offset_=env["parent_global"], _parent_offset_=env["parent_own"]), lambda a: "None", lambda a: None)
NAME = Built([], lambda env: "reg", lambda a: "'reg'", lambda a: None)
c = Case("nested", [SELF, PARENT, NAME], offset_spec)
c.extra_shapes = [PyInt("parent_global", 0, None, 0, 64), PyInt("parent_own", 0, None, 0, 64), PyInt("own", 0, None, 0, 64)]
c.native = False
con.cases.append(c)


# ---- FlagField: is_clear() is the negation of is_set() in both construction modes ---------------------------------------------
class _BitVal:
    """a Bit-valued object with symbolic value f_v"""


class _SyncFlag:
    """std.SyncFlag stand-in"""


_BitVal.__invert__ = lambda self: None
_SyncFlag.is_set = lambda self: None
_SyncFlag.is_clear = lambda self: None
I.register_model(_BitVal.__invert__, lambda it, self: SObj(_BitVal, f_v=sym.Not(self.fields["f_v"])))
I.register_model(_SyncFlag.is_set, lambda it, self: SObj(_BitVal, f_v=self.fields["f_set"]))
I.register_model(_SyncFlag.is_clear, lambda it, self: SObj(_BitVal, f_v=sym.Not(self.fields["f_set"])))

for meth, negated in (("is_set", False), ("is_clear", True)):
    con = contract(f"cohdl.std.reg.reg:FlagField.{meth}", PROPS)
    for has_flag in (True, False):
        def mk_flag(env, has_flag=has_flag):
            b = z3.Bool("flag_value")
            if has_flag:
                return SObj(REG.FlagField, _has_flag=True, _flag=SObj(_SyncFlag, f_set=b))
            return SObj(REG.FlagField, _has_flag=False, _val=SObj(_BitVal, f_v=b))

        def flag_spec(sx, self, negated=negated):
            b = z3.Bool("flag_value")
            want = sym.Not(b) if negated else b
            return C.Pred(lambda res: isinstance(res, SObj) and res.kind is _BitVal and sx.it.ctx.entails(sym.to_z3(res.fields["f_v"]) == sym.to_z3(want)), "set / clear reading of the flag value")

        c = Case("own-flag" if has_flag else "received-bit", [Built([], mk_flag, lambda a: "None", lambda a: None)], flag_spec)
        c.native = False
        c.custom_replay = "contracts.c20_regs.replay_flag_is_clear"
        con.cases.append(c)


_FLAG_DESIGN = '''
from __future__ import annotations
from cohdl import Entity, Port, Bit, std
from cohdl.std.reg import reg32
from cohdl.std.axi import axi4_light as axi

class R(reg32.Register):
    fl: reg32.FlagField[0]

    def _config_(self, os, oc):
        self.os, self.oc = os, oc

    def _on_write_(self, data):
        # `data` is the register value received from the bus: its flag field is built from the written bit
        self.os <<= data.fl.is_set()
        self.oc <<= data.fl.is_clear()
        return data

class Root(reg32.AddrMap):
    r: R[0x0]
    def _config_(self, os, oc):
        self.r._config_(os, oc)

class Top(axi.addr_map_entity()):
    os = Port.output(Bit, default=False)
    oc = Port.output(Bit, default=False)
    def architecture(self):
        self.interface_connection().connect_addr_map(Root(self.os, self.oc))

t = std.VhdlCompiler.to_string(Top)
lines = [l.strip() for l in t.split("\\n")]
drv = {n: [l.split("<=")[1].strip(" ;") for l in lines if l.startswith(f"buffer_{n} <=") and "'0'" not in l] for n in ("os", "oc")}
print("DRIVERS", drv)
src = drv["oc"][0]
neg = [l for l in lines if l.startswith(src + " :=") and "not" in l]
print("IS_CLEAR_NEGATED" if neg else "IS_CLEAR_EQUALS_IS_SET" if drv["oc"] == drv["os"] else "OTHER")
'''


def replay_flag_is_clear(payload):
    """a register's _on_write_ hook reads is_set() and is_clear() of the flag field received from the bus"""
    from contracts.c06_extra import _run_design

    rc, out = _run_design(_FLAG_DESIGN)
    return {"reproduced": rc == 0 and "IS_CLEAR_EQUALS_IS_SET" in out, "detail": out[-300:]}


# ---- arrays of registers: element k sits at (global offset of the array) + k * step, wherever the array is nested -----------
class _ElemType:
    """array_type stand-in: array_type[offset](parent, name) creates the element at `offset` relative to `parent`"""


class _Elem:
    """element created by the array"""


_ElemType.__getitem__ = lambda self, off: None
_Elem.__call__ = lambda self, *a, **k: None


def _elemtype_getitem(it, self, off):
    return SObj(_Elem, f_off=off)


def _elem_call(it, self, parent, name, **kw):
    # what RegisterObject.__init__ does for the element (contract above): global = parent's global + own offset
    return SObj(_Elem, f_global=parent.fields["_global_offset_"] + self.fields["f_off"], f_parent=parent)


I.register_model(_ElemType.__getitem__, _elemtype_getitem)
I.register_model(_Elem.__call__, _elem_call)
I.register_inline(REG.RegisterObject.__dict__["__init__"])


class _GArg:
    """GenericArg stand-in"""


def array_spec(count, step):
    def spec(sx, self, parent, name, **kw):
        env = sx.it.case_env
        pg, own = env["parent_global"], env["own"]
        real = sx.real_args[0]

        def holds(res):
            els = real.fields.get("_elements")
            if res is not None or not isinstance(els, list) or len(els) != count:
                return False
            ok = sx.it.ctx.entails(sym.to_z3(real.fields["_global_offset_"]) == pg + own)
            for k, e in enumerate(els):
                ok = ok and e.fields["f_parent"] is real and sx.it.ctx.entails(sym.to_z3(e.fields["f_global"]) == pg + own + k * step)
            return ok

        return C.Pred(holds, "element k at parent's global offset + array offset + k * step")

    return spec


def _arr_cls_attr(it, cls, name):
    if name == "_parent_offset_":
        return cls.params["own"]
    if name == "_generic_arg_":
        return cls.params["garg"]
    return I._MISSING


I.CLS_ATTR_MODELS[REG.Array] = _arr_cls_attr
con = contract("cohdl.std.reg.reg:Array.__init__", PROPS)
for label, pgv, ownv in (("top-level", 0, 0x10), ("in-file-at-0x100", 0x100, 0x10), ("in-file-at-0x40", 0x40, 0), ("symbolic-parent", None, 0x20)):
    # span: the address range given for the array; the last element need not fill a whole step (0x10:0x24:8 holds
    # elements at 0x10, 0x18 and 0x20)
    for count, step, span in ((1, 4, 4), (3, 4, 12), (2, 8, 16), (3, 8, 20), (2, 8, 12)):
        def mk_self(env, ownv=ownv, count=count, step=step, span=span):
            garg = SObj(_GArg, offset=ownv, end=ownv + span, array_step=step, array_type=SObj(_ElemType))
            return SObj(I.SCls(REG.Array, own=ownv, garg=garg), _register_tools_=_Tools)

        def req(env, pgv=pgv, ownv=ownv):
            c = [sym.eq(env["own"], ownv), sym.eq(sym.pymod(env["parent_global"], 4), 0)]
            if pgv is not None:
                c.append(sym.eq(env["parent_global"], pgv))
            return sym.And(*c)

        ASELF = Built([], mk_self, lambda a: "None", lambda a: None)
        APARENT = Built([], (lambda pgv: lambda env: SObj(REG.RegFile, _global_offset_=(pgv if pgv is not None else env["parent_global"]), _parent_offset_=7))(pgv), lambda a: "None", lambda a: None)
        c = Case(f"{label},{count}-elements-step-{step}" + ("" if span == count * step else f"-span-{span}"), [ASELF, APARENT, NAME], array_spec(count, step), requires=req)
        c.extra_shapes = [PyInt("parent_global", 0, None, 0, 64), PyInt("own", 0, None, 0, 64)]
        c.native = False
        c.custom_replay = "contracts.c20_regs.replay_array_in_regfile"
        con.cases.append(c)

_ARRAY_DESIGN = '''
from __future__ import annotations
from cohdl.std.reg import reg32

class Inner(reg32.RegFile, word_count=16):
    w: reg32.MemWord[0x00]
    arr: reg32.Array[reg32.MemWord, 0x10:0x20:4]

class Root(reg32.AddrMap):
    f: Inner[0x100]

r = Root()
print("ARRAY", hex(r.f.arr._global_offset_), "ELEMENTS", [hex(e._global_offset_) for e in r.f.arr])
'''


def replay_array_in_regfile(payload):
    from contracts.c06_extra import _run_design

    rc, out = _run_design(_ARRAY_DESIGN)
    return {"reproduced": rc == 0 and "ARRAY 0x110" in out and "'0x110'" not in out.split("ELEMENTS")[1], "detail": out[-300:]}


def file_offset_spec(sx, self, parent, name, **kw):
    env = sx.it.case_env
    real = sx.real_args[0]
    return C.Pred(lambda res: res is None and sx.it.ctx.entails(sym.to_z3(real.fields["_global_offset_"]) == env["parent_global"] + env["own"]), "global offset of a nested register file = parent's global offset + own offset")


def _file_cls_attr(it, cls, name):
    if name == "_parent_offset_":
        return cls.params["own"]
    if name == "_member_types_":
        return {}
    return I._MISSING


I.CLS_ATTR_MODELS[REG.RegFile] = _file_cls_attr
con = contract("cohdl.std.reg.reg:RegFile.__init__", PROPS)
FSELF = Built([], lambda env: SObj(I.SCls(REG.RegFile, own=env["own"]), _register_tools_=_Tools), lambda a: "None", lambda a: None)
c = Case("nested-file-without-members", [FSELF, PARENT, NAME], file_offset_spec)
c.extra_shapes = [PyInt("parent_global", 0, None, 0, 64), PyInt("parent_own", 0, None, 0, 64), PyInt("own", 0, None, 0, 64)]
c.native = False
c.models = [(REG.RegisterObject.__dict__["_unit_count_"].__func__, lambda it, cls: 16)]
con.cases.append(c)


# ---- Register._init_from_device: the notification objects belong to the INSTANCE -------------------------------------------------
# "hardware-side notifications occur exactly when the corresponding access completes": an access to one placement of a
# register type (Block[0x00]) notifies THAT placement's PushOnNotify / FlagOnNotify objects.  Every instance therefore gets its
# own notification objects in its own `_notifications_` dictionary -- a dictionary shared by the class would make all placements
# of a register type notify the objects of the instance constructed last.
class _Notify:
    """a notification member type (PushOnNotify, FlagOnNotify ...): instantiated once per register instance"""


def init_device_spec(names):
    def spec(sx, self, parent, name):
        real = sx.real_args[0]
        shared = real.cls.params["_notifications_"]

        def holds(res):
            own = real.fields.get("_notifications_")
            if own is None or own is shared or shared != {"<class level>": "<dict>"}:
                return False  # no dictionary of its own / entries written into the class-level one
            if list(own.keys()) != list(names):
                return False
            for n in names:
                o = own[n]
                if not (isinstance(o, SObj) and o.kind is _Notify and real.fields.get(n) is o):
                    return False
            return len({id(own[n]) for n in names}) == len(names) and sx.it.order == ["base-init", "config"]

        return C.Pred(holds, "own dictionary: every notification name -> a new object that is also the instance attribute of that name")

    return spec


def _reg_cls_attr(it, cls, name):
    if hasattr(cls, "params") and name in cls.params:
        return cls.params[name]
    return I._MISSING


I.CLS_ATTR_MODELS[REG.Register] = _reg_cls_attr
con = contract("cohdl.std.reg.reg:Register._init_from_device", PROPS)
for names in ((), ("on_write",), ("on_write", "on_read", "flag")):
    RSELF = Built([], (lambda ns: lambda env: SObj(I.SCls(REG.Register, _notification_types_={n: _Notify for n in ns}, _notifications_={"<class level>": "<dict>"})))(names), lambda a: "None", lambda a: None)
    c = Case(f"{len(names)}-notification-members", [RSELF, Built([], lambda env: "PARENT", lambda a: "None", lambda a: None), NAME], init_device_spec(names))
    c.native = False
    c.models = [(REG.RegisterObject.__dict__["__init__"], lambda it, self, parent, name: it.order.append("base-init")),
                (REG.Register.__dict__["_init_from_config"], lambda it, self: it.order.append("config"))]
    c.interp_flags = {"class_call_models": {_Notify: lambda it, args, kw: SObj(_Notify)}}

    def _init_dev_setup(it, ctx, args, env):
        it.order = []

    c.setup = _init_dev_setup
    con.cases.append(c)
