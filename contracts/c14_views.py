"""C14: Fifo with synchronised contexts -- which copy of the full / empty flag a context sees.

With delays configured the producer and the consumer run in different contexts and each has its own,
conservatively synchronised view of the indices.  `full()` / `empty()` queried in the producer's context must
use the sender-side flag (computed from the producer's own write index, never lagging behind it: otherwise
the N-th push is accepted and overwrites unread data), in the consumer's context the receiver-side flag,
anywhere else the plain flag.  Both the direct lookup (_cmp_full / _cmp_empty) and the deferred one
(_impl_full_indirect / _impl_empty_indirect, run at the end of the querying context) are under contract.
"""

from __future__ import annotations

from cohdl.std.utility import Fifo

from pyvc import contracts as C
from pyvc import interp as I
from pyvc.contracts import Case, contract
from pyvc.values import SObj
from contracts.c05_format_cast import Built

PROPS = ("C14",)
MOD = "cohdl.std.utility"


class _SeqCtx:
    """stand-in for the SequentialContext class: current() is the querying context"""


class _Always:
    """cohdl.always used as a context manager"""


class _Flag:
    """a Bit signal; `<<=` records what drives it"""


_SeqCtx.current = lambda self: None
_Always.__enter__ = lambda self: None
_Always.__exit__ = lambda self, *a: None
_Flag.__ilshift__ = lambda self, v: None
I.register_model(_SeqCtx.current, lambda it, self: it.current_ctx)
I.register_model(_Always.__enter__, lambda it, self: None)
I.register_model(_Always.__exit__, lambda it, self, *a: None)


def _drive(it, self, v):
    self.fields.setdefault("f_drivers", []).append(v)
    return self


I.register_model(_Flag.__ilshift__, _drive)


def fifo_shape(sync):
    def make(env):
        flag = lambda t: SObj(_Flag, f_tag=t)
        sf = SObj(_Flag, _tx_ctx=SObj(_SeqCtx, f_tag="tx"), _rx_ctx=SObj(_SeqCtx, f_tag="rx"))
        f = SObj(Fifo, _sync_contexts=sync, _sync_flag=sf)
        for which in ("full", "empty"):
            f.fields[f"_{which}"] = flag(which)
            f.fields[f"_{which}_in_sender"] = flag(which + "_in_sender")
            f.fields[f"_{which}_in_receiver"] = flag(which + "_in_receiver")
            f.fields[f"_{which}_indirect"] = flag(which + "_indirect")
            f.fields[f"_{which}_indirect_owner"] = SObj(_SeqCtx, f_tag="owner")
        return f

    return Built([], make, lambda a: "None", lambda a: None)


def expected(real, which, where, sync):
    f = real.fields
    if not sync or where in ("none", "other"):
        return f[f"_{which}"]
    return f[f"_{which}_in_sender"] if where == "tx" else f[f"_{which}_in_receiver"]


def setup_for(where):
    def setup(it, ctx, args, env):
        f = args[0].fields
        it.current_ctx = {"none": None, "tx": f["_sync_flag"].fields["_tx_ctx"], "rx": f["_sync_flag"].fields["_rx_ctx"], "owner": f["_full_indirect_owner"], "other": SObj(_SeqCtx, f_tag="third")}[where]
        ctx.global_overlay[(MOD, "SequentialContext")] = SObj(_SeqCtx, f_tag="class")
        ctx.global_overlay[(MOD, "always")] = SObj(_Always)

    return setup


for which in ("full", "empty"):
    con = contract(f"{MOD}:Fifo._cmp_{which}", PROPS)
    for sync in (False, True):
        for where in ("none", "tx", "rx"):
            def spec(sx, self, which=which, where=where, sync=sync):
                want = expected(sx.real_args[0], which, where, sync)
                return C.Pred(lambda res: res is want, f"the {which} flag of the querying side")

            c = Case(f"{'synchronised' if sync else 'single-clock'},queried-in-{where}", [fifo_shape(sync)], spec)
            c.native = False
            c.setup = setup_for(where)
            con.cases.append(c)

    # a context that is neither producer nor consumer YET (the usual `if not fifo.full(): fifo.push(x)`: the query comes
    # before the first push): the flag is a fresh signal driven at the end of the context.  Every further query from
    # the same context must return that SAME signal and register no second driver -- a second fresh signal would
    # leave the first one undriven.
    for nth in (1, 2, 3):
        def spec(sx, self, which=which, nth=nth):
            it = sx.it

            def holds(res):
                first = it.first_result if nth > 1 else res
                return isinstance(res, SObj) and res.kind is _Stub and res is first and len(it.deferred) == 1

            return C.Pred(holds, "one deferred flag signal per querying context, one registered driver")

        c = Case(f"synchronised,queried-in-third-context,query-{nth}", [fifo_shape(True)], spec)
        c.native = False
        c.custom_replay = "contracts.c14_views.replay_flag_queried_twice"

        def setup(it, ctx, args, env, nth=nth, which=which):
            setup_for("other")(it, ctx, args, env)
            it.deferred = []
            ctx.global_overlay[(MOD, "at_end_of_context")] = _at_end
            ctx.global_overlay[(MOD, "Signal")] = SObj(_Stub, f_role="signal")
            fifo = args[0]
            fifo.fields[f"_{which}_indirect_owner"] = None  # as Fifo.__init__ leaves it
            fifo.fields[f"_{which}_indirect_name"] = "name"
            fn = C.CONTRACTS[f"{MOD}:Fifo._cmp_{which}"].fn  # the function under contract (body interpreted)
            for k in range(nth - 1):
                r = it.call(I.BoundMethod(fn, fifo), [], {})
                if k == 0:
                    it.first_result = r

        c.setup = setup
        con.cases.append(c)

    con = contract(f"{MOD}:Fifo._impl_{which}_indirect", PROPS)
    for where in ("tx", "rx", "other"):
        def spec(sx, self, which=which, where=where):
            real = sx.real_args[0]
            want = expected(real, which, where, True)

            def holds(res):
                drivers = real.fields[f"_{which}_indirect"].fields.get("f_drivers", [])
                return len(drivers) == 1 and drivers[0] is want

            return C.Pred(holds, f"the deferred {which} flag is driven by the flag of the querying side")

        c = Case(f"deferred,queried-in-{where}", [fifo_shape(True)], spec)
        c.native = False
        c.setup = setup_for(where)
        c.interp_flags = {"await_hook": lambda it, v: v}
        con.cases.append(c)


# ---- Stack.__init__: the declared index / count signals can hold every value the step contracts need ------------------------
# (contracts/c14_fifo.py proves push / pop / front / size for an index signal that can represent 0..N -- N itself
#  included: in NO_OVERFLOW mode the index is the number of stored elements; in DROP_OLD mode the count is.)
from cohdl.std.utility import Stack, StackMode  # noqa: E402
from pyvc import sym  # noqa: E402
from pyvc.contracts import PyInt  # noqa: E402


class _Stub:
    """stand-ins for Unsigned / Signal / Array / prefix as used by Stack.__init__"""


for _n in ("upto", "__getitem__", "__call__", "__enter__", "__exit__", "name"):
    setattr(_Stub, _n, (lambda n: lambda self, *a, **k: None)(_n))


def _stub_getitem(it, self, key):
    return SObj(_Stub, f_role=self.fields["f_role"] + "-type", f_key=key)


def _stub_call(it, self, *a, **k):
    return SObj(_Stub, f_role=self.fields["f_role"] + "-object", f_key=self.fields.get("f_key"), f_args=list(a), f_kw=dict(k))


I.register_model(_Stub.upto, lambda it, self, m: SObj(_Stub, f_role="unsigned-upto", f_max=m))
I.register_model(_Stub.__getitem__, _stub_getitem)
I.register_model(_Stub.__call__, _stub_call)
I.register_model(_Stub.__enter__, lambda it, self: self)
I.register_model(_Stub.__exit__, lambda it, self, *a: None)
I.register_model(_Stub.name, lambda it, self, s: s)


def _prefix(name):
    pass


I.register_model(_prefix, lambda it, name: SObj(_Stub, f_role="prefix"))


def stack_init_spec(mode):
    def spec(sx, self, **kw):
        real = sx.real_args[0]
        N = sx.it.case_env["N"]

        def holds(res):
            f = real.fields

            def counter(o, must_hold):
                if not (isinstance(o, SObj) and o.fields.get("f_role") == "signal-type-object"):
                    return False
                t = o.fields["f_key"]
                if not (isinstance(t, SObj) and t.fields.get("f_role") == "unsigned-upto"):
                    return False
                if o.fields["f_args"] != [0]:
                    return False  # empty after reset / power-up
                return sx.it.ctx.entails(sym.to_z3(t.fields["f_max"]) >= sym.to_z3(must_hold))

            mem = f.get("_mem")
            if not (isinstance(mem, SObj) and mem.fields.get("f_role") == "array-type-object" and mem.fields["f_key"][1] is N):
                return False
            if f.get("_mode") is not mode:
                return False
            if mode is StackMode.NO_OVERFLOW:
                return f["_cnt"] is f["_index"] and counter(f["_index"], N)
            return f["_cnt"] is not f["_index"] and counter(f["_cnt"], N) and counter(f["_index"], N - 1)

        return C.Pred(holds, "memory of N elements; index / count signals start at 0 and can represent N")

    return spec


con = contract(f"{MOD}:Stack.__init__", PROPS)
for mode in (StackMode.NO_OVERFLOW, StackMode.DROP_OLD):
    def mk(env):
        return SObj(Stack, _count_=env["N"], _elemtype_="ELEM")

    c = Case(mode.name, [Built([], mk, lambda a: "None", lambda a: None)], stack_init_spec(mode), kwargs={"mode": C.Const(mode, "mode")})
    c.extra_shapes = [PyInt("N", 1, None, 1, 9)]
    c.native = False

    def setup(it, ctx, args, env):
        ctx.global_overlay[(MOD, "Unsigned")] = SObj(_Stub, f_role="unsigned")
        ctx.global_overlay[(MOD, "Signal")] = SObj(_Stub, f_role="signal")
        ctx.global_overlay[(MOD, "Array")] = SObj(_Stub, f_role="array")
        ctx.global_overlay[(MOD, "prefix")] = _prefix

    c.setup = setup
    con.cases.append(c)


_TWICE_DESIGN = '''
from __future__ import annotations
import re
from cohdl import Entity, Port, Bit, BitVector, std

class Top(Entity):
    clk = Port.input(Bit)
    din = Port.input(BitVector[4])
    wr = Port.input(Bit)
    rd = Port.input(Bit)
    f1 = Port.output(Bit)
    dout = Port.output(BitVector[4])
    def architecture(self):
        fifo = std.Fifo[BitVector[4], 4](delay=1)
        ctx = std.SequentialContext(std.Clock(self.clk))
        @ctx
        def producer():
            self.f1 <<= fifo.full()              # first query
            if self.wr and not fifo.full():      # second query, before the first push
                fifo.push(self.din)
        @ctx
        def consumer():
            if self.rd and not fifo.empty():
                self.dout <<= fifo.pop()

t = std.VhdlCompiler.to_string(Top)
src = re.search(r"buffer_f1 <= (\\w+);", t).group(1)
print("F1_READS", src, "DRIVEN" if re.search(rf"^\\s*{src} <=", t, re.M) else "UNDRIVEN")
'''


def replay_flag_queried_twice(payload):
    from contracts.c06_extra import _run_design

    rc, out = _run_design(_TWICE_DESIGN)
    return {"reproduced": rc == 0 and "UNDRIVEN" in out, "detail": out[-300:]}


def _at_end(fn):
    """at_end_of_context stand-in: records the deferred driver"""


I.register_model(_at_end, lambda it, fn: it.deferred.append(fn))
