"""C02: the operator writers of the VHDL backend (vhdl.BinOp / Compare / UnaryOp .write
and VhdlScope.format_vhdl_cast), proved from the real source for symbolic
operand widths and values.

Lemma (per writer, per operator, per operand-type combination):
   ASSUME each operand expression writes text whose VHDL type/value is that of
          the CoHDL type/value of its `.result`   (established for the operand writers by
          format_vhdl_cast / format_cast, C05)
   THEN   the text returned by the writer, read with numeric_std / std_logic_1164
          semantics (specs/vhdl_ops.py), is well typed and has the type, width and
          value CoHDL documents for the operator (specs/cohdl_semantics.py).
An AssertionError of the backend is a compile-time rejection (allowed).
"""

from __future__ import annotations

import z3

import cohdl
from cohdl import Unsigned, Signed, BitVector, Integer, Bit, Signal
from cohdl._core._bit import BitState
from cohdl._core._boolean import _Boolean
from cohdl._compiler.backend.vhdl import _vhdl_repr as VR
from cohdl._compiler.backend.vhdl._vhdl_repr import VhdlScope

from pyvc import contracts as C
from pyvc import interp as I
from pyvc import sym
from pyvc.contracts import Case, contract
from pyvc.values import Opaque, SCls, SFmt, SObj, TextOf
from contracts import core_models as M
from contracts.core_models import U, S, vec, width, bits, is_kind, INT, ival
from contracts.c05_format_cast import Built, tq, SCOPE, VKIND, KNAME
from specs import vhdl_ops as VO
from specs import cohdl_semantics as sem
from specs.vhdl_expr import VVal, TypeError_

PROPS = ("C02", "C06")  # C06: the emitted operator expressions are well typed under numeric_std / std_logic_1164
P2 = sym.pow2
BOp = VR.BinOp.Operator
COp = VR.Compare.Operator
UOp = VR.UnaryOp.Operator

C.inline("cohdl._core._type_qualifier:TypeQualifierBase.decay")
if hasattr(VR, "_write_numeric_operands"):
    # helper of BinOp.write / Compare.write (operand texts; negative integers next to unsigned operands): part of the writers
    I.register_inline(VR._write_numeric_operands)
C.inline("cohdl._compiler.backend.vhdl._vhdl_repr:VhdlScope.format_cast")


# typed views of a type-qualified object: summary = an object satisfying the PROVED contract of
# TypeQualifier.unsigned/.signed/.bitvector (contracts/c13_views.py: same root, same path, same bits, other kind)
def _tq_view_model(K, prop):
    def model(it, self):
        v = self.fields["_value"]
        if issubclass(v.kind, K) and (K is not BitVector or not (is_kind(v, Unsigned) or is_kind(v, Signed))):
            return self
        return tq(vec(K, width(v), bits(v), v.fields.get("known", True)), root=self.fields["_root"], ref_spec=self.fields["_ref_spec"])

    return model


for _prop, _K in (("unsigned", Unsigned), ("signed", Signed), ("bitvector", BitVector)):
    I.register_model(cohdl._core._type_qualifier.TypeQualifier.__dict__[_prop].fget, _tq_view_model(_K, _prop))


# ---- operands --------------------------------------------------------------------------------------------------
def vval_of(prim):
    """VHDL value of an operand text, from the CoHDL value of the operand expression's result"""
    if isinstance(prim, SObj) and prim.kind is Signal:
        prim = prim.fields["_value"]
    if is_kind(prim, BitVector):
        k = Unsigned if is_kind(prim, Unsigned) else Signed if is_kind(prim, Signed) else BitVector
        return VVal(VKIND[k], width(prim), bits(prim))
    if is_kind(prim, Integer):
        return VVal("integer", val=prim.fields["_val"])
    if sym.is_intlike(prim) and not isinstance(prim, (bool, z3.BoolRef)):
        return VVal("integer", val=sym.to_int(prim))
    if is_kind(prim, Bit):
        st = prim.fields["_val"]
        return VVal("std_logic", 1, st if sym.is_intlike(st) else (1 if st is BitState.HIGH else 0))
    if is_kind(prim, _Boolean):
        return VVal("boolean", val=prim.fields["_value"])
    raise TypeError_(f"operand {prim!r}")


class _Operand:
    """stands for an arbitrary operand expression (any vhdl.Expression)"""


def operand(name, result):
    return SObj(_Operand, result=result, f_name=name)


def _operand_write(it, self, scope, *a, **k):
    # the operand's text is a placeholder; its VHDL value is that of the CURRENT .result
    # (BinOp.write retypes the operands of a concatenation before writing them)
    name = self.fields["f_name"]
    it.operand_vvals[name] = vval_of(self.fields["result"])
    return name


_Operand.write = lambda self, scope: None  # looked up through the class; modelled below
I.register_model(_Operand.write, _operand_write)


def vec_operand(kind, pfx, form="tq"):
    """run-time vector operand of symbolic width / value"""
    names = [pfx + "w", pfx + "v"]

    def make(env):
        p = vec(kind, env[pfx + "w"], env[pfx + "v"])
        return tq(p) if form == "tq" else p

    def assume(env):
        return sym.And(env[pfx + "w"] >= 1, env[pfx + "v"] >= 0, env[pfx + "v"] < P2(env[pfx + "w"]))

    def src(asg):
        w, v = asg[pfx + "w"], asg[pfx + "v"]
        return f'cohdl.Signal[cohdl.{KNAME[kind]}[{w}]](cohdl.{KNAME[kind]}[{w}]("{v:0{w}b}"))'

    def sample(rng, asg):
        w = rng.randint(1, 8)
        asg[pfx + "w"] = w
        asg[pfx + "v"] = rng.randrange(2**w)

    return Built(names, make, src, lambda asg: vec(kind, asg[pfx + "w"], asg[pfx + "v"]), assume, sample)


def int_operand(pfx):
    return Built([pfx + "k"], lambda env: env[pfx + "k"], lambda asg: repr(asg[pfx + "k"]), lambda asg: asg[pfx + "k"], None, lambda rng, asg: asg.__setitem__(pfx + "k", rng.randint(-20, 300)))


def bit_operand(pfx):
    names = [pfx + "b"]

    def make(env):
        return tq(SObj(Bit, _val=env[pfx + "b"]))

    return Built(names, make, lambda asg: f"cohdl.Signal[cohdl.Bit]({asg[pfx + 'b']})", lambda asg: SObj(Bit, _val=asg[pfx + "b"]), lambda env: sym.And(env[pfx + "b"] >= 0, env[pfx + "b"] <= 1))


def prim_of(x):
    return x.fields["_value"] if isinstance(x, SObj) and x.kind is Signal else x


def expr_shape(cls, op, shapes):
    """the writer object: vhdl.BinOp / Compare / UnaryOp with operand expressions"""
    names = [n for s in shapes for n in s.names]

    def make(env):
        ops = [operand(f"OPND_{'LR'[i] if len(shapes) == 2 else 'A'}", s.make(None, env)) for i, s in enumerate(shapes)]
        o = SObj(cls, _op=op, result=Opaque("result"))
        if len(ops) == 2:
            o.fields["_lhs"], o.fields["_rhs"] = ops
        else:
            o.fields["_arg"] = ops[0]
        return o

    def assume(env):
        return sym.And(*[s.assume(env) for s in shapes])

    return Built(names, make, lambda asg: "<writer>", lambda asg: None, assume)


def text_pred(sx, it_holder, want):
    """want(operands: dict name -> VVal) -> expected (kind, width, bits) | ('boolean', cond) ; or raises SpecUnspecified"""

    def holds(text):
        ops = dict(it_holder["it"].operand_vvals)
        try:
            v = VO.evaluate(text, ops, sx)
        except TypeError_:
            return False
        exp = want
        if exp[0] == "boolean":
            return v.kind == "boolean" and sym.eq(v.val, exp[1]) if not (isinstance(v.val, bool) and isinstance(exp[1], bool)) else (v.kind == "boolean" and v.val == exp[1])
        if v.kind != exp[0]:
            return False
        return sym.And(sym.eq(v.width, exp[1]), sym.eq(v.bits, exp[2]))

    return C.Pred(holds, "text has the documented type, width and value")


def view_of(x):
    """(vhdl kind, width, bits) of a spec-side primitive view"""
    k = Unsigned if is_kind(x, Unsigned) else Signed if is_kind(x, Signed) else BitVector
    return (VKIND[k], width(x), bits(x))


HOLDER = {}


def add_case(con, name, cls, op, shapes, spec_fn):
    holder = {}

    def spec(sx, self, scope):
        a = [prim_of(self.fields[f].fields["result"]) for f in (("_lhs", "_rhs") if "_lhs" in self.fields else ("_arg",))]
        want = spec_fn(sx, *a)
        if want is NotImplemented:
            raise C.SpecUnspecified()
        return text_pred(sx, holder, want)

    c = Case(name, [expr_shape(cls, op, shapes), SCOPE], spec)
    c.native = False
    c.may_reject = AssertionError

    def setup(it, ctx, args, env):
        it.operand_vvals = {}
        holder["it"] = it

    c.setup = setup
    con.cases.append(c)
    return c


# ---- BinOp: arithmetic -------------------------------------------------------------------------------------------
def arith(fn):
    def f(sx, a, b):
        r = fn(sx, a, b)
        if r is NotImplemented:
            return r
        return view_of(r)

    return f


ARITH = {
    BOp.ADD: arith(lambda sx, a, b: sem.add(sx, a, b)),
    BOp.SUB: arith(lambda sx, a, b: sem.add(sx, a, b, sub=True)),
    BOp.MUL: arith(lambda sx, a, b: sem.mul(sx, a, b)),
    BOp.TRUNC_DIV: arith(lambda sx, a, b: sem.divop(sx, a, b, "truncdiv")),
    BOp.MOD: arith(lambda sx, a, b: sem.divop(sx, a, b, "mod")),
    BOp.REM: arith(lambda sx, a, b: sem.divop(sx, a, b, "rem")),
}

con = contract("cohdl._compiler.backend.vhdl._vhdl_repr:BinOp.write", PROPS)
for op, fn in ARITH.items():
    for K in (Unsigned, Signed):
        add_case(con, f"{op.name}:{KNAME[K]},{KNAME[K]}", VR.BinOp, op, [vec_operand(K, "a"), vec_operand(K, "b")], fn)
        add_case(con, f"{op.name}:{KNAME[K]},int", VR.BinOp, op, [vec_operand(K, "a"), int_operand("b")], fn).custom_replay = "contracts.c02_ops.replay_negative_int"


_NEGATIVE_INT_DESIGN = '''
import re
from cohdl import Entity, Port, Unsigned, Bit, std
class E(Entity):
    a = Port.input(Unsigned[4])
    s = Port.output(Unsigned[4])
    d = Port.output(Unsigned[4])
    p = Port.output(Unsigned[8])
    def architecture(self):
        @std.concurrent
        def logic():
            self.s <<= self.a + (-1)      # defined: wraps modulo 16 (Unsigned[4](3) + (-1) == 2)
            self.d <<= self.a - (-1)
            self.p <<= self.a * (-1)
t = std.VhdlCompiler.to_string(E)
bad = re.findall(r"\\(a\\) [-+*] \\(-\\d+\\)", t)
print("NEGATIVE-NATURAL" if bad else "NATURAL", bad or re.findall(r"\\(a\\) [-+*] \\(\\d+\\)", t))
'''


def replay_negative_int(payload):
    from contracts.c06_extra import _run_design

    rc, out = _run_design(_NEGATIVE_INT_DESIGN)
    return {"reproduced": rc == 0 and "NEGATIVE-NATURAL" in out, "detail": out[-300:]}


# ---- BinOp: element-wise operators (operands of the same type and width, result of that type) -------------------
def bitwise_spec(opname):
    def f(sx, a, b):
        if is_kind(a, Bit) and is_kind(b, Bit):
            return ("std_logic", 1, VO.bitwise(opname, a.fields["_val"], b.fields["_val"]))
        ka, kb = view_of(a)[0], view_of(b)[0]
        if ka != kb:
            return NotImplemented  # rejected by the front end (type mismatch)
        sx.domain(sym.eq(width(a), width(b)))  # the front end rejects different widths
        return (ka, width(a), VO.bitwise(opname, bits(a), bits(b)))

    return f


for op, nm in ((BOp.BIT_AND, "and"), (BOp.BIT_OR, "or"), (BOp.BIT_XOR, "xor")):
    for K in (BitVector, Unsigned, Signed):
        add_case(con, f"{op.name}:{KNAME[K]},{KNAME[K]}", VR.BinOp, op, [vec_operand(K, "a"), vec_operand(K, "b")], bitwise_spec(nm))
    add_case(con, f"{op.name}:Bit,Bit", VR.BinOp, op, [bit_operand("a"), bit_operand("b")], bitwise_spec(nm))


# ---- BinOp: concatenation: a BitVector of the summed width, the LEFT operand forms the most significant bits ----
def concat_spec(sx, a, b):
    def wb(x):
        if is_kind(x, Bit):
            return 1, x.fields["_val"]
        return width(x), bits(x)

    (wa, ba), (wb_, bb) = wb(a), wb(b)
    return ("slv", sym.to_int(wa) + sym.to_int(wb_), ba * P2(wb_) + bb)


for KA in (BitVector, Unsigned, Signed, Bit):
    for KB in (BitVector, Unsigned, Signed, Bit):
        sa = bit_operand("a") if KA is Bit else vec_operand(KA, "a")
        sb = bit_operand("b") if KB is Bit else vec_operand(KB, "b")
        add_case(con, f"CONCAT:{KA.__name__},{KB.__name__}", VR.BinOp, BOp.CONCAT, [sa, sb], concat_spec)


# ---- BinOp: shifts ----------------------------------------------------------------------------------------------
def shift_spec(left):
    def f(sx, a, n):
        k = sem.literal(n)
        if k is None:
            if not is_kind(n, Unsigned):
                return NotImplemented
            k = bits(n)
        return view_of(sem.shift(sx, a, k, left))

    return f


for op, left in ((BOp.LSHIFT, True), (BOp.RSHIFT, False)):
    for K in (Unsigned, Signed):
        add_case(con, f"{op.name}:{KNAME[K]},int", VR.BinOp, op, [vec_operand(K, "a"), int_operand("b")], shift_spec(left))
        add_case(con, f"{op.name}:{KNAME[K]},Unsigned", VR.BinOp, op, [vec_operand(K, "a"), vec_operand(Unsigned, "b")], shift_spec(left))


# ---- Compare -------------------------------------------------------------------------------------------------------
def cmp_spec(opname):
    def f(sx, a, b):
        if is_kind(a, Bit) and is_kind(b, Bit):
            r = sym.eq(a.fields["_val"], b.fields["_val"])
            return ("boolean", r if opname == "eq" else sym.Not(r))
        if view_of(a)[0] == "slv":
            # plain bit vectors: equality of equally wide vectors only
            sx.domain(sym.eq(width(a), width(b)))
            r = sym.eq(bits(a), bits(b))
            return ("boolean", r if opname == "eq" else sym.Not(r))
        r = sem.cmp(sx, a, b, opname)
        if r is NotImplemented:
            return r
        return ("boolean", r)

    return f


con = contract("cohdl._compiler.backend.vhdl._vhdl_repr:Compare.write", PROPS)
for op, nm in ((COp.EQ, "eq"), (COp.NE, "ne"), (COp.GT, "gt"), (COp.LT, "lt"), (COp.GE, "ge"), (COp.LE, "le")):
    for K in (Unsigned, Signed):
        add_case(con, f"{op.name}:{KNAME[K]},{KNAME[K]}", VR.Compare, op, [vec_operand(K, "a"), vec_operand(K, "b")], cmp_spec(nm))
        add_case(con, f"{op.name}:{KNAME[K]},int", VR.Compare, op, [vec_operand(K, "a"), int_operand("b")], cmp_spec(nm))
    if nm in ("eq", "ne"):
        add_case(con, f"{op.name}:BitVector,BitVector", VR.Compare, op, [vec_operand(BitVector, "a"), vec_operand(BitVector, "b")], cmp_spec(nm))
        add_case(con, f"{op.name}:Bit,Bit", VR.Compare, op, [bit_operand("a"), bit_operand("b")], cmp_spec(nm))


# ---- UnaryOp ------------------------------------------------------------------------------------------------------
def inv_spec(sx, a):
    if is_kind(a, Bit):
        return ("std_logic", 1, 1 - a.fields["_val"])
    k, w, b = view_of(a)
    return (k, w, P2(w) - 1 - b)


con = contract("cohdl._compiler.backend.vhdl._vhdl_repr:UnaryOp.write", PROPS)
for K in (BitVector, Unsigned, Signed):
    add_case(con, f"INV:{KNAME[K]}", VR.UnaryOp, UOp.INV, [vec_operand(K, "a")], inv_spec)
add_case(con, "INV:Bit", VR.UnaryOp, UOp.INV, [bit_operand("a")], inv_spec)
for K in (Unsigned, Signed):
    add_case(con, f"NEG:{KNAME[K]}", VR.UnaryOp, UOp.NEG, [vec_operand(K, "a")], lambda sx, a: view_of(sem.neg(sx, a)))
add_case(con, "ABS:Signed", VR.UnaryOp, UOp.ABS, [vec_operand(Signed, "a")], lambda sx, a: view_of(sem.absolute(sx, a)))


# ---- VhdlScope._format_ref: the text of one step of a reference path (slice / constant index) ---------------------
# Lemma: with PARENT the text so far, denoting a vector of the parent's kind and width pw with bits pbits, the text
# returned for Slice(start, stop, base_offset=[b1..bk]) denotes  bits[start+S : stop+S]  of the parent (S = sum b_i) as a
# vector of width start-stop+1 whose VHDL type is the parent's kind (reads: cast / qualified; targets: the bare slice),
# and the returned CoHDL type is that kind and width; for Offset(i, [b..]) it denotes bit i+S as std_logic.
from cohdl._core._type_qualifier import Slice as _Slice, Offset as _Offset  # noqa: E402

C.inline("cohdl._core._type_qualifier:Slice.simplify")
C.inline("cohdl._core._type_qualifier:Offset.simplify")


def ref_shape(kind, what, k):
    names = ["pw", "pbits", "start", "stop"] + [f"b{i}" for i in range(k)]

    def make(env):
        o = tq(vec(kind, env["pw"], env["pbits"]))
        o.fields["type"] = o.fields["_value"].cls  # TypeQualifier.type: the wrapped type
        return o

    def assume(env):
        S = sum(env[f"b{i}"] for i in range(k)) if k else 0
        c = [env["pw"] >= 1, env["pbits"] >= 0, env["pbits"] < P2(env["pw"])] + [env[f"b{i}"] >= 0 for i in range(k)]
        if what == "slice":
            # the reference lies inside the parent (established by the IR-level contracts of C13)
            c += [env["stop"] + S >= 0, env["start"] >= env["stop"], env["start"] + S < env["pw"]]
        else:
            c += [env["start"] + S >= 0, env["start"] + S < env["pw"], sym.eq(env["stop"], 0)]
        return sym.And(*c)

    return Built(names, make, lambda a: "<parent>", lambda a: None, assume)


def refspec_shape(what, k):
    def make(env):
        base = [env[f"b{i}"] for i in range(k)]
        if what == "slice":
            return SObj(_Slice, start=env["start"], stop=env["stop"], base_offset=base, obj=None)
        return SObj(_Offset, offset=env["start"], base_offset=base, obj=None)

    return Built([], make, lambda a: "<ref>", lambda a: None)


def format_ref_spec(kind, what, k, is_target, constrain):
    def spec(sx, scope, obj, root_name, ref_spec, is_target_, constrain_=False):
        prim = prim_of(obj)
        pw, pbits = width(prim), bits(prim)
        base = ref_spec.fields["base_offset"]
        S = sum(base) if base else 0
        parent = VVal(VKIND[kind], pw, pbits)
        if what == "slice":
            lo, hi = ref_spec.fields["stop"] + S, ref_spec.fields["start"] + S
            w = hi - lo + 1
            want_bits = sym.pymod(sym.pydiv(pbits, P2(lo)), P2(w))
        else:
            w = 1
            want_bits = sym.bit_at(pbits, ref_spec.fields["offset"] + S)

        def holds(res):
            if not (isinstance(res, tuple) and len(res) == 2):
                return False
            text, rtype = res
            try:
                v = VO.evaluate(text, {"PARENT": parent}, sx)
            except TypeError_:
                return False
            if what == "offset":
                return v.kind == "std_logic" and rtype is Bit and sym.eq(v.bits, want_bits)
            if v.kind != VKIND[kind]:
                return False
            want_kind = BitVector if is_target else kind
            if not (isinstance(rtype, SCls) and rtype.kind is want_kind):
                return False
            return sym.And(sym.eq(v.width, w), sym.eq(v.bits, want_bits), sym.eq(rtype.params["width"], w))

        return C.Pred(holds, "text denotes the referenced bits of the parent")

    return spec


NAME = Built([], lambda env: "PARENT", lambda a: "'PARENT'", lambda a: None)
con = contract("cohdl._compiler.backend.vhdl._vhdl_repr:VhdlScope._format_ref", PROPS + ("C13", "C06"))
for K in (BitVector, Unsigned, Signed):
    for k in (0, 1, 2):
        for is_target, constrain in ((False, False), (False, True), (True, False)):
            T = Built([], (lambda v: lambda env: v)(is_target), lambda a: repr(is_target), lambda a: None)
            CN = Built([], (lambda v: lambda env: v)(constrain), lambda a: repr(constrain), lambda a: None)
            c = Case(f"slice:{KNAME[K]},{k}-offsets,{'target' if is_target else 'constrained' if constrain else 'value'}", [SCOPE, ref_shape(K, "slice", k), NAME, refspec_shape("slice", k), T, CN], format_ref_spec(K, "slice", k, is_target, constrain))
            c.native = False
            c.may_reject = AssertionError
            c.interp_flags = {"arith_hints": True}
            con.cases.append(c)
        T = Built([], lambda env: False, lambda a: "False", lambda a: None)
        c = Case(f"offset:{KNAME[K]},{k}-offsets", [SCOPE, ref_shape(K, "offset", k), NAME, refspec_shape("offset", k), T], format_ref_spec(K, "offset", k, False, False))
        c.native = False
        c.may_reject = AssertionError
        # a constant index is written as the integer itself (format_value of an int with an Integer hint)
        c.models = [(VhdlScope.__dict__["format_value"], lambda it, self, obj, *a, **kw: SFmt([TextOf(obj)]))]
        c.interp_flags = {"arith_hints": True}
        con.cases.append(c)


# run-time index below enclosing constant offsets (`v[7:4][i]`): the text `PARENT(<i>)` has no place for the constant part S of the
# position i + S -- it is correct only for S == 0; any other accumulated offset must be rejected, not dropped
from cohdl import Signal as _RtSignal  # noqa: E402


def rt_offset_spec(k):
    def spec(sx, scope, obj, root_name, ref_spec, is_target_, constrain_=False):
        base = list(ref_spec.fields["base_offset"])
        S = sum(base) if base else 0
        if sx.branch(sym.Not(sym.eq(S, 0))):
            sx.reject(AssertionError)

        def holds(res):
            if not (isinstance(res, tuple) and len(res) == 2 and res[1] is Bit):
                return False
            text = res[0]
            flat = "".join(map(str, text.parts)) if isinstance(text, SFmt) else str(text)
            return flat == "PARENT(<run-time index>)"

        return C.Pred(holds, "PARENT(<index>): the position is the index itself")

    return spec


for k in (0, 1, 2):
    def mk_rt(env, k=k):
        return SObj(_Offset, offset=SObj(_RtSignal, f_tag="run-time index", _ref_spec=[]), base_offset=[env[f"b{i}"] for i in range(k)], obj=None)

    T = Built([], lambda env: False, lambda a: "False", lambda a: None)
    c = Case(f"offset:run-time-index,{k}-constant-offsets", [SCOPE, ref_shape(BitVector, "offset", k), NAME, Built([], mk_rt, lambda a: "<ref>", lambda a: None), T], rt_offset_spec(k))
    c.native = False
    c.models = [(VhdlScope.__dict__["format_value"], lambda it, self, obj, *a, **kw: "<run-time index>")]
    c.custom_replay = "contracts.c02_ops.replay_runtime_index_offset"
    con.cases.append(c)

_RT_INDEX_DESIGN = '''
from cohdl import Entity, Port, Bit, BitVector, Unsigned, std
class RtIndex(Entity):
    v = Port.input(BitVector[8])
    i = Port.input(Unsigned[2])
    o = Port.output(Bit)
    def architecture(self):
        @std.concurrent
        def logic():
            self.o <<= self.v[7:4][self.i]
try:
    t = std.VhdlCompiler.to_string(RtIndex)
    print("ACCEPTED", [l.strip() for l in t.splitlines() if "to_integer" in l])
except AssertionError:
    print("REJECTED")
'''


def replay_runtime_index_offset(payload):
    import re
    from contracts.c06_extra import _run_design

    rc, out = _run_design(_RT_INDEX_DESIGN)
    # accepted is fine only if the emitted index adds the offset of the slice
    bad = "ACCEPTED" in out and not re.search(r"\+\s*4|4\s*\+", out)
    return {"reproduced": bad, "detail": "`self.v[7:4][self.i]` (run-time index into a slice that starts at bit 4): " + out[-160:]}


# C09 ("the same type, width and value as the logic emitted for the same operation applied to run-time signals"): the emitted side of
# that comparison are these writers -- their contracts state the value of the emitted text as a function of the operand values
for _q in ("BinOp.write", "Compare.write", "UnaryOp.write"):
    contract("cohdl._compiler.backend.vhdl._vhdl_repr:" + _q, ("C09",))


# bitwise operators on RUN-TIME integers (`int_port & 3`): VHDL has no `and` / `or` / `xor` for the type integer -- `(i) and (3)` is not
# an expression of the emitted language; the design has to be rejected
from cohdl import Integer as _Integer  # noqa: E402


def integer_operand(pfx):
    return Built([pfx + "k"], lambda env: tq(SObj(_Integer, _val=env[pfx + "k"], _value=env[pfx + "k"])), lambda asg: f"cohdl.Signal[int]({asg[pfx + 'k']})", lambda asg: asg[pfx + "k"])


def _reject_spec(sx, a, b):
    sx.reject(AssertionError)


_bcon = C.CONTRACTS["cohdl._compiler.backend.vhdl._vhdl_repr:BinOp.write"]
for _op in (VR.BinOp.Operator.BIT_AND, VR.BinOp.Operator.BIT_OR, VR.BinOp.Operator.BIT_XOR):
    for _nm, _shapes in (("Integer,int", [integer_operand("a"), int_operand("b")]), ("int,Integer", [int_operand("a"), integer_operand("b")]), ("Integer,Integer", [integer_operand("a"), integer_operand("b")])):
        _c = add_case(_bcon, f"{_op.name}:{_nm}", VR.BinOp, _op, _shapes, _reject_spec)
        _c.may_reject = None
        _c.custom_replay = "contracts.c02_ops.replay_integer_bitwise"

_INT_BITWISE_DESIGN = '''
import cohdl
from cohdl import Port, std
class IntBitwise(cohdl.Entity):
    i = Port.input(int)
    o = Port.output(int)
    def architecture(self):
        @std.concurrent
        def logic():
            self.o <<= self.i & 3
try:
    t = std.VhdlCompiler.to_string(IntBitwise)
    print("ACCEPTED", [l.strip() for l in t.splitlines() if " and " in l])
except AssertionError:
    print("REJECTED")
'''


def replay_integer_bitwise(payload):
    from contracts.c06_extra import _run_design

    rc, out = _run_design(_INT_BITWISE_DESIGN)
    return {"reproduced": "ACCEPTED" in out, "detail": "`self.o <<= self.i & 3` with integer ports: " + out[-100:]}


# constants of the type cohdl.Integer next to Unsigned operands: the same number as a Python int -- written as a NATURAL (negative
# values modulo 2**width where the operation wraps, rejected otherwise), not verbatim as a negative VHDL integer
C.inline("cohdl._core._integer:Integer.get_value")


def integer_constant(pfx):
    return Built([pfx + "k"], lambda env: SObj(_Integer, _val=env[pfx + "k"]), lambda asg: f"cohdl.Integer({asg[pfx + 'k']})", lambda asg: asg[pfx + "k"], None,
                 lambda rng, asg: asg.__setitem__(pfx + "k", rng.randint(-20, 300)))


def _unwrap_integer(fn):
    def spec(sx, a, b):
        a = a.fields["_val"] if isinstance(a, SObj) and a.kind is _Integer else a
        b = b.fields["_val"] if isinstance(b, SObj) and b.kind is _Integer else b
        return fn(sx, a, b)

    return spec


for op, fn in ARITH.items():
    add_case(_bcon, f"{op.name}:Unsigned,Integer-constant", VR.BinOp, op, [vec_operand(Unsigned, "a"), integer_constant("b")], _unwrap_integer(fn)).custom_replay = "contracts.c02_ops.replay_negative_integer_constant"

_NEG_INTEGER_DESIGN = '''
import re
from cohdl import Entity, Port, Unsigned, Integer, std
IM1 = Integer(-1)
class E(Entity):
    a = Port.input(Unsigned[4])
    s = Port.output(Unsigned[4])
    def architecture(self):
        @std.concurrent
        def logic():
            self.s <<= self.a + IM1
t = std.VhdlCompiler.to_string(E)
bad = re.findall(r"\\(a\\) \\+ \\(-\\d+\\)", t)
print("NEGATIVE-NATURAL" if bad else "NATURAL", bad or re.findall(r"\\(a\\) \\+ \\(\\d+\\)", t))
'''


def replay_negative_integer_constant(payload):
    from contracts.c06_extra import _run_design

    rc, out = _run_design(_NEG_INTEGER_DESIGN)
    return {"reproduced": rc == 0 and "NEGATIVE-NATURAL" in out, "detail": "`a + Integer(-1)` with a : Unsigned[4]: " + out[-80:]}
