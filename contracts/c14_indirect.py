"""C14: the end-of-context helpers of std.Fifo / std.SyncFlag that hand the status flags to a context whose role (sender /
receiver / observer) is only known when the context ends.

  Fifo._impl_empty_indirect / _impl_full_indirect, SyncFlag._impl_rx_indirect / _impl_tx_indirect
      drive the `*_indirect` signal CONCURRENTLY (inside `with cohdl.always:`) from the flag that belongs to the role of the current
      context: the sender's view in the sender context, the receiver's view in the receiver context, the synchronised flag elsewhere.
      A clocked assignment instead would hand the consumer a status that is one clock old ('U' before the first edge): a pop on a
      fifo that became empty in the previous cycle, or a missed element.
  SyncFlag._impl_tx_delay
      the FIRST call records the current context as receiver context and returns True (Fifo.pop installs the index exchange
      _impl_sync_write_index exactly then), with or without a configured delay; later calls from the same context return False; a
      call from another context is rejected; a delay line is installed exactly when a tx delay is configured.
"""

from __future__ import annotations

from cohdl.std import utility as UT
from cohdl.std import _context as SC

from pyvc import contracts as C
from pyvc import interp as I
from pyvc.contracts import Case, contract
from pyvc.values import SObj, Opaque
from contracts.c05_format_cast import Built

PROPS = ("C14",)


class _AlwaysCM:
    """stand-in of cohdl.always: entering / leaving is recorded"""


_AlwaysCM.__enter__ = lambda self: None
_AlwaysCM.__exit__ = lambda self, a, b, c: None


def _enter(it, self):
    it.in_always += 1
    return None


def _exit(it, self, a, b, c):
    it.in_always -= 1
    return None


I.register_model(_AlwaysCM.__enter__, _enter)
I.register_model(_AlwaysCM.__exit__, _exit)


class _Sig:
    """signal: `<<=` records (target, source, inside always?)"""


_Sig.__ilshift__ = lambda self, v: None


def _assign(it, self, v):
    it.assignments.append((self.fields["f_tag"], v.fields["f_tag"] if isinstance(v, SObj) else v, it.in_always > 0))
    return self


I.register_model(_Sig.__ilshift__, _assign)


def sig(tag):
    return SObj(_Sig, f_tag=tag)


def _current(it, *a):
    return it.current_ctx


_CURRENT = SC.SequentialContext.__dict__["current"]
_CURRENT = _CURRENT.__func__ if isinstance(_CURRENT, (staticmethod, classmethod)) else _CURRENT
_CURRENT = getattr(_CURRENT, "__wrapped__", _CURRENT)

TX, RX, OTHER = Opaque("sender context"), Opaque("receiver context"), Opaque("observer context")


def indirect_spec(target, by_role, role):
    def spec(sx, self):
        it = sx.it
        return C.Pred(lambda res: it.assignments == [(target, by_role[role], True)], f"{target} <<= {by_role[role]}, concurrently")

    return spec


def _common_setup(role):
    def setup(it, ctx, args, env):
        it.in_always, it.assignments = 0, []
        it.current_ctx = {"sender": TX, "receiver": RX, "observer": OTHER}[role]
        ctx.global_overlay[(UT.__name__, "always")] = SObj(_AlwaysCM)

    return setup


def fifo_shape(env):
    flag = SObj(UT.SyncFlag, _tx_ctx=TX, _rx_ctx=RX)
    return SObj(UT.Fifo, _sync_flag=flag, _empty_indirect=sig("empty_indirect"), _empty_in_sender=sig("empty_in_sender"), _empty_in_receiver=sig("empty_in_receiver"), _empty=sig("empty"),
                _full_indirect=sig("full_indirect"), _full_in_sender=sig("full_in_sender"), _full_in_receiver=sig("full_in_receiver"), _full=sig("full"))


def flag_shape(env):
    return SObj(UT.SyncFlag, _tx_ctx=TX, _rx_ctx=RX, _rx_indirect=sig("rx_indirect"), _set_rx=sig("set_rx"), _rx=sig("rx"), _tx_indirect=sig("tx_indirect"), _set_tx=sig("set_tx"), _tx=sig("tx"))


TABLE = [
    ("cohdl.std.utility:Fifo._impl_empty_indirect", fifo_shape, "empty_indirect", {"sender": "empty_in_sender", "receiver": "empty_in_receiver", "observer": "empty"}),
    ("cohdl.std.utility:Fifo._impl_full_indirect", fifo_shape, "full_indirect", {"sender": "full_in_sender", "receiver": "full_in_receiver", "observer": "full"}),
    ("cohdl.std.utility:SyncFlag._impl_rx_indirect", flag_shape, "rx_indirect", {"sender": "rx", "receiver": "set_rx", "observer": "rx"}),
    ("cohdl.std.utility:SyncFlag._impl_tx_indirect", flag_shape, "tx_indirect", {"sender": "set_tx", "receiver": "tx", "observer": "tx"}),
]
for qual, shape, target, by_role in TABLE:
    con = contract(qual, PROPS)
    for role in ("sender", "receiver", "observer"):
        c = Case(f"in-{role}-context", [Built([], shape, lambda a: "<self>", lambda a: None)], indirect_spec(target, by_role, role))
        c.native = False
        c.models = [(_CURRENT, _current)]
        c.setup = _common_setup(role)
        con.cases.append(c)


# ---- SyncFlag._impl_tx_delay -------------------------------------------------------------------------------------------------------
def _as_pyeval(it, fn, *args, **kwargs):
    if fn is setattr:
        obj, name, value = args
        obj.fields[name] = value
        return None
    return it.call(fn, list(args), kwargs)


def _at_end(it, fn, *a, **k):
    it.end_of_context.append(getattr(fn, "__name__", None) or getattr(getattr(fn, "fn", None), "__name__", "?"))
    return None


def tx_delay_spec(known, delay, same_ctx):
    def spec(sx, self):
        it = sx.it
        real = sx.real_args[0]
        if known and not same_ctx:
            sx.reject(AssertionError)

        def holds(res):
            if known:
                return res is False and real.fields["_rx_ctx"] is RX and it.end_of_context == []
            return res is True and real.fields["_rx_ctx"] is it.current_ctx and it.end_of_context == (["_impl_tx_delayline"] if delay else [])

        return C.Pred(holds, "first call: context recorded, True (delay line iff a delay is configured); later calls: False")

    return spec


con = contract("cohdl.std.utility:SyncFlag._impl_tx_delay", PROPS)
for known in (False, True):
    for delay in (0, 2):
        for same_ctx in ((True,) if not known else (True, False)):
            def mk(env, known=known, delay=delay):
                return SObj(UT.SyncFlag, _rx_ctx=RX if known else None, _tx_ctx=TX, _tx_delay=delay)

            c = Case(f"{'later' if known else 'first'}-call,tx_delay={delay}{'' if same_ctx else ',other-context'}", [Built([], mk, lambda a: "<flag>", lambda a: None)], tx_delay_spec(known, delay, same_ctx))
            c.native = False
            c.models = [(_CURRENT, _current), (UT.as_pyeval, _as_pyeval), (UT.at_end_of_context, _at_end)]

            def setup(it, ctx, args, env, same_ctx=same_ctx):
                it.end_of_context = []
                it.current_ctx = RX if same_ctx else OTHER

            c.setup = setup
            con.cases.append(c)
