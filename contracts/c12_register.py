"""C12: an instance / context / exit handler created while a block is being elaborated belongs to THAT block.

cohdl._core._context keeps a stack of the blocks (entities) under elaboration.  _register_block, _register_context
and on_block_exit must attach to the innermost open block (top of the stack) and leave every other block of the
stack untouched -- an instance created inside a nested entity (also from within one of its contexts) would
otherwise be emitted in, and wired to signals of, another entity.  With an empty stack a block is an inline
entity (handed to the registered handler), a context / handler is rejected.
"""

from __future__ import annotations

from cohdl._core import _context as CTX

from pyvc import contracts as C
from pyvc import interp as I
from pyvc.contracts import Case, contract
from pyvc.values import SObj
from contracts.c05_format_cast import Built

PROPS = ("C12",)
MOD = "cohdl._core._context"


class _Blk:
    """block on the elaboration stack"""


def _handler(block):
    pass


I.register_model(_handler, lambda it, block: it.inline.append(block))

NEW = Built([], lambda env: SObj(_Blk, f_tag="new"), lambda a: "None", lambda a: None)
FIELD = {"_register_block": "_subblocks", "_register_context": "_subcontext", "on_block_exit": "_exit_handlers"}


def reg_spec(fname, depth):
    def spec(sx, new):
        it = sx.it
        if depth == 0 and fname != "_register_block":
            raise C.SpecRaise(AssertionError)

        def holds(res):
            if res is not None:
                return False
            if depth == 0:
                return it.inline == [sx.real_args[0]]
            for i, b in enumerate(it.stack):
                info = b.fields["_cohdl_block_info"].fields
                for f in FIELD.values():
                    want = ["old"] + ([sx.real_args[0]] if (i == depth - 1 and f == FIELD[fname]) else [])
                    got = info[f]
                    if len(got) != len(want) or any(a is not b_ for a, b_ in zip(got, want)):
                        return False
            return len(it.stack) == depth and it.inline == []

        return C.Pred(holds, "attached to the innermost open block only")

    return spec


for fname in FIELD:
    con = contract(f"{MOD}:{fname}", PROPS)
    for depth in (0, 1, 2, 3):
        c = Case(f"stack-depth-{depth}", [NEW], reg_spec(fname, depth))
        c.native = False

        def setup(it, ctx, args, env, depth=depth):
            it.stack = [SObj(_Blk, f_tag=f"open{i}", _cohdl_block_info=SObj(_Blk, _subblocks=["old"], _subcontext=["old"], _exit_handlers=["old"])) for i in range(depth)]
            it.inline = []
            ctx.global_overlay[(MOD, "_block_stack")] = it.stack
            ctx.global_overlay[(MOD, "_on_register_inline_entity_handler")] = _handler

        c.setup = setup
        con.cases.append(c)
