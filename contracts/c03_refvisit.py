"""C03 / C07 / C08: ir._visit_referenced_objects, the traversal every object pass is built on.

For each object a statement reports (with the access the statement makes to it) the callback also sees the
run-time parts of that object's reference path -- the index of `arr[idx]`, the bounds of a run-time slice --
and ALWAYS as a READ, whatever the access to the element itself: `mem[addr] <<= data` reads `addr`.
(The unused-temporary cleanup keeps only temporaries that are read: an index reported as written would lose
its snapshot assignment, and the write would hit a stale element.)  The path part is visited before the
object, is replaced by what the callback returns, and constant path parts are not reported at all.

The other contracts (c07_always, c08_temporaries, c08_cleanup) use exactly this behaviour as their model of
the function; here the real body is checked against it for every combination of access and path shape.
"""

from __future__ import annotations

import itertools

from cohdl import Signal
from cohdl._core._ir import _repr as ir
from cohdl._core._ir._repr import AccessFlags
from cohdl._core._type_qualifier import Offset, Slice

from pyvc import contracts as C
from pyvc import interp as I
from pyvc.contracts import Case, contract
from pyvc.values import SObj
from contracts.c05_format_cast import Built

PROPS = ("C03", "C07", "C08", "C06")  # C06: sensitivity inference sees index signals only through this traversal
R, W, P = AccessFlags.READ, AccessFlags.WRITE, AccessFlags.PUSH


class _Stmt:
    """a statement: visit_objects reports the (object, access) pairs in f_objs and stores the replacements"""


_Stmt.visit_objects = lambda self, operation: None


def _stmt_visit(it, self, operation):
    self.fields["f_result"] = [it.call(operation, [o, a], {}) for o, a in self.fields["f_objs"]]
    return None


I.register_model(_Stmt.visit_objects, _stmt_visit)


def _operation(obj, access):
    pass


def _op_model(it, obj, access):
    it.seen.append((obj, access))
    r = SObj(Signal, _ref_spec=[], f_replaces=obj)
    return r


def idx(tag):
    return SObj(Signal, _ref_spec=[], f_tag=tag)


PATHS = {
    "plain": lambda: [],
    "run-time-index": lambda: [SObj(Offset, offset=idx("i"), base_offset=[])],
    "const-index": lambda: [SObj(Offset, offset=3, base_offset=[])],
    "run-time-slice": lambda: [SObj(Slice, start=idx("a"), stop=idx("b"), base_offset=[])],
    "half-run-time-slice": lambda: [SObj(Slice, start=2, stop=idx("b"), base_offset=[])],
    "index-of-slice": lambda: [SObj(Slice, start=7, stop=0, base_offset=[]), SObj(Offset, offset=idx("i"), base_offset=[])],
    "index-of-index": lambda: [SObj(Offset, offset=idx("i"), base_offset=[]), SObj(Offset, offset=idx("j"), base_offset=[])],
}


def stmt_shape(path, access, second):
    def make(env):
        objs = [(SObj(Signal, _ref_spec=PATHS[path](), f_tag="obj"), access)]
        if second:
            objs.append((5, R))  # a literal operand: not type-qualified, reported as it is
            objs.append((SObj(Signal, _ref_spec=PATHS["run-time-index"](), f_tag="obj2"), W))
        return SObj(_Stmt, f_objs=objs)

    return Built([], make, lambda asg: "None", lambda asg: None)


def path_parts(ref):
    if ref.kind is Offset:
        return ["offset"]
    return ["start", "stop"]


def visit_spec(sx, self, operation):
    it = sx.it
    real = sx.real_args[0]

    def holds(res):
        if res is not None:
            return False
        seen = list(it.seen)
        k = 0
        for n, (o, a) in enumerate(real.fields["f_objs"]):
            if isinstance(o, SObj):
                for ref in o.fields["_ref_spec"]:
                    for part in path_parts(ref):
                        cur = ref.fields[part]
                        if isinstance(cur, int):
                            continue  # constant: untouched and not reported
                        # replaced by the callback's result for the ORIGINAL part, which was reported as a READ
                        if k >= len(seen) or cur.fields.get("f_replaces") is not seen[k][0] or seen[k][1] is not R or "f_replaces" in seen[k][0].fields:
                            return False
                        k += 1
            if k >= len(seen) or seen[k][0] is not o or seen[k][1] is not a:
                return False
            rep = real.fields["f_result"][n]
            if not (isinstance(rep, SObj) and rep.fields.get("f_replaces") is o):
                return False
            k += 1
        return k == len(seen)

    return C.Pred(holds, "path parts reported as READ before the object, object with its own access, replacements stored")


con = contract("cohdl._core._ir._repr:_visit_referenced_objects", PROPS)
OP = Built([], lambda env: _operation, lambda asg: "None", lambda asg: None)
for path, access, second in itertools.product(PATHS, (R, W, P, R | W, W | P), (False, True)):
    c = Case(f"{path},{access.name or str(access)}{',more-operands' if second else ''}", [stmt_shape(path, access, second), OP], visit_spec)
    c.native = False
    c.models = [(_operation, _op_model)]

    def setup(it, ctx, args, env):
        it.seen = []

    c.setup = setup
    con.cases.append(c)
