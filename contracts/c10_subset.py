"""C10: three more pieces of the Python subset, each compared with what CPython does.

(1) zero-argument super() (PrepareAst.apply_impl, ast.Call branch), proved from the real source:
    CPython binds super() to the `__class__` CELL of the method being compiled -- the class the method is
    DEFINED in -- and to its first argument, not to type(self).  Contract: the produced value is
    super(<class cell>, <first argument>) for a method of a middle class running on an instance of a subclass.
(2) PrepareAst._split_target (iterable unpacking with an optional starred target): bounded exhaustive sweep of
    the real function against the CPython assignment statement itself (<= 5 targets, star anywhere, sources
    of 0..7 elements): same split, and a rejection exactly where CPython raises ValueError.
(3) _ScopeBase._capture_env (name resolution of a captured function): bounded exhaustive sweep against a real
    closure: for every placement of a name among {closure cell, module global, builtin} the captured value is
    the one CPython's LEGB rule gives.
(2) and (3) are bounded native checks (labelled so in the evidence), (1) is a discharged obligation.
"""

from __future__ import annotations

import ast
import itertools

from cohdl._compiler.frontend import _prepare_ast as PA
from cohdl._compiler.frontend import _prepare_ast_out as OUT
from cohdl._core import _collect_ast_and_scope as CAS

from pyvc import contracts as C
from pyvc import interp as I
from pyvc.contracts import Case, contract
from pyvc.values import SObj
from contracts.c05_format_cast import Built
from contracts.c02_frontend import _Expr, _Prep
from contracts import c10_frontend as _F  # noqa: F401  (defines the _Prep.apply stand-in)

PROPS = ("C10",)


# ---- (1) super() -----------------------------------------------------------------------------------------------------------
class _Base:
    def m(self):
        return "base"


class _Mid(_Base):
    def m(self):
        return "mid"


class _Leaf(_Mid):
    def m(self):
        return "leaf"


_Prep.lookup_name = lambda self, name: None
_Prep.super_arg = lambda self: None
I.register_model(_Prep.lookup_name, lambda it, self, name: it.scope[name])
I.register_model(_Prep.super_arg, lambda it, self: it.first_arg)


def super_spec(sx, self, inp):
    it = sx.it

    def holds(res):
        if not (isinstance(res, SObj) and res.kind is OUT.Value):
            return False
        v = res.fields["f_value"]
        return isinstance(v, super) and v.__thisclass__ is it.scope["__class__"] and v.__self__ is it.first_arg and v.m() == "base"

    return C.Pred(holds, "super(__class__ cell, first argument): resolves to the class AFTER the defining class in the MRO of the instance")


con = contract("cohdl._compiler.frontend._prepare_ast:PrepareAst.apply_impl", PROPS)
SELF = Built([], lambda env: SObj(_Prep, _last_apply_inp=None, _context=None), lambda a: "<self>", lambda a: None)
INP = Built([], lambda env: ast.parse("super()", mode="eval").body, lambda a: "<super()>", lambda a: None)
c = Case("super():method-of-middle-class,instance-of-subclass", [SELF, INP], super_spec)
c.native = False
c.models = [(_Prep.apply, lambda it, self, node: SObj(_Expr, f_result=super)), (PA._is_intrinsic, lambda it, x: False), (PA._is_expr_function, lambda it, x: False)]
c.interp_flags = {"class_call_models": {OUT.Value: lambda it, args, kw: SObj(OUT.Value, f_value=args[0], f_bound=args[1])}}


def _setup(it, ctx, args, env):
    it.first_arg = _Leaf()
    it.scope = {"__class__": _Mid}


c.setup = _setup
con.cases.append(c)


# ---- (4) unary + / - on compile-time values, (5) dict displays with ** entries: the real branch against CPython itself -----------
import enum  # noqa: E402

from cohdl._compiler.frontend._value_branch import ObjTraits  # noqa: E402


class _Level(enum.IntEnum):
    LOW = 1
    HIGH = 2


class _Angle(int):
    def __pos__(self):
        return _Angle(int(self) % 360)

    def __neg__(self):
        return _Angle((-int(self)) % 360)


def _static(cls, name):
    r = cls.__dict__[name]
    return r.__func__ if isinstance(r, (staticmethod, classmethod)) else r


NATIVE_TRAITS = [
    (_static(ObjTraits, "gettype"), lambda it, x: type(x)),
    (_static(ObjTraits, "hasattr"), lambda it, t, name: hasattr(t, name)),
    (_static(ObjTraits, "getattr"), lambda it, t, name: getattr(t, name)),
    (_static(ObjTraits, "get"), lambda it, x: x),
]


def _native_subcall(it, self, fn, args, kwargs, noreturn=None):
    return SObj(_Expr, f_result=fn(*args, **kwargs), f_bound=[])


def same_value(a, b):
    return type(a) is type(b) and a == b


OPERANDS = {"True": True, "False": False, "5": 5, "-3": -3, "2.5": 2.5, "IntEnum": _Level.HIGH, "int-subclass-overriding": _Angle(370)}
for sym_op, pyop in (("+", lambda x: +x), ("-", lambda x: -x)):
    for oname, oval in OPERANDS.items():
        node = ast.parse(f"{sym_op}x", mode="eval").body

        def unary_spec(sx, self, inp, oval=oval, pyop=pyop):
            want = pyop(oval)

            def holds(res):
                got = res.fields.get("f_result") if isinstance(res, SObj) and res.kind is _Expr else (res.fields.get("f_value") if isinstance(res, SObj) else None)
                return same_value(got, want)

            return C.Pred(holds, f"the value and type CPython computes: {want!r}")

        c = Case(f"unary:{sym_op}{oname}", [SELF, Built([], (lambda n: lambda env: n)(node), lambda a: "<unary>", lambda a: None)], unary_spec)
        c.native = False
        c.models = NATIVE_TRAITS + [(_Prep.apply, (lambda v: lambda it, self, node: SObj(_Expr, f_result=v, f_bound=[]))(oval)), (_Prep.subcall, _native_subcall)]
        c.interp_flags = {"class_call_models": {OUT.Value: lambda it, args, kw: SObj(OUT.Value, f_value=args[0], f_bound=args[1])}}
        con.cases.append(c)

DISPLAYS = ["{'a': 1, **m}", "{**m, 'a': 1}", "{'a': 1, **m, 'a': 3}", "{**m, **n}", "{'w': 8, **n, **m}", "{**m}", "{}", "{'a': 1, 'b': 2, 'a': 3}"]
DISPLAY_ENV = {"m": {"a": 2, "c": 4}, "n": {"c": 5, "w": 16, "a": 6}}
for src in DISPLAYS:
    node = ast.parse(src, mode="eval").body

    def dict_spec(sx, self, inp, src=src):
        want = eval(src, dict(DISPLAY_ENV))

        def holds(res):
            got = res.fields.get("f_value") if isinstance(res, SObj) and res.kind is OUT.Value else None
            return isinstance(got, dict) and list(got.items()) == list(want.items())

        return C.Pred(holds, f"the dict CPython builds, same insertion order: {want!r}")

    def _apply_sub(it, self, n):
        return SObj(_Expr, f_result=eval(compile(ast.Expression(n), "<display>", "eval"), dict(DISPLAY_ENV)), f_bound=[])

    c = Case(f"dict-display:{src}", [SELF, Built([], (lambda n: lambda env: n)(node), lambda a: "<dict>", lambda a: None)], dict_spec)
    c.native = False
    c.models = [(_Prep.apply, _apply_sub)]
    c.interp_flags = {"class_call_models": {OUT.Value: lambda it, args, kw: SObj(OUT.Value, f_value=args[0], f_bound=args[1])}}
    con.cases.append(c)


# ---- (2) / (3) bounded sweeps against CPython --------------------------------------------------------------------------------
def _cpython_unpack(n_targets, star, source):
    names = [f"t{i}" for i in range(n_targets)]
    lhs = ", ".join(("*" + n) if i == star else n for i, n in enumerate(names)) + ("," if n_targets == 1 else "")
    ns = {"src": list(source)}
    try:
        exec(f"{lhs} = src", ns)
    except ValueError:
        return None
    return [ns[n] for n in names]


def _real_unpack(n_targets, star, source):
    names = [f"t{i}" for i in range(n_targets)]
    lhs = ", ".join(("*" + n) if i == star else n for i, n in enumerate(names)) + ("," if n_targets == 1 else "")
    targets = ast.parse(f"{lhs} = src").body[0].targets[0].elts
    try:
        return PA.PrepareAst._split_target(None, targets, list(source))
    except AssertionError:
        return None


# lambdas whose source the front end has to find again (inspect.getsource gives the whole LINE): one lambda per line,
# a lambda nested in a lambda, two lambdas on one line.  Where the definition is accepted, executing the body the
# front end picked must give what the function object itself gives; an ambiguous line may be rejected.
_single = lambda a, b: a * 10 + b  # noqa: E731
_offset_from = lambda a: (lambda b: a - b)  # noqa: E731
_pair = (lambda x: x + 1, lambda x: x + 2)
_scaled = (lambda k: (lambda x, y=2: x * k + y))(7)


def _lambda_cases():
    return [("single lambda", _single, (3, 4)), ("inner lambda of a nested pair", _offset_from(10), (3,)), ("first of two lambdas on a line", _pair[0], (5,)),
            ("second of two lambdas on a line", _pair[1], (5,)), ("inner lambda with closure and default", _scaled, (3,))]


def _run_definition(fdef, fn, args):
    """execute the body the front end selected for `fn`, with fn's own globals and closure cells"""
    import inspect

    params = ast.parse("def f(" + ", ".join(list(fdef._posonly) + list(fdef._args)) + "): pass").body[0].args
    body = fdef.body()
    body = list(body) if isinstance(body, (list, tuple)) else [ast.Return(value=body)] if isinstance(body, ast.expr) else [body]
    mod = ast.Module(body=[ast.FunctionDef(name="__picked", args=params, body=body, decorator_list=[], returns=None, type_comment=None)], type_ignores=[])
    ast.fix_missing_locations(mod)
    ns = dict(fn.__globals__)
    ns.update(inspect.getclosurevars(fn).nonlocals)
    exec(compile(mod, "<picked definition>", "exec"), ns)
    kw = {k: v for k, v in (fdef._defaults or {}).items()} if hasattr(fdef, "_defaults") else {}
    full = list(args) + [kw[p] for p in (list(fdef._posonly) + list(fdef._args))[len(args):] if p in kw]
    return ns["__picked"](*full)


def _env_arrangements():
    """(where the name lives) for one free name: subsets of {cell, global, builtin}"""
    for where in itertools.product((False, True), repeat=3):
        if any(where):
            yield where


def subset_sweep(tier="quick", seed=0):
    n = 0
    fails = {}
    max_t, max_s = (4, 6) if tier == "quick" else (5, 7)
    for n_targets in range(1, max_t + 1):
        for star in [None] + list(range(n_targets)):
            for length in range(0, max_s + 1):
                source = [f"e{i}" for i in range(length)]
                n += 1
                want, got = _cpython_unpack(n_targets, star, source), _real_unpack(n_targets, star, source)
                if want != got:
                    what = "accepts an unpacking CPython rejects" if want is None else "rejects an unpacking CPython accepts" if got is None else "splits differently"
                    fails.setdefault("unpack: " + what, f"{n_targets} targets, star at {star}, source of {length} elements: CPython {want}, _split_target {got}")
    for label, fn, args in _lambda_cases():
        n += 1
        want = fn(*args)
        try:
            fdef = CAS.FunctionDefinition.from_callable(fn)
        except AssertionError:
            continue  # rejected: allowed
        try:
            got = _run_definition(fdef, fn, args)
        except Exception as e:  # noqa: BLE001
            got = f"raised {type(e).__name__}: {e}"
        if callable(got) or got != want:
            fails.setdefault("lambda source lookup picks another function's body", f"{label}: the function computes {want!r}, the body selected for it gives {got!r}")
    # name resolution: closure cell before module global before builtin
    sb = CAS._ScopeBase.__dict__["_capture_env"]
    for in_cell, in_global, in_builtin in _env_arrangements():
        for builtins_as_dict in (True, False):
            name = "len" if in_builtin else "some_free_name"
            cells = {name: "CELL"} if in_cell else {}
            import builtins as _b

            globs = {"__builtins__": (_b.__dict__ if builtins_as_dict else _b)}
            if in_global:
                globs[name] = "GLOBAL"
            n += 1
            want = "CELL" if in_cell else "GLOBAL" if in_global else len
            try:
                got = sb(None, set(), {name}, globs, cells)[name]
            except Exception as e:  # noqa: BLE001
                got = f"raised {type(e).__name__}"
            if got is not want and got != want:
                fails.setdefault("capture: resolution order differs from LEGB", f"name in cell={in_cell} global={in_global} builtin={in_builtin}: CPython resolves to {want!r}, _capture_env to {got!r}")
    violations = []
    for key, what in sorted(fails.items()):
        oid = f"C10/subset-sweep[{key}]#bounded"
        violations.append({
            "kind": "custom", "qual": "<C10 subset sweep>", "case": key, "oid": oid, "check": "subset_sweep", "key": key,
            "assignment": {"deviation": key}, "solver": {"what": what}, "reproduced": True,
            "replay_payload": {"property": "C10", "custom": "contracts.c10_subset.replay", "key": key, "tier": tier, "obligation": oid, "verifier_output": what},
        })
    return {
        "evaluations": n, "distinct": n, "violations": violations, "samples": [],
        "bounded": [
            {"function": "cohdl._compiler.frontend._prepare_ast:PrepareAst._split_target", "case": "all target shapes x source lengths", "evaluations": n, "exhaustive_within_bound": True,
             "bound": f"<= {max_t} targets, star at any position or absent, sources of 0..{max_s} elements; oracle = the CPython assignment statement"},
            {"function": "cohdl._core._collect_ast_and_scope:_ScopeBase._capture_env", "case": "placements of one free name", "evaluations": 14, "exhaustive_within_bound": True,
             "bound": "one free name present in any non-empty subset of {closure cell, module global, builtins}, __builtins__ as dict or module; oracle = LEGB"},
        ],
    }


def replay(payload):
    r = subset_sweep(payload.get("tier", "quick"), 0)
    hit = [v for v in r["violations"] if v["key"] == payload["key"]]
    return {"reproduced": bool(hit), "detail": hit[0]["solver"] if hit else "agrees with CPython on the whole bound"}
