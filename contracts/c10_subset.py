"""C10: three more pieces of the Python subset, each compared with what CPython does.

(1) zero-argument super() (PrepareAst.apply_impl, ast.Call branch), proved from the real source:
    CPython binds super() to the `__class__` CELL of the method being compiled -- the class the method is
    DEFINED in -- and to its first argument, not to type(self).  Contract: the produced value is
    super(<class cell>, <first argument>) for a method of a middle class running on an instance of a subclass.
(2) PrepareAst._split_target (iterable unpacking with an optional starred target): bounded exhaustive sweep of
    the real function against the CPython assignment statement itself (<= 5 targets, star anywhere, sources
    of 0..7 elements): same split, and a rejection exactly where CPython raises ValueError.
(3) _ScopeBase._capture_env (name resolution of a captured function): bounded exhaustive sweep against a real
    closure: for every placement of a name among {closure cell, module global, builtin} the captured value is
    the one CPython's LEGB rule gives.
(2) and (3) are bounded native checks (labelled so in the evidence), (1) is a discharged obligation.
"""

from __future__ import annotations

import ast
import itertools

from cohdl._compiler.frontend import _prepare_ast as PA
from cohdl._compiler.frontend import _prepare_ast_out as OUT
from cohdl._core import _collect_ast_and_scope as CAS

from pyvc import contracts as C
from pyvc import interp as I
from pyvc.contracts import Case, contract
from pyvc.values import SObj
from contracts.c05_format_cast import Built
from contracts.c02_frontend import _Expr, _Prep
from contracts import c10_frontend as _F  # noqa: F401  (defines the _Prep.apply stand-in)

PROPS = ("C10",)


# ---- (1) super() -----------------------------------------------------------------------------------------------------------
class _Base:
    def m(self):
        return "base"


class _Mid(_Base):
    def m(self):
        return "mid"


class _Leaf(_Mid):
    def m(self):
        return "leaf"


_Prep.lookup_name = lambda self, name: None
_Prep.super_arg = lambda self: None
I.register_model(_Prep.lookup_name, lambda it, self, name: it.scope[name])
I.register_model(_Prep.super_arg, lambda it, self: it.first_arg)


def super_spec(sx, self, inp):
    it = sx.it

    def holds(res):
        if not (isinstance(res, SObj) and res.kind is OUT.Value):
            return False
        v = res.fields["f_value"]
        return isinstance(v, super) and v.__thisclass__ is it.scope["__class__"] and v.__self__ is it.first_arg and v.m() == "base"

    return C.Pred(holds, "super(__class__ cell, first argument): resolves to the class AFTER the defining class in the MRO of the instance")


con = contract("cohdl._compiler.frontend._prepare_ast:PrepareAst.apply_impl", PROPS)
SELF = Built([], lambda env: SObj(_Prep, _last_apply_inp=None, _context=None), lambda a: "<self>", lambda a: None)
INP = Built([], lambda env: ast.parse("super()", mode="eval").body, lambda a: "<super()>", lambda a: None)
c = Case("super():method-of-middle-class,instance-of-subclass", [SELF, INP], super_spec)
c.native = False
c.models = [(_Prep.apply, lambda it, self, node: SObj(_Expr, f_result=super)), (PA._is_intrinsic, lambda it, x: False), (PA._is_expr_function, lambda it, x: False)]
c.interp_flags = {"class_call_models": {OUT.Value: lambda it, args, kw: SObj(OUT.Value, f_value=args[0], f_bound=args[1])}}


def _setup(it, ctx, args, env):
    it.first_arg = _Leaf()
    it.scope = {"__class__": _Mid}


c.setup = _setup
con.cases.append(c)


# ---- (4) unary + / - on compile-time values, (5) dict displays with ** entries: the real branch against CPython itself -----------
import enum  # noqa: E402

from cohdl._compiler.frontend._value_branch import ObjTraits  # noqa: E402


class _Level(enum.IntEnum):
    LOW = 1
    HIGH = 2


class _Angle(int):
    def __pos__(self):
        return _Angle(int(self) % 360)

    def __neg__(self):
        return _Angle((-int(self)) % 360)


def _static(cls, name):
    r = cls.__dict__[name]
    return r.__func__ if isinstance(r, (staticmethod, classmethod)) else r


NATIVE_TRAITS = [
    (_static(ObjTraits, "gettype"), lambda it, x: type(x)),
    (_static(ObjTraits, "hasattr"), lambda it, t, name: hasattr(t, name)),
    (_static(ObjTraits, "getattr"), lambda it, t, name: getattr(t, name)),
    (_static(ObjTraits, "get"), lambda it, x: x),
]


def _native_subcall(it, self, fn, args, kwargs, noreturn=None):
    return SObj(_Expr, f_result=fn(*args, **kwargs), f_bound=[])


def same_value(a, b):
    return type(a) is type(b) and a == b


OPERANDS = {"True": True, "False": False, "5": 5, "-3": -3, "2.5": 2.5, "IntEnum": _Level.HIGH, "int-subclass-overriding": _Angle(370)}
for sym_op, pyop in (("+", lambda x: +x), ("-", lambda x: -x)):
    for oname, oval in OPERANDS.items():
        node = ast.parse(f"{sym_op}x", mode="eval").body

        def unary_spec(sx, self, inp, oval=oval, pyop=pyop):
            want = pyop(oval)

            def holds(res):
                got = res.fields.get("f_result") if isinstance(res, SObj) and res.kind is _Expr else (res.fields.get("f_value") if isinstance(res, SObj) else None)
                return same_value(got, want)

            return C.Pred(holds, f"the value and type CPython computes: {want!r}")

        c = Case(f"unary:{sym_op}{oname}", [SELF, Built([], (lambda n: lambda env: n)(node), lambda a: "<unary>", lambda a: None)], unary_spec)
        c.native = False
        c.models = NATIVE_TRAITS + [(_Prep.apply, (lambda v: lambda it, self, node: SObj(_Expr, f_result=v, f_bound=[]))(oval)), (_Prep.subcall, _native_subcall)]
        c.interp_flags = {"class_call_models": {OUT.Value: lambda it, args, kw: SObj(OUT.Value, f_value=args[0], f_bound=args[1])}}
        con.cases.append(c)

DISPLAYS = ["{'a': 1, **m}", "{**m, 'a': 1}", "{'a': 1, **m, 'a': 3}", "{**m, **n}", "{'w': 8, **n, **m}", "{**m}", "{}", "{'a': 1, 'b': 2, 'a': 3}"]
DISPLAY_ENV = {"m": {"a": 2, "c": 4}, "n": {"c": 5, "w": 16, "a": 6}}
for src in DISPLAYS:
    node = ast.parse(src, mode="eval").body

    def dict_spec(sx, self, inp, src=src):
        want = eval(src, dict(DISPLAY_ENV))

        def holds(res):
            got = res.fields.get("f_value") if isinstance(res, SObj) and res.kind is OUT.Value else None
            return isinstance(got, dict) and list(got.items()) == list(want.items())

        return C.Pred(holds, f"the dict CPython builds, same insertion order: {want!r}")

    def _apply_sub(it, self, n):
        return SObj(_Expr, f_result=eval(compile(ast.Expression(n), "<display>", "eval"), dict(DISPLAY_ENV)), f_bound=[])

    c = Case(f"dict-display:{src}", [SELF, Built([], (lambda n: lambda env: n)(node), lambda a: "<dict>", lambda a: None)], dict_spec)
    c.native = False
    c.models = [(_Prep.apply, _apply_sub)]
    c.interp_flags = {"class_call_models": {OUT.Value: lambda it, args, kw: SObj(OUT.Value, f_value=args[0], f_bound=args[1])}}
    con.cases.append(c)


# ---- (6) keyword collection of a call (apply_impl, ast.Call branch / convert_call): the real branch against CPython itself ------
# "Calls that CPython rejects for argument-binding reasons are rejected too": a keyword given twice (explicitly and through
# a ** mapping, or through two ** mappings) and a non-string key of a ** mapping are binding errors in CPython (TypeError).
I.register_inline(OUT.Expression.__dict__["result"])
I.register_inline(OUT.Statement.__dict__["bound_statements"])


def _kwfn(*args, **kwargs):
    return (args, kwargs)


CALLS = ["f(a=1, **m)", "f(**m, z=1)", "f(1, *t, b=2, **m)", "f(**m, **n)", "f(a=1, **{'a': 2})", "f(**{'a': 1}, **{'a': 2})", "f(**m, c=9)", "f(**{1: 2})", "f(*t, **{})", "f()"]
CALL_ENV = {"f": _kwfn, "m": {"b2": 2, "c": 4}, "n": {"d": 5, "w": 16}, "t": (7, 8)}
for src in CALLS:
    node = ast.parse(src, mode="eval").body
    try:
        _want = ("value", eval(src, dict(CALL_ENV)))
    except TypeError as e:
        _want = ("raises", str(e))

    def call_spec(sx, self, inp, src=src, want=_want):
        if want[0] == "raises":
            sx.reject(AssertionError)  # CPython rejects this call (TypeError): it must be rejected

        def holds(res):
            got = res.fields.get("f_result") if isinstance(res, SObj) and res.kind is _Expr else None
            return isinstance(got, tuple) and got[0] == want[1][0] and list(got[1].items()) == list(want[1][1].items())

        return C.Pred(holds, f"the arguments CPython passes: {want[1]!r}")

    def _apply_call_sub(it, self, n):
        if isinstance(n, ast.Starred):
            return SObj(OUT.StarredValue, _result=list(eval(compile(ast.Expression(n.value), "<call>", "eval"), dict(CALL_ENV))), _bound_statements=[])
        return SObj(_Expr, f_result=eval(compile(ast.Expression(n), "<call>", "eval"), dict(CALL_ENV)), f_bound=[], _bound_statements=[])

    def _call_subcall(it, self, fn, args, kwargs, noreturn=None):
        # the callee is `_kwfn`, which returns what it was bound to; binding itself (FunctionDefinition.bind_args) is the
        # subject of c10_bind.bind_sweep, so the collected arguments are returned as they are
        assert fn is _kwfn
        return SObj(_Expr, f_result=(tuple(args), dict(kwargs)), f_bound=[], _bound_statements=[])

    c = Case(f"call-keywords:{src}", [SELF, Built([], (lambda n: lambda env: n)(node), lambda a: "<call>", lambda a: None)], call_spec)
    c.native = False
    c.models = [(_Prep.apply, _apply_call_sub), (_Prep.subcall, _call_subcall), (PA._is_intrinsic, lambda it, x: False), (PA._is_expr_function, lambda it, x: False)]
    c.interp_flags = {"class_call_models": {OUT.Value: lambda it, args, kw: SObj(OUT.Value, _result=args[0], _bound_statements=args[1])}}
    con.cases.append(c)


# ---- (7) default values of local functions and lambdas (apply_impl, ast.FunctionDef / ast.Lambda branches) -------------------------
# CPython evaluates each default expression once, at definition time, and binds the resulting VALUE to the parameter.
class _FnDefStub:
    def location(self):
        return None


class _LocStub:
    def relative(self, n):
        return None


class _FDefStub:
    """stands for the FunctionDefinition built by from_ast_fn: the converted defaults are what bind_args later binds"""


_Prep.set_local = lambda self, name, value: None
I.register_model(_FnDefStub.location, lambda it, self: SObj(_LocStub, line=10, function=None))
I.register_model(_LocStub.relative, lambda it, self, n: SObj(_LocStub, line=10 + n, function=None))


def _set_local(it, self, name, value):
    it.declared[name] = value
    return None


I.register_model(_Prep.set_local, _set_local)


def _from_ast_fn(it, fn_def, name, global_dict=None, nonlocal_dict=None, self_arg=None, default_converter=None, captured_defaults=None, location=None, add_self_to_nonlocal=False):
    # what the real from_ast_fn does with the defaults when captured_defaults is None (l.268-282): convert each default
    # node once, positional defaults first, keyed by parameter name
    a = fn_def.args
    names = [p.arg for p in a.posonlyargs + a.args]
    pos = names[len(names) - len(a.defaults):] if a.defaults else []
    defaults = {n: it.call(default_converter, [d], {}, None) for n, d in zip(pos, a.defaults)}
    kwdefaults = {p.arg: it.call(default_converter, [d], {}, None) for p, d in zip(a.kwonlyargs, a.kw_defaults) if d is not None}
    return SObj(_FDefStub, name=name, defaults=defaults, kwdefaults=kwdefaults)


DEFS = ["def g(a=5, *, b=7): pass", "def g(p, q=(1, 2), /, r='s', *, k, kd=None): pass", "def g(): pass", "lambda a, b=3, *, c=[4]: a", "lambda: 0"]
for src in DEFS:
    is_lambda = src.startswith("lambda")
    node = ast.parse(src, mode="eval").body if is_lambda else ast.parse(src).body[0]
    _ref = eval(src) if is_lambda else None
    if not is_lambda:
        _ns = {}
        exec(src, _ns)
        _ref = _ns["g"]
    _pnames = list(_ref.__code__.co_varnames[: _ref.__code__.co_argcount])
    _want_defaults = dict(zip(_pnames[len(_pnames) - len(_ref.__defaults__ or ()):], _ref.__defaults__ or ()))
    _want_kw = dict(_ref.__kwdefaults__ or {})

    def defaults_spec(sx, self, inp, is_lambda=is_lambda, wd=_want_defaults, wk=_want_kw):
        it = sx.it

        def holds(res):
            if is_lambda:
                fdef = res.fields.get("_result") if isinstance(res, SObj) and res.kind is OUT.Value else None
            else:
                fdef = it.declared.get("g")
            if not (isinstance(fdef, SObj) and fdef.kind is _FDefStub):
                return False
            got_d, got_k = fdef.fields["defaults"], fdef.fields["kwdefaults"]
            return list(got_d.items()) == list(wd.items()) and list(got_k.items()) == list(wk.items()) and all(type(got_d[k]) is type(wd[k]) for k in wd) and all(type(got_k[k]) is type(wk[k]) for k in wk)

        return C.Pred(holds, f"the function is declared with the default VALUES CPython binds: {wd!r} / {wk!r}")

    def _apply_default(it, self, n):
        return SObj(_Expr, f_result=ast.literal_eval(n), f_bound=[], _bound_statements=[])

    def _def_setup(it, ctx, args, env):
        it.declared = {}

    c = Case(f"defaults:{src}", [Built([], lambda env: SObj(_Prep, _last_apply_inp=None, _context=None, _fn_def=_FnDefStub(), _scope={}), lambda a: "<self>", lambda a: None), Built([], (lambda n: lambda env: n)(node), lambda a: "<def>", lambda a: None)], defaults_spec)
    c.native = False
    c.setup = _def_setup
    c.models = [(_Prep.apply, _apply_default), (_static(CAS.FunctionDefinition, "from_ast_fn"), _from_ast_fn)]
    c.interp_flags = {"class_call_models": {OUT.Value: lambda it, args, kw: SObj(OUT.Value, _result=args[0], _bound_statements=kw.get("bound_statements", args[1] if len(args) > 1 else [])),
                                            OUT.CodeBlock: lambda it, args, kw: SObj(OUT.CodeBlock, _content=args[0])}}
    con.cases.append(c)


# ---- (8) constructor emulation: the __init__ that runs is the one of the object __new__ RETURNED -----------------------------------
# type.__call__: obj = cls.__new__(cls, ...); if isinstance(obj, cls): type(obj).__init__(obj, ...) -- a __new__ that returns an
# instance of a subclass gets the subclass's __init__.
class _PBase:
    def __new__(cls, a):
        return object.__new__(_QSub)

    def __init__(self, a):
        self.who = "base"


class _QSub(_PBase):
    def __init__(self, a):
        self.who = "sub"


def ctor_spec(sx, self, inp):
    it = sx.it

    def holds(res):
        calls = it.subcalls
        if len(calls) != 2 or calls[0][0] is not _PBase.__new__ or calls[0][1] != [_PBase, 1]:
            return False
        init_fn, init_args = calls[1]
        return init_fn is _QSub.__init__ and len(init_args) == 2 and isinstance(init_args[0], _QSub) and init_args[1] == 1

    return C.Pred(holds, "__new__(cls, 1), then type(new object).__init__(new object, 1)")


def _ctor_subcall(it, self, fn, args, kwargs, noreturn=None):
    it.subcalls.append((fn, list(args)))
    if fn is _PBase.__new__:
        return SObj(_Expr, f_result=object.__new__(_QSub), f_bound=[], _bound_statements=[])
    return SObj(OUT.Value, _result=None, _bound_statements=[])


def _ctor_apply(it, self, n):
    return SObj(_Expr, f_result=_PBase if isinstance(n, ast.Name) else n.value, f_bound=[], _bound_statements=[])


c = Case("constructor:__new__-returns-instance-of-subclass", [SELF, Built([], lambda env: ast.parse("K(1)", mode="eval").body, lambda a: "<K(1)>", lambda a: None)], ctor_spec)
c.native = False
c.models = [(_Prep.apply, _ctor_apply), (_Prep.subcall, _ctor_subcall), (PA._is_intrinsic, lambda it, x: False), (PA._is_expr_function, lambda it, x: False)]
c.interp_flags = {"class_call_models": {OUT.Value: lambda it, args, kw: SObj(OUT.Value, _result=args[0], _bound_statements=args[1]),
                                        OUT.Call: lambda it, args, kw: SObj(OUT.Call, f_code=args[0]), OUT.CodeBlock: lambda it, args, kw: SObj(OUT.CodeBlock, f_list=list(args[0])),
                                        OUT.Return: lambda it, args, kw: SObj(OUT.Return, f_value=args[0])}}


def _ctor_setup(it, ctx, args, env):
    it.subcalls = []


c.setup = _ctor_setup
con.cases.append(c)

for _c in con.cases:
    if _c.name.startswith("call-keywords:"):
        _c.custom_replay = "contracts.c10_subset.replay_call_keywords"
    elif _c.name.startswith("defaults:"):
        _c.custom_replay = "contracts.c10_subset.replay_local_defaults"

_PROBE = '''
import cohdl
from cohdl import std

seen = {}

@cohdl.pyeval
def record(name, value):
    seen[name] = value

def compare(name, fn):
    class Probe(cohdl.Entity):
        def architecture(self):
            @std.concurrent
            def logic():
                record(name, fn())
    try:
        std.VhdlCompiler.to_string(Probe)
        got = ("value", seen.get(name))
    except BaseException as err:
        got = ("rejected", type(err).__name__)
    try:
        ref = ("value", fn())
    except BaseException as err:
        ref = ("raises", type(err).__name__)
    print("SAME" if (got == ref or got[0] == "rejected") else "DEVIATES", name, "compiled:", got, "CPython:", ref)

def kw(*args, **kwargs):
    return (args, kwargs)

m = {"b2": 2, "c": 4}
'''

_CALL_PROGRAMS = _PROBE + '''
def p1(): return kw(a=1, **{"a": 2})
def p2(): return kw(**{"a": 1}, **{"a": 2})
def p3(): return kw(**m, c=9)
def p4(): return kw(**{1: 2})

class K:
    def __new__(cls, a, b=2): return object.__new__(cls)
    def __init__(self, a, b=2):
        self.a = a
        self.b = b

def p5():
    k = K(1, b=5)
    return (k.a, k.b)

for i, p in enumerate((p1, p2, p3, p4, p5)):
    compare(f"program-{i + 1}", p)
'''

_DEFAULT_PROGRAMS = _PROBE + '''
def p1():
    def g(a=5, *, b=7):
        return [a, b]
    r = g()
    return [type(r[0]).__name__, type(r[1]).__name__]

def p2():
    g = lambda a, b=3, *, c=(4,): (a, b, c)
    r = g(1)
    return [type(x).__name__ for x in r]

for i, p in enumerate((p1, p2)):
    compare(f"program-{i + 1}", p)
'''


def replay_call_keywords(payload):
    from contracts.c06_extra import _run_design

    rc, out = _run_design(_CALL_PROGRAMS)
    return {"reproduced": rc == 0 and "DEVIATES" in out, "detail": "\n".join(l for l in out.splitlines() if l.startswith(("DEVIATES", "SAME")))[-900:]}


def replay_local_defaults(payload):
    from contracts.c06_extra import _run_design

    rc, out = _run_design(_DEFAULT_PROGRAMS)
    return {"reproduced": rc == 0 and "DEVIATES" in out, "detail": "\n".join(l for l in out.splitlines() if l.startswith(("DEVIATES", "SAME")))[-900:]}


# ---- (2) / (3) bounded sweeps against CPython --------------------------------------------------------------------------------
def _cpython_unpack(n_targets, star, source):
    names = [f"t{i}" for i in range(n_targets)]
    lhs = ", ".join(("*" + n) if i == star else n for i, n in enumerate(names)) + ("," if n_targets == 1 else "")
    ns = {"src": source}
    try:
        exec(f"{lhs} = src", ns)
    except ValueError:
        return None
    return [ns[n] for n in names]


def _real_unpack(n_targets, star, source):
    names = [f"t{i}" for i in range(n_targets)]
    lhs = ", ".join(("*" + n) if i == star else n for i, n in enumerate(names)) + ("," if n_targets == 1 else "")
    targets = ast.parse(f"{lhs} = src").body[0].targets[0].elts
    try:
        return PA.PrepareAst._split_target(None, targets, source)
    except AssertionError:
        return None


# lambdas whose source the front end has to find again (inspect.getsource gives the whole LINE): one lambda per line,
# a lambda nested in a lambda, two lambdas on one line.  Where the definition is accepted, executing the body the
# front end picked must give what the function object itself gives; an ambiguous line may be rejected.
_single = lambda a, b: a * 10 + b  # noqa: E731
_offset_from = lambda a: (lambda b: a - b)  # noqa: E731
_pair = (lambda x: x + 1, lambda x: x + 2)
_scaled = (lambda k: (lambda x, y=2: x * k + y))(7)


def _tripled(f):
    import functools

    @functools.wraps(f)
    def wrapper(a, scale=3):
        return scale * f(a)

    return wrapper


@_tripled
def _incr(a, scale=100):  # the wrapper's OWN default (3) applies to a call of the decorated function, not this one
    return a + 1


def _lambda_cases():
    # the last case: a closure produced by a functools.wraps decorator carries __wrapped__; the function that is CALLED is
    # the wrapper, so the wrapper's body is the one to compile (inspect.getsource(function) follows __wrapped__)
    return [("single lambda", _single, (3, 4)), ("inner lambda of a nested pair", _offset_from(10), (3,)), ("first of two lambdas on a line", _pair[0], (5,)),
            ("second of two lambdas on a line", _pair[1], (5,)), ("inner lambda with closure and default", _scaled, (3,)),
            ("closure returned by a functools.wraps decorator", _incr, (4,))]


def _run_definition(fdef, fn, args):
    """execute the body the front end selected for `fn`, with fn's own globals and closure cells"""
    import inspect

    params = ast.parse("def f(" + ", ".join(list(fdef._posonly) + list(fdef._args)) + "): pass").body[0].args
    body = fdef.body()
    body = list(body) if isinstance(body, (list, tuple)) else [ast.Return(value=body)] if isinstance(body, ast.expr) else [body]
    mod = ast.Module(body=[ast.FunctionDef(name="__picked", args=params, body=body, decorator_list=[], returns=None, type_comment=None)], type_ignores=[])
    ast.fix_missing_locations(mod)
    ns = dict(fn.__globals__)
    ns.update(inspect.getclosurevars(fn).nonlocals)
    exec(compile(mod, "<picked definition>", "exec"), ns)
    kw = {k: v for k, v in (fdef._defaults or {}).items()} if hasattr(fdef, "_defaults") else {}
    full = list(args) + [kw[p] for p in (list(fdef._posonly) + list(fdef._args))[len(args):] if p in kw]
    return ns["__picked"](*full)


def _env_arrangements():
    """(where the name lives) for one free name: subsets of {cell, global, builtin}"""
    for where in itertools.product((False, True), repeat=3):
        if any(where):
            yield where


def subset_sweep(tier="quick", seed=0):
    n = 0
    fails = {}
    max_t, max_s = (4, 6) if tier == "quick" else (5, 7)
    for n_targets in range(1, max_t + 1):
        for star in [None] + list(range(n_targets)):
            for length in range(0, max_s + 1):
                for kind in (list, tuple):  # the starred target is bound to a LIST whatever the source sequence is
                    source = kind(f"e{i}" for i in range(length))
                    n += 1
                    want, got = _cpython_unpack(n_targets, star, source), _real_unpack(n_targets, star, source)
                    if want is not None and got is not None:
                        want, got = list(want), list(got)
                    if want != got:
                        what = "accepts an unpacking CPython rejects" if want is None else "rejects an unpacking CPython accepts" if got is None else "splits differently"
                        fails.setdefault("unpack: " + what, f"{n_targets} targets, star at {star}, {kind.__name__} source of {length} elements: CPython {want}, _split_target {got}")
    # loop / comprehension / with targets (PrepareAst.Target.unpack): the binding CPython's `for <target> in [item]` produces,
    # or a rejection -- never a silent truncation of an item that is longer or shorter than the target
    class _Conv:
        def __init__(self):
            self.bound = {}

        def bound_names(self):
            return set()

        def set_local(self, name, value):
            self.bound[name] = value

    items = [1, (1, 2), (1, 2, 3), ((1, 2), 3), (1, (2, 3)), (1, (2, 3, 4)), ((1, 2, 3), 4), [1, 2], "xy", (1,), (), ((1, 2), (3, 4)), (1, 2, 3, 4)]
    for target_src in ("a", "a, b", "(a, b), c", "a, (b, c)", "a, b, c", "(a, b), (c, d)"):
        target_node = ast.parse(f"for {target_src} in x: pass").body[0].target
        for item in items:
            n += 1
            ns = {"x": [item]}
            try:
                exec(f"for {target_src} in x: pass", ns)
                want = {k: v for k, v in ns.items() if k in "abcd"}
            except (ValueError, TypeError):
                want = None
            conv = _Conv()
            try:
                PA.PrepareAst.Target(target_node, conv).unpack(item)
                got = dict(conv.bound)
            except Exception:  # noqa: BLE001  (a rejection is allowed)
                got = None
            if got is not None and got != want:
                what = "accepts an item CPython cannot unpack into the target" if want is None else "binds differently"
                fails.setdefault("loop target: " + what, f"`for {target_src} in [{item!r}]`: CPython {want}, Target.unpack binds {got}")
    for label, fn, args in _lambda_cases():
        n += 1
        want = fn(*args)
        try:
            fdef = CAS.FunctionDefinition.from_callable(fn)
        except AssertionError:
            continue  # rejected: allowed
        try:
            got = _run_definition(fdef, fn, args)
        except Exception as e:  # noqa: BLE001
            got = f"raised {type(e).__name__}: {e}"
        if callable(got) or got != want:
            fails.setdefault("definition lookup follows __wrapped__ to another function's body" if "wraps" in label else "lambda source lookup picks another function's body", f"{label}: the function computes {want!r}, the body selected for it gives {got!r}")
    # name resolution: closure cell before module global before builtin
    sb = CAS._ScopeBase.__dict__["_capture_env"]
    for in_cell, in_global, in_builtin in _env_arrangements():
        for builtins_as_dict in (True, False):
            name = "len" if in_builtin else "some_free_name"
            cells = {name: "CELL"} if in_cell else {}
            import builtins as _b

            globs = {"__builtins__": (_b.__dict__ if builtins_as_dict else _b)}
            if in_global:
                globs[name] = "GLOBAL"
            n += 1
            want = "CELL" if in_cell else "GLOBAL" if in_global else len
            try:
                got = sb(None, set(), {name}, globs, cells)[name]
            except Exception as e:  # noqa: BLE001
                got = f"raised {type(e).__name__}"
            if got is not want and got != want:
                fails.setdefault("capture: resolution order differs from LEGB", f"name in cell={in_cell} global={in_global} builtin={in_builtin}: CPython resolves to {want!r}, _capture_env to {got!r}")
    violations = []
    for key, what in sorted(fails.items()):
        oid = f"C10/subset-sweep[{key}]#bounded"
        violations.append({
            "kind": "custom", "qual": "<C10 subset sweep>", "case": key, "oid": oid, "check": "subset_sweep", "key": key,
            "assignment": {"deviation": key}, "solver": {"what": what}, "reproduced": True,
            "replay_payload": {"property": "C10", "custom": "contracts.c10_subset.replay", "key": key, "tier": tier, "obligation": oid, "verifier_output": what},
        })
    return {
        "evaluations": n, "distinct": n, "violations": violations, "samples": [],
        "bounded": [
            {"function": "cohdl._compiler.frontend._prepare_ast:PrepareAst._split_target", "case": "all target shapes x source lengths", "evaluations": n, "exhaustive_within_bound": True,
             "bound": f"<= {max_t} targets, star at any position or absent, sources of 0..{max_s} elements; oracle = the CPython assignment statement"},
            {"function": "cohdl._core._collect_ast_and_scope:_ScopeBase._capture_env", "case": "placements of one free name", "evaluations": 14, "exhaustive_within_bound": True,
             "bound": "one free name present in any non-empty subset of {closure cell, module global, builtins}, __builtins__ as dict or module; oracle = LEGB"},
        ],
    }


def replay(payload):
    r = subset_sweep(payload.get("tier", "quick"), 0)
    hit = [v for v in r["violations"] if v["key"] == payload["key"]]
    return {"reproduced": bool(hit), "detail": hit[0]["solver"] if hit else "agrees with CPython on the whole bound"}


# ---- (9) tuple and list displays with starred elements (`(*x, 3)`, `[1, *x, *y]`): the sequence CPython builds ------------------
SEQ_DISPLAYS = ["(*x, 3)", "(1, *x)", "(*x, *y)", "(0, *x, 9, *y)", "(*x,)", "(1, 2)", "()", "[*x, 3]", "[1, *x, *y]", "[*x]", "[]"]
SEQ_ENV = {"x": (10, 20), "y": [30]}
for src in SEQ_DISPLAYS:
    node = ast.parse(src, mode="eval").body

    def seq_spec(sx, self, inp, src=src):
        want = eval(src, dict(SEQ_ENV))

        def holds(res):
            got = res.fields.get("f_value") if isinstance(res, SObj) and res.kind is OUT.Value else None
            return type(got) is type(want) and got == want

        return C.Pred(holds, f"the sequence CPython builds: {want!r}")

    def _apply_elt(it, self, n):
        if isinstance(n, ast.Starred):
            return SObj(OUT.StarredValue, f_result=eval(compile(ast.Expression(n.value), "<display>", "eval"), dict(SEQ_ENV)), f_bound=[])
        return SObj(_Expr, f_result=eval(compile(ast.Expression(n), "<display>", "eval"), dict(SEQ_ENV)), f_bound=[])

    c = Case(f"sequence-display:{src}", [SELF, Built([], (lambda n: lambda env: n)(node), lambda a: "<display>", lambda a: None)], seq_spec)
    c.native = False
    c.models = [(_Prep.apply, _apply_elt), (OUT.Expression.__dict__["result"], lambda it, self: self.fields["f_result"]), (OUT.Statement.__dict__["bound_statements"], lambda it, self: self.fields["f_bound"])]
    c.interp_flags = {"class_call_models": {OUT.Value: lambda it, args, kw: SObj(OUT.Value, f_value=args[0], f_bound=args[1])}}
    con.cases.append(c)


_STARRED_TUPLE_PROGRAM = '''
import cohdl
from cohdl import std, Entity, Port, Bit
recorded = []
@cohdl.pyeval
def record(v):
    recorded.append(v)
def prog():
    x = (10, 20)
    assert len((*x, 3)) == 2      # CPython: the tuple has 3 elements, this assertion FAILS
    return "accepted"
class Demo(Entity):
    a = Port.input(Bit)
    b = Port.output(Bit)
    def architecture(self):
        @std.concurrent
        def logic():
            record(prog())
            self.b <<= self.a
try:
    std.VhdlCompiler.to_string(Demo)
    print("VALUE", recorded[0])
except BaseException as e:
    print("REJECTED", type(e).__name__)
'''


def replay_starred_tuple(payload):
    from contracts.c06_extra import _run_design

    rc, out = _run_design(_STARRED_TUPLE_PROGRAM)
    return {"reproduced": "VALUE accepted" in out, "detail": "`assert len((*x, 3)) == 2` with x = (10, 20) (fails in CPython) inside a function evaluated during compilation: " + out[-80:]}


for _c in con.cases:
    if _c.name.startswith("sequence-display:("):
        _c.custom_replay = "contracts.c10_subset.replay_starred_tuple"


# ---- (10) subscript of a CLASS (`C[8]`): CPython asks the METACLASS for __getitem__ first and falls back to __class_getitem__ -------
class _MetaSub(type):
    def __getitem__(cls, item):
        return ("metaclass.__getitem__", cls.__name__, item)


class _Both(metaclass=_MetaSub):
    def __class_getitem__(cls, item):
        return ("__class_getitem__", cls.__name__, item)


class _OnlyMeta(metaclass=_MetaSub):
    pass


class _OnlyClassGetitem:
    def __class_getitem__(cls, item):
        return ("__class_getitem__", cls.__name__, item)


class _Neither:
    pass


SUBSCRIPT_NODE = ast.parse("K[8]", mode="eval").body


def class_subscript_spec(K):
    def spec(sx, self, inp):
        try:
            want = K[8]
        except TypeError:
            sx.reject(AssertionError)

        def holds(res):
            return isinstance(res, SObj) and res.kind is _Expr and res.fields.get("f_result") == want

        return C.Pred(holds, f"the value CPython computes for {K.__name__}[8]")

    return spec


for K in (_Both, _OnlyMeta, _OnlyClassGetitem, _Neither):
    def _apply_sub_k(it, self, n, K=K):
        if isinstance(n, ast.Name):
            return SObj(_Expr, f_result=K, f_bound=[])
        return SObj(_Expr, f_result=n.value, f_bound=[])

    c = Case(f"class-subscript:{K.__name__}", [SELF, Built([], lambda env: SUBSCRIPT_NODE, lambda a: "<K[8]>", lambda a: None)], class_subscript_spec(K))
    c.native = False

    def _subcall_k(it, self, fn, args, kwargs, noreturn=None):
        if hasattr(fn, "self_obj") and hasattr(fn, "fn"):  # a method the interpreter bound to the class (classmethod __class_getitem__)
            return SObj(_Expr, f_result=fn.fn(fn.self_obj, *args, **kwargs), f_bound=[])
        return SObj(_Expr, f_result=fn(*args, **kwargs), f_bound=[])

    c.models = NATIVE_TRAITS + [(_Prep.apply, _apply_sub_k), (_Prep.subcall, _subcall_k)]
    # the branch may wrap the selection in a Value that carries the operands' statements in front of it (c03_subscript)
    c.interp_flags = {"class_call_models": {OUT.Value: lambda it, args, kw: SObj(_Expr, f_result=args[0], f_bound=list(args[1]))}}
    con.cases.append(c)
