"""C07 / C08 / C04: per-class completeness of IR `visit_objects`.

The driver check (C07), the temporaries analysis and the cleanup passes (C08)
and the reset / push expansion (C04) see a design only through
`stmt.visit_objects(operation)`.  Their contracts assume that every IR
statement reports every hardware object it reads or writes, with the access
kind of its role, and stores what `operation` returns in place of the object.

This module DECIDES that assumption class by class, mechanically and
exhaustively over the source: every class of cohdl/_core/_ir/_repr.py that
defines visit_objects is instantiated by its REAL constructor with distinct
marker objects in every object-carrying position (role table below: operands /
sources / conditions are READ, results / targets WRITE, a pushed target PUSH),
the REAL visit_objects is executed with a recording operation that returns a
replacement, and
   (report)   the multiset of (object, access) reported equals the role table,
              nested statements included;
   (replace)  a second visit reports the REPLACEMENTS in the same roles
              (the first visit stored them).
visit_objects bodies are straight-line over the object's fields (list-valued
operands: lengths 0-2 enumerated), so one execution per shape is complete.
A class that appears in the file but not in the role table makes the check
fail (nothing is silently skipped).
"""

from __future__ import annotations

import ast
import os

from pyvc import REPO

FILE = "cohdl/_core/_ir/_repr.py"


class M:
    """marker object"""

    def __init__(self, name):
        self.name = name

    def __repr__(self):
        return f"<{self.name}>"


class Repl:
    def __init__(self, of):
        self.of = of

    def __repr__(self):
        return f"Repl({self.of!r})"


def classes_with_visit_objects():
    with open(os.path.join(REPO, FILE)) as f:
        tree = ast.parse(f.read())
    return [c.name for c in tree.body if isinstance(c, ast.ClassDef) and any(isinstance(f_, ast.FunctionDef) and f_.name == "visit_objects" for f_ in c.body)]


def shapes():
    """class name -> list of (shape name, builder() -> (instance, expected [(marker, flag name)]))"""
    from cohdl._core._ir import _repr as ir
    from cohdl._core import _intrinsic_operations as intr_op
    from cohdl._core._inline import InlineCode as IC

    R, W, P = "READ", "WRITE", "PUSH"

    def leaf(tag):
        """a child statement with its own objects: Boolean(arg R, result W)"""
        a, r = M(tag + ".arg"), M(tag + ".result")
        return ir.Boolean(a, r), [(a, R), (r, W)]

    def block(tag, n=1):
        stmts, exp = [], []
        for i in range(n):
            s, e = leaf(f"{tag}{i}")
            stmts.append(s)
            exp += e
        return ir.CodeBlock(stmts, None), exp

    out = {}

    def add(cls, name, builder):
        out.setdefault(cls, []).append((name, builder))

    def expr(cls, ctor, operands):
        # generic expression: operands READ, result WRITE
        def b():
            ms = [M(f"{cls}.{n}") for n in operands]
            res = M(f"{cls}.result")
            return ctor(ms, res), [(m, R) for m in ms] + [(res, W)]

        add(cls, "plain", b)

    expr("Compare", lambda ms, r: ir.Compare(ir.Compare.Operator.EQ, ms[0], ms[1], r), ["lhs", "rhs"])
    def b_unary():
        from cohdl import Bit

        a, r = Bit(0), Bit(1)  # the constructor insists on primitive operands; identity is what is compared
        return ir.UnaryOp(ir.UnaryOp.Operator.INV, a, r), [(a, R), (r, W)]

    add("UnaryOp", "plain", b_unary)
    expr("BinOp", lambda ms, r: ir.BinOp(ir.BinOp.Operator.ADD, ms[0], ms[1], r), ["lhs", "rhs"])
    expr("Boolean", lambda ms, r: ir.Boolean(ms[0], r), ["arg"])
    expr("BitSignalEvent", lambda ms, r: ir.BitSignalEvent(ir.BitSignalEvent.Type.RISING, ms[0], r), ["arg"])
    for n in (0, 1, 2):
        for cls in ("All", "Any"):
            def b(cls=cls, n=n):
                args = [M(f"{cls}.arg{i}") for i in range(n)]
                res = M(f"{cls}.result")
                return getattr(ir, cls)(list(args), res), [(a, R) for a in args] + [(res, W)]

            add(cls, f"{n}-args", b)
    for cls, flag in (("SignalAssignment", W), ("SignalPush", P), ("VariableAssignment", W)):
        def b1(cls=cls, flag=flag):
            t, s = M(f"{cls}.target"), M(f"{cls}.source")
            return getattr(ir, cls)(t, s), [(t, flag), (s, R)]

        add(cls, "scalar-source", b1)
        for n in (0, 2):
            def b2(cls=cls, flag=flag, n=n):
                t = M(f"{cls}.target")
                srcs = [M(f"{cls}.source{i}") for i in range(n)]
                return getattr(ir, cls)(t, list(srcs)), [(t, flag)] + [(s, R) for s in srcs]

            add(cls, f"list-source-{n}", b2)

            def b3(cls=cls, flag=flag, n=n):
                # aggregates are written as lists AND as tuples (`Variable[Array[...]]((a, b))`)
                t = M(f"{cls}.target")
                srcs = [M(f"{cls}.source{i}") for i in range(n)]
                return getattr(ir, cls)(t, tuple(srcs)), [(t, flag)] + [(s, R) for s in srcs]

            add(cls, f"tuple-source-{n}", b3)

    def b_reset():
        o = M("ResetInstance.obj")
        return ir.ResetInstance(o), [(o, W)]

    add("ResetInstance", "plain", b_reset)
    for nb, with_default in ((0, False), (1, True), (2, False), (2, True)):
        def b(nb=nb, with_default=with_default):
            arg, res = M("SelectWith.arg"), M("SelectWith.result")
            branches = [(M(f"SelectWith.cond{i}"), M(f"SelectWith.value{i}")) for i in range(nb)]
            d = M("SelectWith.default") if with_default else None
            exp = [(arg, R)] + [(x, R) for br in branches for x in br] + ([(d, R)] if d is not None else []) + [(res, W)]
            return ir.SelectWith(arg, [list(br) for br in branches], d, res), exp

        add("SelectWith", f"{nb}-branches{'-default' if with_default else ''}", b)

    def b_if():
        t = M("If.test")
        body, e1 = block("If.body", 1)
        orelse, e2 = block("If.orelse", 2)
        return ir.If(t, body, orelse), [(t, R)] + e1 + e2

    add("If", "object-test", b_if)

    def b_cb():
        blk, e = block("CodeBlock.stmt", 2)
        return blk, e

    add("CodeBlock", "2-statements", b_cb)
    add("Nop", "plain", lambda: (ir.Nop(), []))
    add("Comment", "plain", lambda: (ir.Comment(["c"]), []))
    for nb, with_default in ((0, False), (1, True), (2, True), (2, False)):
        def b(nb=nb, with_default=with_default):
            v = M("CaseWhen.value")
            exp = []
            branches = []
            for i in range(nb):
                c = M(f"CaseWhen.cond{i}")
                blk, e = block(f"CaseWhen.body{i}", 1)
                branches.append(ir.CaseWhen.Branch(c, blk))
                exp += [(c, R)] + e
            d = None
            if with_default:
                d, e = block("CaseWhen.default", 1)
                exp += e
            return ir.CaseWhen(v, branches, d), exp + [(v, R)]

        add("CaseWhen", f"{nb}-branches{'-default' if with_default else ''}", b)
    for nb, with_default in ((1, False), (2, True)):
        def b(nb=nb, with_default=with_default):
            exp = []
            branches = []
            for i in range(nb):
                c, e1 = leaf(f"CondSelect.cond{i}")
                blk, e2 = block(f"CondSelect.body{i}", 1)
                branches.append((c, blk))
                exp += e1 + e2
            d = None
            if with_default:
                d, e = block("CondSelect.default", 1)
                exp += e
            return ir.CondSelect(branches, d), exp

        add("CondSelect", f"{nb}-branches{'-default' if with_default else ''}", b)

    def b_assert():
        c = M("Assert.cond")
        return ir.Assert(c, "msg"), [(c, R)]

    add("Assert", "plain", b_assert)

    def b_state():
        code, e = block("_State.code", 2)
        return ir._State(code, code), e

    add("_State", "plain", b_state)

    def b_inline():
        rd, wr, res = M("InlineCode.read-object"), M("InlineCode.written-object"), M("InlineCode.result")
        sub = M("InlineCode.sub-object")
        inner = IC([IC.Text("x"), IC.Object(sub, True)])
        opt = IC([IC.Text("a"), IC.Object(rd, True), IC.Object(wr, False), IC.SubCode([inner])])
        return ir.InlineCode([opt], res), [(rd, R), (wr, W), (sub, R), (res, W)]

    add("InlineCode", "text+objects+subcode", b_inline)

    def b_ctx():
        code, e = block("Context.code", 2)
        return ir.Context("c", code, {}, None), e

    add("Context", "plain", b_ctx)
    # pseudo statements that carry no hardware object when the checks run
    for cls in ("Statement", "Expression", "_Transition", "_ResetContext", "_ResetPushed", "_SignalAlias"):
        add(cls, "no-objects", None)
    # built from tracer objects (events, state machines, sequential contexts): covered through their parts above
    # (Event/EventGroup: If with an event test; Statemachine / Sequential: _State, Context, sensitivity) -- see NOT_INSTANTIATED
    return out


NOT_INSTANTIATED = {
    "Event": "wraps a tracer _BitSignalEvent; one READ of its signal (single statement, read below)",
    "EventGroup": "list of Events",
    "Statemachine": "needs a StatemachineContext; visits its state variable (READ) and every _State (covered)",
    "Sequential": "Context + sensitivity list (READ each) + the always-expression's code; the replaced sensitivity list is not stored (reported, not replaced)",
}


def run_shape(builder):
    from cohdl._core._ir import _repr as ir

    inst, expected = builder()
    seen = []

    def op(obj, access):
        seen.append((obj, access))
        return Repl(obj)

    inst.visit_objects(op)
    first = [(o, a.name) for o, a in seen]
    seen.clear()
    inst.visit_objects(op)
    second = [(o, a.name) for o, a in seen]
    return expected, first, second


def same_multiset(got, want):
    got, want = list(got), list(want)
    if len(got) != len(want):
        return False
    for w in want:
        for i, g in enumerate(got):
            if g[0] is w[0] and g[1] == w[1]:
                del got[i]
                break
        else:
            return False
    return True


def visit_completeness(tier="quick", seed=0):
    present = classes_with_visit_objects()
    table = shapes()
    obligations = discharged = 0
    violations = []
    samples = []

    def fail(cls, shape, key, what):
        oid = f"C07/visit_completeness[{cls}:{shape}:{key}]"
        violations.append({"kind": "custom", "counted": True, "qual": "<IR visit_objects completeness>", "case": f"{cls}:{shape}", "oid": oid, "check": "visit_completeness", "key": f"{cls}:{key}",
                           "assignment": {"class": cls, "shape": shape}, "solver": {"what": what}, "reproduced": True,
                           "replay_payload": {"property": "C07", "custom": "contracts.c07_visit.replay", "cls": cls, "shape": shape, "key": key, "obligation": oid, "verifier_output": what}})

    for cls in present:
        if cls in NOT_INSTANTIATED:
            continue
        obligations += 1
        if cls not in table:
            fail(cls, "-", "unclassified", f"class {cls} defines visit_objects but has no entry in the role table: its objects are not known to be reported")
            continue
        discharged += 1
        for shape, builder in table[cls]:
            if builder is None:
                continue
            for key in ("report", "replace"):
                obligations += 1
            try:
                expected, first, second = run_shape(builder)
            except Exception as e:
                fail(cls, shape, "crash", f"{cls}[{shape}].visit_objects raises {type(e).__name__}: {str(e)[:100]}")
                continue
            if same_multiset(first, expected):
                discharged += 1
            else:
                miss = [f"{m!r}:{f}" for m, f in expected if not any(g[0] is m and g[1] == f for g in first)]
                extra = [f"{m!r}:{f}" for m, f in first if not any(w[0] is m and w[1] == f for w in expected)]
                fail(cls, shape, "report", f"{cls}[{shape}].visit_objects reports {[f'{m!r}:{f}' for m, f in first]}; missing {miss}, unexpected {extra}")
            want2 = [(m, f) for m, f in expected]
            ok2 = len(second) == len(want2) and all(any(isinstance(g[0], Repl) and g[0].of is m and g[1] == f for g in second) for m, f in want2)
            if ok2:
                discharged += 1
            else:
                stale = [f"{g[0]!r}:{g[1]}" for g in second if not isinstance(g[0], Repl)]
                fail(cls, shape, "replace", f"{cls}[{shape}]: after a replacing visit these positions still hold the ORIGINAL objects: {stale}")
            if len(samples) < 4:
                samples.append({"class": cls, "shape": shape, "reported": [f"{m!r}:{f}" for m, f in first]})
    return {"obligations": obligations, "discharged": discharged, "violations": violations, "samples": samples,
            "functions": {"IR visit_objects": {"function": f"{FILE} <every class>.visit_objects", "contract": "enumerated", "cases": [f"{len(present)} classes"]}},
            "coverage": {"classes_with_visit_objects": len(present), "not_instantiated": NOT_INSTANTIATED, "exhaustive": True}}


def replay(payload):
    table = shapes()
    for shape, builder in table.get(payload["cls"], []):
        if shape == payload["shape"] and builder is not None:
            try:
                expected, first, second = run_shape(builder)
            except Exception as e:
                return {"reproduced": payload["key"] == "crash", "detail": f"{type(e).__name__}: {e}"}
            if payload["key"] == "report":
                return {"reproduced": not same_multiset(first, expected), "detail": f"reported {[(repr(m), f) for m, f in first]}"}
            stale = [repr(g[0]) for g in second if not isinstance(g[0], Repl)]
            return {"reproduced": bool(stale), "detail": f"positions still holding the original objects after a replacing visit: {stale}"}
    return {"reproduced": payload["key"] == "unclassified" and payload["cls"] in classes_with_visit_objects() and payload["cls"] not in table, "detail": "role table entry missing"}


# ---- the block tree walks: EntityTemplate.__init__ runs the driver check over Block.all_contexts() ----------------------------------
# BOUNDED (exhaustive within the bound): every block tree with depth <= 4 and <= 2 sub-blocks / <= 2 contexts per block is built
# with the real ir.Block constructor; all_contexts() must yield every context of every nested block exactly once (own contexts
# first, then the sub-blocks in order), all_blocks() every block exactly once.  A context the walk skips is never checked for
# a second driver although the backend, which walks the tree on its own, still emits it.
def _trees(depth):
    """(n_contexts, [subtrees]) shapes"""
    leafs = [(n, []) for n in (0, 1, 2)]
    if depth == 0:
        return leafs
    subs = _trees(depth - 1) if depth <= 2 else [(1, []), (2, [(1, [])]), (0, [(1, [(2, [])])])]
    out = list(leafs)
    for n in (0, 1):
        for a in subs:
            out.append((n, [a]))
        for a in subs[:6]:
            for b in subs[:6]:
                out.append((n, [a, b]))
    return out


def block_walks(tier="quick", seed=0):
    import importlib

    ir = importlib.import_module("cohdl._core._ir._repr")
    counter = [0]

    def build(shape, want_ctx, want_blk):
        n, subs = shape
        ctxs = []
        for _ in range(n):
            counter[0] += 1
            ctxs.append(M(f"context{counter[0]}"))
        blk = ir.Block.__new__(ir.Block)
        want_blk.append(blk)
        want_ctx.extend(ctxs)
        sub_blocks = [build(s, want_ctx, want_blk) for s in subs]
        ir.Block.__init__(blk, f"block{len(want_blk)}", sub_blocks, ctxs, {})
        return blk

    evaluations = 0
    fails = {}
    shapes_ = _trees(2)
    if tier != "quick":
        base = _trees(2)
        shapes_ = shapes_ + [(n, [t]) for n in (0, 1) for t in base] + [(1, [t, (1, [])]) for t in base[::3]] + [(0, [(1, [t])]) for t in base[::5]]
    for shape in shapes_:
        want_ctx, want_blk = [], []
        root = build(shape, want_ctx, want_blk)
        evaluations += 1
        got_ctx, got_blk = list(root.all_contexts()), list(root.all_blocks())
        if [id(x) for x in got_ctx] != [id(x) for x in want_ctx]:
            fails.setdefault("all_contexts", f"block tree {shape}: all_contexts() yields {len(got_ctx)} of {len(want_ctx)} contexts: {got_ctx} instead of {want_ctx}")
        if [id(x) for x in got_blk] != [id(x) for x in want_blk]:
            fails.setdefault("all_blocks", f"block tree {shape}: all_blocks() yields {len(got_blk)} of {len(want_blk)} blocks")
    violations = []
    for key, what in sorted(fails.items()):
        oid = f"C07/block-walks[{key}]#bounded"
        violations.append({"kind": "custom", "qual": "<IR block tree walks>", "case": key, "oid": oid, "check": "block_walks", "key": key, "assignment": {"walk": key}, "solver": {"what": what}, "reproduced": True,
                           "replay_payload": {"property": "C07", "custom": "contracts.c07_visit.replay_block_walks", "key": key, "tier": tier, "obligation": oid, "verifier_output": what}})
    return {"evaluations": evaluations, "distinct": evaluations, "violations": violations, "samples": [{"tree_shapes": evaluations}],
            "bounded": [{"function": "cohdl._core._ir._repr:Block.all_contexts / all_blocks", "case": "all block trees within the bound", "evaluations": evaluations, "exhaustive_within_bound": True,
                         "bound": "depth <= 3 (quick) / 4 (thorough, deepest level sampled), <= 2 sub-blocks and <= 2 contexts per block"}]}


def replay_block_walks(payload):
    r = block_walks(payload.get("tier", "quick"), 0)
    hit = [v for v in r["violations"] if v["key"] == payload["key"]]
    return {"reproduced": bool(hit), "detail": hit[0]["solver"] if hit else "every walk complete"}
