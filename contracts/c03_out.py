"""C03: the control-flow summary the tracer keeps per statement (frontend/_prepare_ast_out.py).

Every out.Statement carries `returns_always` ("no path through this statement continues behind it") and its return
paths.  out.CodeBlock drops everything behind a statement that returns always -- so the summary decides which source
statements are translated at all.  Contracts (from the meaning of the flag, all arrangements enumerated):

  out.If          returns always  <=>  both branches return always;          return paths: body's then orelse's
  out.CondSelect  (for ... if c: ... break/return chains, match)
                  returns always  <=>  there IS a default branch and every branch (and the default) returns always
                  -- without a default the "no condition holds" path falls through to the next statement;
                  a chain in which only some branches return is rejected (tracer limitation, allowed)
  out.CodeBlock   keeps the statements up to and including the first one that returns always, drops the rest;
                  returns always <=> such a statement exists; return paths of the kept statements in order;
                  nested blocks are spliced in place.
"""

from __future__ import annotations

import itertools

from cohdl._compiler.frontend import _prepare_ast_out as OUT

from pyvc import contracts as C
from pyvc import interp as I
from pyvc.contracts import Case, contract
from pyvc.values import SObj
from contracts.c05_format_cast import Built

PROPS = ("C03",)
MOD = "cohdl._compiler.frontend._prepare_ast_out:"


class _S:
    """a statement / block with a given summary"""


for _n in ("returns_always", "returns", "return_paths", "contains_break", "contains_continue", "statements"):
    setattr(_S, _n, (lambda n: lambda self: None)(_n))
I.register_model(_S.returns_always, lambda it, self: self.fields["f_ra"])
I.register_model(_S.returns, lambda it, self: len(self.fields["f_paths"]) != 0)
I.register_model(_S.return_paths, lambda it, self: list(self.fields["f_paths"]))
I.register_model(_S.contains_break, lambda it, self: self.fields.get("f_brk", False))
I.register_model(_S.contains_continue, lambda it, self: self.fields.get("f_cont", False))

# how a branch ends: falls through / returns on some paths / returns on every path
KINDS = {"fall": (False, 0), "some": (False, 1), "always": (True, 1)}


def stmt(kind, tag):
    ra, n = KINDS[kind]
    return SObj(_S, f_ra=ra, f_paths=[f"ret:{tag}:{i}" for i in range(n)], f_tag=tag)


def _stmt_init(it, self, returns_always=False, return_paths=None, bound_statements=None, contains_break=False, contains_continue=False):
    self.fields.update(_returns_always=returns_always, _return_paths=return_paths or [], _bound_statements=[] if bound_statements is None else bound_statements,
                       _contains_break=contains_break, _contains_continue=contains_continue)


INIT_MODEL = [(OUT.Statement.__dict__["__init__"], _stmt_init)]

# ---- If ---------------------------------------------------------------------------------------------------------------------
con = contract(MOD + "If.__init__", PROPS)
for kb, ko in itertools.product(KINDS, repeat=2):
    def if_spec(sx, self, test, body, orelse, kb=kb, ko=ko):
        real = sx.real_args

        def holds(res):
            f = real[0].fields
            return f["_returns_always"] == (KINDS[kb][0] and KINDS[ko][0]) and f["_return_paths"] == real[2].fields["f_paths"] + real[3].fields["f_paths"]

        return C.Pred(holds, "returns always iff both branches do; return paths of both")

    c = Case(f"body-{kb},orelse-{ko}", [Built([], lambda env: SObj(OUT.If), lambda a: "None", lambda a: None), Built([], lambda env: "TEST", lambda a: "None", lambda a: None),
                                        Built([], (lambda k: lambda env: stmt(k, "body"))(kb), lambda a: "None", lambda a: None), Built([], (lambda k: lambda env: stmt(k, "orelse"))(ko), lambda a: "None", lambda a: None)], if_spec)
    c.native = False
    c.models = INIT_MODEL
    con.cases.append(c)

# ---- CondSelect ----------------------------------------------------------------------------------------------------------------
con = contract(MOD + "CondSelect.__init__", PROPS)
for n in (1, 2):
    for kinds in itertools.product(KINDS, repeat=n):
        for kd in (None,) + tuple(KINDS):
            def cs_spec(sx, self, branches, default, kinds=kinds, kd=kd):
                allk = list(kinds) + ([kd] if kd is not None else [])
                any_returns = any(KINDS[k][1] for k in allk)
                if any_returns and not all(KINDS[k][0] for k in allk):
                    raise C.SpecRaise(AssertionError)  # tracer limitation: partly returning chains are rejected
                real = sx.real_args

                def holds(res):
                    f = real[0].fields
                    want_ra = any_returns and kd is not None
                    paths = [p for _, b in real[1] for p in b.fields["f_paths"]] + (real[2].fields["f_paths"] if kd is not None else [])
                    return f["_returns_always"] == want_ra and f["_return_paths"] == (paths if any_returns else [])

                return C.Pred(holds, "returns always iff a default exists and every branch returns always")

            c = Case(f"branches-[{','.join(kinds)}],default-{kd}", [Built([], lambda env: SObj(OUT.CondSelect), lambda a: "None", lambda a: None),
                                                                      Built([], (lambda ks: lambda env: [(f"cond{i}", stmt(k, f"b{i}")) for i, k in enumerate(ks)])(kinds), lambda a: "None", lambda a: None),
                                                                      Built([], (lambda k: lambda env: stmt(k, "default") if k is not None else None)(kd), lambda a: "None", lambda a: None)], cs_spec)
            c.native = False
            c.models = INIT_MODEL
            c.custom_replay = "contracts.c03_out.replay_return_chain_without_default"
            con.cases.append(c)

# ---- CodeBlock ------------------------------------------------------------------------------------------------------------------
con = contract(MOD + "CodeBlock.__init__", PROPS)
for n in (0, 1, 2, 3):
    for kinds in itertools.product(KINDS, repeat=n):
        def cb_spec(sx, self, stmts, kinds=kinds):
            real = sx.real_args
            first = next((i for i, k in enumerate(kinds) if KINDS[k][0]), None)
            kept = list(range(len(kinds))) if first is None else list(range(first + 1))

            def holds(res):
                f = real[0].fields
                ok = len(f["_stmts"]) == len(kept) and all(f["_stmts"][i] is real[1][i] for i in kept)
                paths = [p for i in kept for p in real[1][i].fields["f_paths"]]
                return ok and f["_returns_always"] == (first is not None) and f["_return_paths"] == paths

            return C.Pred(holds, "statements up to the first that returns always; summary of the kept statements")

        c = Case(f"statements-[{','.join(kinds) or 'none'}]", [Built([], lambda env: SObj(OUT.CodeBlock), lambda a: "None", lambda a: None),
                                                                  Built([], (lambda ks: lambda env: [stmt(k, f"s{i}") for i, k in enumerate(ks)])(kinds), lambda a: "None", lambda a: None)], cb_spec)
        c.native = False
        c.models = INIT_MODEL
        con.cases.append(c)


# ---- break / continue summaries: a compound statement contains a break (continue) iff one of its parts does -----------------
# The for-loop and while-loop translations decide from these summaries whether a loop body leaves the loop.  A `break` hidden
# inside a match statement (CondSelect) that the summary does not report is translated as an ordinary statement: the open
# paths are parked for a loop exit that never comes and everything after the loop is dropped on that path.
FLAGS = {"plain": (False, False), "break": (True, False), "continue": (False, True)}


def flagged(tag, flag):
    brk, cont = FLAGS[flag]
    return SObj(_S, f_ra=False, f_paths=[], f_tag=tag, f_brk=brk, f_cont=cont)


def flags_spec(parts_of):
    def spec(sx, self, *args):
        real = sx.real_args
        parts = [p for p in parts_of(real) if p is not None]

        def holds(res):
            f = real[0].fields
            return f["_contains_break"] == any(p.fields["f_brk"] for p in parts) and f["_contains_continue"] == any(p.fields["f_cont"] for p in parts)

        return C.Pred(holds, "contains_break / contains_continue iff one of the parts does")

    return spec


con_if = contract(MOD + "If.__init__", PROPS)
for fb, fo in itertools.product(FLAGS, repeat=2):
    c = Case(f"flags:body-{fb},orelse-{fo}", [Built([], lambda env: SObj(OUT.If), lambda a: "None", lambda a: None), Built([], lambda env: "TEST", lambda a: "None", lambda a: None),
                                              Built([], (lambda k: lambda env: flagged("body", k))(fb), lambda a: "None", lambda a: None), Built([], (lambda k: lambda env: flagged("orelse", k))(fo), lambda a: "None", lambda a: None)],
             flags_spec(lambda real: [real[2], real[3]]))
    c.native = False
    c.models = INIT_MODEL
    con_if.cases.append(c)

con_cs = contract(MOD + "CondSelect.__init__", PROPS)
for f0, f1 in itertools.product(FLAGS, repeat=2):
    for fd in (None,) + tuple(FLAGS):
        c = Case(f"flags:branches-[{f0},{f1}],default-{fd}", [Built([], lambda env: SObj(OUT.CondSelect), lambda a: "None", lambda a: None),
                                                               Built([], (lambda a_, b_: lambda env: [("cond0", flagged("b0", a_)), ("cond1", flagged("b1", b_))])(f0, f1), lambda a: "None", lambda a: None),
                                                               Built([], (lambda k: lambda env: flagged("default", k) if k is not None else None)(fd), lambda a: "None", lambda a: None)],
                 flags_spec(lambda real: [b for _, b in real[1]] + [real[2]]))
        c.native = False
        c.models = INIT_MODEL
        c.custom_replay = "contracts.c03_out.replay_break_in_match"
        con_cs.cases.append(c)

con_cb = contract(MOD + "CodeBlock.__init__", PROPS)
for f0, f1 in itertools.product(FLAGS, repeat=2):
    c = Case(f"flags:statements-[{f0},{f1}]", [Built([], lambda env: SObj(OUT.CodeBlock), lambda a: "None", lambda a: None),
                                                Built([], (lambda a_, b_: lambda env: [flagged("s0", a_), flagged("s1", b_)])(f0, f1), lambda a: "None", lambda a: None)],
             flags_spec(lambda real: list(real[1])))
    c.native = False
    c.models = INIT_MODEL
    con_cb.cases.append(c)


_BREAK_IN_MATCH = '''
from cohdl import Entity, Port, Bit, Unsigned, std
class E(Entity):
    clk = Port.input(Bit)
    sel = Port.input(Unsigned[2])
    o = Port.output(Unsigned[4])
    p = Port.output(Unsigned[4])
    q = Port.output(Unsigned[4])
    def architecture(self):
        @std.sequential(std.Clock(self.clk))
        def proc():
            for i in range(2):
                match self.sel:
                    case 0:
                        self.o <<= i
                        break
                    case _:
                        self.p <<= i
            self.q <<= 1          # executes on every path
t = std.VhdlCompiler.to_string(E)
arch = t[t.index("proc:"):]
first = arch[arch.index("if temp then"):arch.index("else")]
print("TAIL-DROPPED" if "buffer_q" not in first else "TAIL-KEPT")
'''


def replay_break_in_match(payload):
    from contracts.c06_extra import _run_design

    rc, out = _run_design(_BREAK_IN_MATCH)
    return {"reproduced": rc == 0 and "TAIL-DROPPED" in out, "detail": out[-300:]}


_RETURN_CHAIN = '''
from __future__ import annotations
import cohdl
from cohdl import Bit, Unsigned, Port, std

class Obs(cohdl.Entity):
    clk = Port.input(Bit)
    a = Port.input(Unsigned[4])
    o = Port.output(Unsigned[4])

    def architecture(self):
        def helper(x):
            for i in range(2):
                if x == i:
                    self.o <<= i
                    return
            self.o <<= 15          # the path on which no loop condition holds

        @std.sequential(std.Clock(self.clk))
        def proc():
            helper(self.a)

t = std.VhdlCompiler.to_string(Obs)
print("TAIL_EMITTED" if '"1111"' in t else "TAIL_DROPPED")
'''


def replay_return_chain_without_default(payload):
    from contracts.c06_extra import _run_design

    rc, out = _run_design(_RETURN_CHAIN)
    return {"reproduced": rc == 0 and "TAIL_DROPPED" in out, "detail": out[-200:]}


# ---- `if <compile-time constant>:` keeps the statements the test expression itself stands for -----------------------------------
# `if f(): ...` where f() assigns signals and returns a constant: the branch is selected at compile time, but the
# assignments made while evaluating the test are part of the program -- they must be translated, before the branch.
import ast  # noqa: E402

from cohdl._compiler.frontend import _prepare_ast as PA  # noqa: E402
from contracts.c02_frontend import _Expr, _Prep  # noqa: E402
from contracts import c10_frontend as _F  # noqa: F401,E402  (defines the _Prep.apply stand-in)


class _Blk:
    """the translated branch: a block of statements; statements bound to it are recorded"""


_Blk.add_bound_statement = lambda self, s: None
I.register_model(_Blk.add_bound_statement, lambda it, self, s: self.fields["f_bound"].append(s))


def translated_order(x):
    """statements in the order the IR generator will translate them.  Bound statements of a NESTED block are lost
    (out.CodeBlock splices only .statements()), so they do not count."""
    if isinstance(x, SObj) and x.kind is OUT.CodeBlock:
        out = []
        for s in x.fields["f_stmts"]:
            if isinstance(s, SObj) and s.kind is _Blk:
                out.extend(s.fields["f_stmts"])
            else:
                out.append(s)
        return out
    if isinstance(x, SObj) and x.kind is _Blk:
        return list(x.fields["f_stmts"])  # returned as it is: it will be nested in the caller's block
    return None


def const_if_spec(value):
    def spec(sx, self, inp):
        it = sx.it

        def holds(res):
            order = translated_order(res)
            if order is None:
                return False
            branch = "body-stmt" if value else "orelse-stmt"
            return it.test_expr in order and branch in order and order.index(it.test_expr) < order.index(branch) and ("orelse-stmt" if value else "body-stmt") not in order

        return C.Pred(holds, "the test expression is translated, before the statements of the selected branch")

    return spec


con = contract("cohdl._compiler.frontend._prepare_ast:PrepareAst.apply_impl", PROPS)
for value in (True, False):
    node = ast.parse("if f():\n    body\nelse:\n    orelse\n").body[0]
    c = Case(f"if-with-constant-test:{value}", [Built([], lambda env: SObj(_Prep, _last_apply_inp=None, _context=None), lambda a: "None", lambda a: None), Built([], (lambda n: lambda env: n)(node), lambda a: "None", lambda a: None)], const_if_spec(value), props=PROPS)
    c.native = False

    def _apply_parts(it, self, sub, node=node):
        if sub is node.test:
            return it.test_raw
        which = "body-stmt" if sub is node.body else "orelse-stmt"
        return SObj(_Blk, f_stmts=[which], f_bound=[])

    def _conv_bool(it, self, x, bound=None, value=value):
        return it.test_expr

    def setup_ci(it, ctx, args, env, value=value):
        it.test_raw = SObj(_Expr, f_result="f()-result", f_tag="call of f (assigns signals)")
        it.test_expr = SObj(_Expr, f_result=value, f_bound=[it.test_raw], f_tag="bool(f())")

    c.setup = setup_ci
    c.models = [(_Prep.apply, _apply_parts), (_Prep.convert_boolean, _conv_bool)]
    c.interp_flags = {"class_call_models": {OUT.CodeBlock: lambda it, args, kw: SObj(OUT.CodeBlock, f_stmts=list(args[0]))}}
    c.custom_replay = "contracts.c03_out.replay_constant_if_side_effects"
    con.cases.append(c)

_CONST_IF = '''
from __future__ import annotations
import cohdl
from cohdl import Bit, Unsigned, Port, std

class Obs(cohdl.Entity):
    clk = Port.input(Bit)
    a = Port.input(Unsigned[4])
    b = Port.input(Unsigned[4])
    o = Port.output(Unsigned[4])
    o2 = Port.output(Unsigned[4])

    def architecture(self):
        def f():
            self.o2 <<= self.b
            return True

        @std.sequential(std.Clock(self.clk))
        def proc():
            if f():
                self.o <<= self.a

t = std.VhdlCompiler.to_string(Obs)
print("SIDE_EFFECT_KEPT" if "buffer_o2 <= b" in t else "SIDE_EFFECT_DROPPED")
'''


def replay_constant_if_side_effects(payload):
    from contracts.c06_extra import _run_design

    rc, out = _run_design(_CONST_IF)
    return {"reproduced": rc == 0 and "SIDE_EFFECT_DROPPED" in out, "detail": out[-200:]}
