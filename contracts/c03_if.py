"""C03 / C08: `if` statements (PrepareAst.apply_impl, ast.If branch).

    constant test            -> CodeBlock([test, translation of the selected branch]); the other branch is not translated
    run-time test            -> out.If(T, body, orelse) where T is THE expression returned by convert_boolean(value, [test expression]):
                                the condition is first cast to a boolean intermediate that is assigned in front of the `if`
                                (sequential contexts only; rejected in concurrent ones)

The second clause carries C08: the definite-assignment analysis (ConvertInstance.detect_uninitialized_temporaries, ir.If case) checks the
test object itself, not the objects in its reference path.  That is sufficient because the test of every `if` is such a boolean
intermediate WITHOUT a reference path -- an element selected with a run-time index (`if vec[idx]:`) is read by the cast statement, whose
operands (index included) the analysis does check.  Using the tested signal itself as the test would let an index computed in only one
branch (or in another coroutine state) slip through.
"""

from __future__ import annotations

import ast

from cohdl import Signal as _Signal, Bit as _Bit
from cohdl._compiler.frontend import _prepare_ast as PA
from cohdl._compiler.frontend import _prepare_ast_out as OUT

from pyvc import contracts as C
from pyvc.contracts import Case, contract
from pyvc.values import SObj
from contracts.c05_format_cast import Built
from contracts.c02_frontend import _Expr, _Prep
from contracts import c10_frontend as _F  # noqa: F401  (defines the _Prep.apply stand-in)
from contracts import c03_match as _M  # noqa: F401  (registers the models of _Expr)

PROPS = ("C03", "C08")
SEQ, CONC = PA.ContextType.SEQUENTIAL, PA.ContextType.CONCURRENT
NODE = ast.parse("if T:\n    BODY\nelse:\n    ELSE\n").body[0]


class _BitSig:
    """a single-bit Signal / Port (possibly an element selected with a run-time index): the tested value"""


def _apply(it, self, node):
    if node is NODE.test:
        it.test_expr = SObj(_Expr, f_result=it.test_value, f_bound=["<statements bound to the test>"])
        return it.test_expr
    tag = "BODY" if node is NODE.body else "ELSE"
    it.translated.append(tag)
    return SObj(OUT.CodeBlock, f_tag=tag)


def _convert_boolean(it, self, value, bound=None):
    if isinstance(value, bool):
        it.cast = SObj(_Expr, f_result=value, f_bound=list(bound or []), f_tag="constant")
    else:
        it.cast = SObj(_Expr, f_result=SObj(_BitSig, f_tag="boolean intermediate"), f_bound=list(bound or []), f_tag="bool-cast of the tested value")
    return it.cast


def if_spec(kind, context):
    def spec(sx, self, inp):
        it = sx.it
        if kind == "run-time" and context is CONC:
            sx.reject(AssertionError)

        def holds(res):
            cast = it.cast
            if cast is None:
                return False  # the tested value was never cast to a boolean intermediate
            if cast.fields["f_bound"] != [it.test_expr]:
                return False  # the test expression (with its statements) is bound to the cast
            if kind == "run-time":
                return (isinstance(res, SObj) and res.kind is OUT.If and res.fields["f_test"] is cast and res.fields["f_body"].fields["f_tag"] == "BODY"
                        and res.fields["f_orelse"].fields["f_tag"] == "ELSE" and it.translated == ["BODY", "ELSE"])
            sel = "BODY" if kind == "True" else "ELSE"
            return (isinstance(res, SObj) and res.kind is OUT.CodeBlock and len(res.fields["f_list"]) == 2 and res.fields["f_list"][0] is cast
                    and res.fields["f_list"][1].fields["f_tag"] == sel and it.translated == [sel])

        return C.Pred(holds, "constant: [test, selected branch]; run-time: If(boolean cast of the test, body, orelse)")

    return spec


con = contract("cohdl._compiler.frontend._prepare_ast:PrepareAst.apply_impl", PROPS)
for kind in ("True", "False", "run-time"):
    for context in (SEQ, CONC):
        c = Case(f"if:{kind}-test,{context.name}", [Built([], (lambda cx: lambda env: SObj(_Prep, _last_apply_inp=None, _context=cx))(context), lambda a: "<self>", lambda a: None),
                                                   Built([], lambda env: NODE, lambda a: "<if>", lambda a: None)], if_spec(kind, context))
        c.native = False
        c.models = [(_Prep.apply, _apply), (_Prep.convert_boolean, _convert_boolean)]
        c.interp_flags = {"class_call_models": {
            OUT.If: lambda it, args, kw: SObj(OUT.If, f_test=args[0], f_body=args[1], f_orelse=args[2]),
            OUT.CodeBlock: lambda it, args, kw: SObj(OUT.CodeBlock, f_list=list(args[0])),
            OUT.Value: lambda it, args, kw: SObj(_Expr, f_result=args[0], f_bound=list(args[1]), f_tag="plain value"),
        }}

        def _setup(it, ctx, args, env, kind=kind):
            it.test_value = {"True": True, "False": False}.get(kind, SObj(_Signal, f_tag="tested signal", type=_Bit, _ref_spec=["<run-time index>"]))
            it.translated = []
            it.cast = None

        c.setup = _setup
        c.custom_replay = "contracts.c03_if.replay_if_index"
        con.cases.append(c)


_IF_DESIGN = '''
from cohdl import Entity, Port, Bit, BitVector, Unsigned, std
class IfIndex(Entity):
    clk = Port.input(Bit)
    sel = Port.input(Bit)
    vec = Port.input(BitVector[4])
    idx = Port.input(Unsigned[2])
    o = Port.output(Bit, default=False)
    def architecture(self):
        @std.sequential(std.Clock(self.clk))
        def proc():
            if self.sel:
                elem = self.vec[self.idx]
            if elem:
                self.o <<= True
try:
    std.VhdlCompiler.to_string(IfIndex)
    print("ACCEPTED")
except Exception as e:
    print("REJECTED", type(e).__name__)
'''


def replay_if_index(payload):
    from contracts.c06_extra import _run_design

    rc, out = _run_design(_IF_DESIGN)
    return {"reproduced": "ACCEPTED" in out, "detail": "an element indexed by a snapshot taken in only one branch, tested by a later `if`: " + out[-60:]}
