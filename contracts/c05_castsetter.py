"""C05: the synthesizable replacement of the cast-property setters (`obj.unsigned = v`, `.signed`, `.bitvector`).

Inside a synthesizable context these setters are only legitimately reached by the store-back of an augmented assignment
(`obj.unsigned <<= v` evaluates `t = obj.unsigned; t = t.__ilshift__(v); obj.unsigned = t`, where `t` is a view of obj: SAME
root object).  Anything else -- a literal, another object -- would only change the compile-time placeholder and emit nothing:
an assignment neither performed nor rejected.  TypeQualifier._check_cast_setter therefore accepts exactly the values whose root
IS (identity) the root of the target; in particular not an unrelated object whose root merely compares equal (`==` on qualified
objects is the overloaded comparison of their compile-time values: two signals without default are "equal").
"""

from __future__ import annotations

from cohdl._core._type_qualifier import TypeQualifier, Signal

from pyvc import contracts as C
from pyvc import interp as I  # noqa: F401
from pyvc.contracts import Case, contract
from pyvc.values import SObj, Opaque
from contracts.c05_format_cast import Built

PROPS = ("C05",)


def setter_spec(kind):
    def spec(sx, self, value, name):
        if kind not in ("same-object", "view-of-same-root"):
            sx.reject(AssertionError)
        return C.Pred(lambda res: res is None, "accepted (the store-back of an augmented assignment)")

    return spec


def shapes(kind):
    def make_self(env):
        root = SObj(Signal, f_tag="root", _value=Opaque("v"), _ref_spec=[])
        root.fields["_root"] = root
        env["__root__"] = root
        return root

    def make_value(env):
        root = env["__root__"]
        if kind == "same-object":
            return root
        if kind == "view-of-same-root":
            return SObj(Signal, f_tag="view", _value=Opaque("cast"), _ref_spec=[], _root=root)
        if kind == "other-object-equal-value":
            other = SObj(Signal, f_tag="other", _value=Opaque("v"), _ref_spec=[])
            other.fields["_root"] = other
            return other
        if kind == "view-of-other-root":
            other = SObj(Signal, f_tag="other", _value=Opaque("v"), _ref_spec=[])
            other.fields["_root"] = other
            return SObj(Signal, f_tag="view-of-other", _value=Opaque("cast"), _ref_spec=[], _root=other)
        if kind == "int":
            return 5
        if kind == "str":
            return "0101"
        raise AssertionError(kind)

    return [Built([], make_self, lambda a: "<target>", lambda a: None), Built([], make_value, lambda a: "<value>", lambda a: None), Built([], lambda env: "unsigned", lambda a: "'unsigned'", lambda a: None)]


# ---- bool from a literal: construction and assignment agree -------------------------------------------------------------------
# `sig <<= "0"` assigns false (_Boolean._assign); the constructor is used by initialisations (`Signal[bool]("0")`,
# `Variable[bool]("0")`), branch merges and return merges: the same literal must denote the same truth value there
# (Python's bool("0") is True).  Strings other than "0" / "1" have no truth value here: rejected by both.
from cohdl._core._boolean import _Boolean  # noqa: E402

BOOL_LITERALS = {"'0'": ("0", False), "'1'": ("1", True), "True": (True, True), "False": (False, False), "0": (0, False), "1": (1, True), "'x'": ("x", None), "''": ("", None), "'01'": ("01", None),
                 # "integer literals must be representable in the target": 2 and -1 are not truth values (`flag <<= 2` is rejected; the
                 # initialisation forms Variable[bool](2) / branch merges go through the constructor)
                 "2": (2, None), "-1": (-1, None)}


def bool_spec(want):
    def spec(sx, self, *value):
        if want is None:
            sx.reject(AssertionError)
        real = sx.real_args[0]
        return C.Pred(lambda res: real.fields.get("_value") is want, f"represents {want}")

    return spec


for _fn in ("__init__", "_assign"):
    _bc = contract(f"cohdl._core._boolean:_Boolean.{_fn}", PROPS)
    for _nm, (_lit, _want) in BOOL_LITERALS.items():
        c = Case(f"literal:{_nm}", [Built([], lambda env: SObj(_Boolean, _value=None), lambda a: "<bool>", lambda a: None), Built([], (lambda v: lambda env: v)(_lit), lambda a: _nm, lambda a: None)], bool_spec(_want))
        c.native = False
        _bc.cases.append(c)


con = contract("cohdl._core._type_qualifier:TypeQualifier._check_cast_setter", PROPS)
for kind in ("same-object", "view-of-same-root", "other-object-equal-value", "view-of-other-root", "int", "str"):
    c = Case(f"value:{kind}", shapes(kind), setter_spec(kind))
    c.native = False
    # `a == b` on qualified objects compares the compile-time VALUES: both placeholders hold the same value here
    c.models = [(TypeQualifier.__dict__["__eq__"], lambda it, self, other: True), (TypeQualifier.__dict__["__ne__"], lambda it, self, other: False)]
    con.cases.append(c)


_BOOL_INIT_DESIGN = '''
from cohdl import Entity, Port, Bit, Variable, std
class BoolInit(Entity):
    clk = Port.input(Bit)
    o = Port.output(bool)
    def architecture(self):
        @std.sequential(std.Clock(self.clk))
        def proc():
            v = Variable[bool](2)
            self.o <<= v
try:
    t = std.VhdlCompiler.to_string(BoolInit)
    print("ACCEPTED", [l.strip() for l in t.splitlines() if ":= true" in l])
except AssertionError:
    print("REJECTED")
'''


def replay_bool_init(payload):
    from contracts.c06_extra import _run_design

    rc, out = _run_design(_BOOL_INIT_DESIGN)
    return {"reproduced": "ACCEPTED" in out, "detail": "`Variable[bool](2)` (the literal 2 is not representable in a bool; `flag <<= 2` is rejected): " + out[-80:]}


for _c in C.CONTRACTS["cohdl._core._boolean:_Boolean.__init__"].cases:
    if _c.name in ("literal:2", "literal:-1"):
        _c.custom_replay = "contracts.c05_castsetter.replay_bool_init"


# C13 ("views ... alias the same storage and keep the same root"): assigning a cast property (`obj.unsigned = ...`) is only the
# tail of an augmented assignment to that very view -- anything else would be silently dropped
contract("cohdl._core._type_qualifier:TypeQualifier._check_cast_setter", ("C13",))
