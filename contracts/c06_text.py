"""C06: free text supplied by the design (comments, assertion messages) cannot change the structure of the emitted VHDL.

  comment_list / Comment.write : a comment is emitted as lines that ALL start with the comment marker `--`; a comment
                                 text containing a line break must not leave text outside a comment (the rest of the
                                 text would be read as VHDL code).  The text itself is preserved line by line.
  Assert.write                 : `assert <test> report "<message>";` -- the message is ONE VHDL string literal: every
                                 quotation mark inside it is doubled, and it contains no line break (a string literal
                                 cannot span lines): such a message is escaped or the design is rejected.

The texts are concrete here (a representative enumeration of the characters that matter: line breaks \n, \r\n, \r,
quotation marks, empty text); the functions are interpreted from the real source.
"""

from __future__ import annotations

import re

from cohdl._compiler.backend.vhdl import _vhdl_repr as VR
from cohdl._compiler.backend.vhdl._vhdl_repr import VhdlScope
from cohdl.utility.code_writer import TextBlock

from pyvc import contracts as C
from pyvc import interp as I
from pyvc.contracts import Case, contract
from pyvc.values import SObj
from contracts.c05_format_cast import Built

PROPS = ("C06",)
VRM = "cohdl._compiler.backend.vhdl._vhdl_repr:"

for q in ("cohdl.utility.code_writer:TextBlock.__init__", "cohdl.utility.code_writer:TextBlock.add"):
    C.inline(q)
I.register_inline(VR.comment_list)

LINE_BREAKS = tuple(chr(c) for c in (0x0A, 0x0D, 0x0B, 0x0C, 0x1C, 0x1D, 0x1E, 0x85, 0x2028, 0x2029))  # what str.splitlines splits at


def _lines_of(texts):
    out = []
    for t in texts:
        out.extend(t.splitlines() or [""])
    return out


def comment_lines_ok(lines, texts):
    if not (isinstance(lines, list) and all(isinstance(l, str) for l in lines)):
        return False
    if any(not l.startswith("--") or any(b in l for b in LINE_BREAKS) for l in lines):
        return False
    # nothing lost, nothing invented: the emitted comment carries the text, line by line
    return [l[2:].strip() for l in lines] == [t.strip() for t in _lines_of(texts)]


COMMENTS = [None, "one line", "two\nlines", ["a", "b"], ["first line\nsecond <= injected;", "c"], "windows\r\nline break", "old mac\rline break", "", ["", "x"], "trailing\n"]


def _texts(comment):
    return [] if comment is None else [comment] if isinstance(comment, str) else list(comment)


def comment_list_spec(comment):
    def spec(sx, c):
        return C.Pred(lambda res: comment_lines_ok(res, _texts(comment)), "every emitted line starts with `--`, contains no line break, and the lines carry the comment text")

    return spec


con = contract(VRM + "comment_list", PROPS)
for i, comment in enumerate(COMMENTS):
    c = Case(f"comment:{comment!r}", [Built([], (lambda v: lambda env: (list(v) if isinstance(v, list) else v))(comment), lambda a: repr(comment), lambda a: None)], comment_list_spec(comment))
    c.native = False
    c.custom_replay = "contracts.c06_text.replay_text"
    con.cases.append(c)


def comment_write_spec(lines):
    def spec(sx, self, scope):
        def holds(res):
            if not (isinstance(res, SObj) and issubclass(res.kind, TextBlock)):
                return False
            return comment_lines_ok(list(res.fields["_content"]), lines)

        return C.Pred(holds, "a block of comment lines: each starts with `--`, none contains a line break")

    return spec


SCOPE = Built([], lambda env: SObj(VhdlScope), lambda asg: "None", lambda asg: None)
con = contract(VRM + "Comment.write", PROPS)
for lines in (["plain"], ["first line\nsecond <= injected;"], ["a", "b\r\nc"], []):
    c = Case(f"lines:{lines!r}", [Built([], (lambda v: lambda env: SObj(VR.Comment, lines=list(v)))(lines), lambda a: "None", lambda a: None), SCOPE], comment_write_spec(lines))
    c.native = False
    c.custom_replay = "contracts.c06_text.replay_text"
    con.cases.append(c)


# ---- assertion messages ----------------------------------------------------------------------------------------------------------
class _Test:
    def write(self, scope):
        return None


I.register_model(_Test.write, lambda it, self, scope: "a = '1'")
_ASSERT = re.compile(r'^assert a = \'1\' report "((?:[^"]|"")*)";$')

MESSAGES = ["plain text", 'say "hi"', '"', 'ends with "', "", "two\nlines", "cr\rlf", 'both "\n"', 42]


def assert_spec(message):
    def spec(sx, self, scope):
        text = str(message)
        if any(b in text for b in LINE_BREAKS):
            # a string literal cannot span lines: rejected, or emitted without the line break
            sx.may_reject_here(AssertionError)

        def holds(res):
            if not isinstance(res, str) or any(b in res for b in LINE_BREAKS):
                return False
            m = _ASSERT.match(res)
            if m is None:
                return False
            return any(b in text for b in LINE_BREAKS) or m.group(1).replace('""', '"') == text

        return C.Pred(holds, 'assert <test> report "<message with every quotation mark doubled, no line break>";')

    return spec


con = contract(VRM + "Assert.write", PROPS)
for message in MESSAGES:
    c = Case(f"message:{message!r}", [Built([], (lambda v: lambda env: SObj(VR.Assert, _test=SObj(_Test), _message=v))(message), lambda a: "None", lambda a: None), SCOPE], assert_spec(message))
    c.native = False
    c.custom_replay = "contracts.c06_text.replay_text"
    con.cases.append(c)

c = Case("no-message", [Built([], lambda env: SObj(VR.Assert, _test=SObj(_Test), _message=None), lambda a: "None", lambda a: None), SCOPE],
         lambda sx, self, scope: C.Pred(lambda res: res == "assert a = '1';", "assert <test>;"))
c.native = False
con.cases.append(c)


# ---- entities without ports -----------------------------------------------------------------------------------------------------
# `port ( );` is not a legal port clause (an interface list has at least one element), and an instantiation statement ends
# with `;` whether or not it has a generic / port map.
def _flat_text(tb):
    out = []

    def rec(x):
        if isinstance(x, SObj) and issubclass(x.kind, TextBlock):
            if x.fields.get("_title") is not None:
                out.append(x.fields["_title"])
            for e in x.fields["_content"]:
                rec(e)
        elif isinstance(x, list):
            for e in x:
                rec(e)
        else:
            out.append(x)

    rec(tb)
    return out


def port_clause_spec(n):
    def spec(sx, self):
        def holds(res):
            lines = _flat_text(res)
            if n == 0:
                return lines == []
            return lines == ["port ("] + [f"p{i} : in std_logic" + (";" if i < n - 1 else "") for i in range(n)] + [");"]

        return C.Pred(holds, "no port clause for an entity without ports, else `port ( <declarations> );`")

    return spec


con = contract(VRM + "Entity._port_map", PROPS)
for n in (0, 1, 3):
    c = Case(f"{n}-ports", [Built([], (lambda k: lambda env: SObj(VR.Entity, _ports={f"p{i}": object() for i in range(k)}, f_n=k))(n), lambda a: "None", lambda a: None)], port_clause_spec(n))
    c.native = False
    c.models = [(VR.Entity.__dict__["_port_declarations"], lambda it, self: [f"p{i} : in std_logic" + (";" if i < self.fields["f_n"] - 1 else "") for i in range(self.fields["f_n"])])]
    c.custom_replay = "contracts.c06_text.replay_no_ports"
    con.cases.append(c)


def inst_write_spec(n_generic, n_port, arch=("compiled", "arch_E", "arch_E")):
    kind, declared, written = arch
    # the architecture named in an instantiation is the one that is WRITTEN for the entity: the scope may have changed a
    # requested name that is reserved or taken (`arch_name="signal"` -> `architecture signal1 of E`); an extern entity is
    # instantiated with the name the user gave (or without architecture)
    arch_text = written if kind == "compiled" else declared

    def spec(sx, self):
        def holds(res):
            lines = _flat_text(res)
            if not lines or not all(isinstance(l, str) for l in lines):
                return False
            head = "comp_e: entity work.E" + ("" if arch_text is None else f"({arch_text})")
            want = [head] + (["generic map("] + [f"g{i}" for i in range(n_generic)] + [")"] if n_generic else []) + (["port map("] + [f"p{i}" for i in range(n_port)] + [");"] if n_port else [])
            if n_generic and not n_port:
                want[-1] = ");"
            if not n_generic and not n_port:
                want = [head + ";"]
            # one statement: it ends with `;` and nothing before its end does
            return lines == want and lines[-1].endswith(";") and not any(l.endswith(";") for l in lines[:-1])

        return C.Pred(holds, "<label>: entity <library>.<name>(<arch>) [generic map(...)] [port map(...)];  -- exactly one terminating `;`")

    return spec


def _inst_shape(n_generic, n_port, arch=("compiled", "arch_E", "arch_E")):
    kind, declared, written = arch

    def make(env):
        ent = SObj(VR.Entity, _name="E", _arch_name=declared, _path="work", _ports={f"p{i}": object() for i in range(n_port)}, _generics={}, _extern=kind == "extern",
                   _arch=None if kind == "extern" else SObj(VR.Architecture, f_written=written, f_requested=declared))
        return SObj(VR.EntityInst, _entity=ent, _ports={f"p{i}": object() for i in range(n_port)}, _generics={}, _scope=SObj(VhdlScope), f_g=n_generic, f_p=n_port)

    return Built([], make, lambda a: "None", lambda a: None)


for _m in ("ports", "extern", "architecture"):
    I.register_inline(VR.Entity.__dict__[_m])
I.register_inline(VR.EntityInst.__dict__["extern"])
ARCH_VARIANTS = [("compiled", "arch_E", "arch_E"), ("compiled", "signal", "signal1"), ("compiled", "arch_E", "arch_E1"), ("extern", "rtl", None), ("extern", None, None)]
con = contract(VRM + "EntityInst.write", PROPS)
for n_generic, n_port, arch in [(0, 0, ARCH_VARIANTS[0]), (0, 2, ARCH_VARIANTS[0]), (0, 1, ARCH_VARIANTS[0])] + [(0, 1, a) for a in ARCH_VARIANTS[1:]]:
    c = Case(f"{n_generic}-generics,{n_port}-ports" + ("" if arch is ARCH_VARIANTS[0] else f",{arch[0]}-entity,arch_name={arch[1]},written-as-{arch[2]}"), [_inst_shape(n_generic, n_port, arch)], inst_write_spec(n_generic, n_port, arch))
    c.native = False
    c.models = [
        (VR.Architecture.__dict__["arch_name"], lambda it, self: self.fields["f_written"]),
        (VR.Architecture.__dict__["name"], lambda it, self: self.fields["f_requested"]),  # the REQUESTED name (arch_name attribute / default)
        (VR.EntityInst.__dict__["_generic_map"], lambda it, self: []),
        (VR.EntityInst.__dict__["_port_map"], lambda it, self: (["port map("] + [f"p{i}" for i in range(self.fields["f_p"])] + [");"]) if self.fields["f_p"] else []),
        (VhdlScope.__dict__["format_value"], lambda it, self, obj, *a, **k: "<actual>"),
        (VhdlScope.__dict__["lookup_name"], lambda it, self, obj: "comp_e"),
    ]
    c.custom_replay = "contracts.c06_text.replay_no_ports" if arch is ARCH_VARIANTS[0] else "contracts.c06_text.replay_arch_name"
    con.cases.append(c)


_ARCH_NAME_DESIGN = '''
import re
from cohdl import Entity, Port, Bit, std
class Sub(Entity, attributes={"arch_name": "signal"}):      # a reserved word: the architecture body gets another name
    i = Port.input(Bit)
    q = Port.output(Bit)
    def architecture(self):
        @std.concurrent
        def logic():
            self.q <<= self.i
class Top(Entity):
    a = Port.input(Bit)
    o = Port.output(Bit)
    def architecture(self):
        Sub(i=self.a, q=self.o)
t = std.VhdlCompiler.to_string(Top)
written = re.search(r"architecture (\\w+) of Sub", t).group(1)
used = re.search(r"entity work\\.Sub\\((\\w+)\\)", t).group(1)
print("MISMATCH" if written != used else "MATCH", written, used)
'''


def replay_arch_name(payload):
    from contracts.c06_extra import _run_design

    rc, out = _run_design(_ARCH_NAME_DESIGN)
    return {"reproduced": rc == 0 and "MISMATCH" in out, "detail": out[-200:]}


_NO_PORTS_DESIGN = '''
from cohdl import Entity, Port, Bit, Signal, std
class NoPorts(Entity):
    def architecture(self):
        s = Signal[Bit](name="s")
        @std.concurrent
        def logic():
            s.next = ~s
class Top(Entity):
    a = Port.input(Bit)
    o = Port.output(Bit)
    def architecture(self):
        NoPorts()
        @std.concurrent
        def logic():
            self.o <<= self.a
t = std.VhdlCompiler.to_string(Top)
lines = [l.strip() for l in t.splitlines()]
i = lines.index("entity NoPorts is")
inst = [l for l in lines if l.startswith("comp_NoPorts")]
print("EMPTY-PORT-CLAUSE" if lines[i + 1].startswith("port") else "NO-PORT-CLAUSE", "UNTERMINATED" if not inst[0].endswith(";") else "TERMINATED")
'''


def replay_no_ports(payload):
    from contracts.c06_extra import _run_design

    rc, out = _run_design(_NO_PORTS_DESIGN)
    return {"reproduced": rc == 0 and ("EMPTY-PORT-CLAUSE" in out or "UNTERMINATED" in out), "detail": out[-300:]}


_TEXT_DESIGN = '''
import cohdl
from cohdl import Entity, Port, Bit, std
class E(Entity):
    a = Port.input(Bit)
    r = Port.output(Bit)
    def architecture(self):
        @std.sequential(comment="context comment\\nthird <= injected;")
        def text_proc():
            cohdl.comment("first line\\nsecond <= injected;")
            assert self.a, 'say "hi"'
            self.r <<= self.a
t = std.VhdlCompiler.to_string(E)
bad = [l.strip() for l in t.splitlines() if "injected" in l and not l.strip().startswith("--")]
bad += [l.strip() for l in t.splitlines() if "report" in l and l.count('"') % 2 == 0 and '"say ""hi"""' not in l]
print("ILLEGAL" if bad else "LEGAL", bad)
'''


def replay_text(payload):
    from contracts.c06_extra import _run_design

    rc, out = _run_design(_TEXT_DESIGN)
    return {"reproduced": rc == 0 and "ILLEGAL" in out, "detail": out[-400:]}


# C12 ("instantiating a sub-entity ... behaves identically to placing its logic inline"): the instantiation statement must name the
# architecture that is actually written for the entity
contract(VRM + "EntityInst.write", ("C12",))


# ---- headers of concurrent blocks / blocks: `-- CONCURRENT BLOCK (<name>)`, `-- Block (<name>)` --------------------------------
# the name is chosen by the user (cohdl.concurrent_context(fn, name=...), std.block(name=...)): a line break in it must not end the comment
def header_spec(prefix, name):
    def spec(sx, self):
        def holds(res):
            if not (isinstance(res, SObj) and issubclass(res.kind, TextBlock)):
                return False
            lines = [l for l in res.fields["_content"] if isinstance(l, str) and l.strip()]
            text = [l for l in lines if prefix in l or any(part in l for part in name.splitlines() if part)]
            return bool(lines) and all(l.startswith("--") and "\n" not in l and "\r" not in l for l in lines) and any(prefix in l for l in lines) and all(any(part in l for l in lines) for part in name.splitlines() if part)

        return C.Pred(holds, "every header line is a comment line, none contains a line break, the name is kept")

    return spec


for _qual, _cls, _prefix, _mk in (
    ("Concurrent.write", VR.Concurrent, "CONCURRENT BLOCK", lambda name: SObj(VR.Concurrent, _name=name, _attributes={}, _stmts=[], _scope=SObj(VhdlScope))),
    ("Block.write", VR.Block, "Block (", lambda name: SObj(VR.Block, _name=name, _attributes={}, _subblocks=[], _scope=SObj(VhdlScope))),
):
    _hc = contract(VRM + _qual, PROPS)
    for _name in ("logic", "first\nsecond <= injected;", "a\r\nb"):
        c = Case(f"name:{_name!r}", [Built([], (lambda n, mk: lambda env: mk(n))(_name, _mk), lambda a: "None", lambda a: None)], header_spec(_prefix, _name))
        c.native = False
        c.custom_replay = "contracts.c06_text.replay_block_name"
        _hc.cases.append(c)

_BLOCK_NAME_DESIGN = '''
import cohdl
from cohdl import Entity, Port, Bit, std
class BlockName(Entity):
    a = Port.input(Bit)
    o = Port.output(Bit)
    def architecture(self):
        def logic():
            self.o <<= self.a
        cohdl.concurrent_context(logic, name="first\\nsecond <= injected;")
t = std.VhdlCompiler.to_string(BlockName)
print("OUTSIDE-COMMENT" if any(l.strip().startswith("second <= injected") for l in t.splitlines()) else "INSIDE-COMMENT")
'''


def replay_block_name(payload):
    from contracts.c06_extra import _run_design

    rc, out = _run_design(_BLOCK_NAME_DESIGN)
    return {"reproduced": rc == 0 and "OUTSIDE-COMMENT" in out, "detail": "a context name with a line break in the header comment of its block: " + out[-60:]}
