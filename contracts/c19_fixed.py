"""C19 bounded stand-in: the REAL std.SFixed / std.UFixed arithmetic, resize,
constructors and equality executed on every raw value of every pair of formats
within a bound and compared with exact rational arithmetic (fractions.Fraction).

Reference (from the statement of C19):
  value(x)            = raw(x) * 2**right
  a + b, a - b, a * b : value(result) is exact; UFixed a - b wraps modulo 2**(left(result)+1)
  resize(l, r, round, overflow):
        q  = value / 2**r
        n  = floor(q)                       (TRUNCATE)
           = nearest integer, ties to even  (ROUND)
        n' = n wrapped into the raw range of [l:r]        (WRAP)
           = n clamped to the raw range of [l:r]          (SATURATE)   -- after rounding, so a
                                                                          rounding carry out of range saturates / wraps too
  T(v) for int / float / Signed / Unsigned / other format: value preserved when the constructor accepts v
  a == b  <=>  value(a) == value(b)
A rejection (AssertionError) is never counted as a wrong result.
"""

from __future__ import annotations

import itertools
import math
from fractions import Fraction

from cohdl import BitVector, Signed, Unsigned, std
from cohdl.std import FixedRoundStyle as RS, FixedOverflowStyle as OS


def _dec(x):
    return x._value if hasattr(x, "_value") and hasattr(x, "_root") else x


def raw_of(x):
    return _dec(x._val).to_int()


def fmt_of(x):
    return type(x).left(), type(x).right()


def value_of(x):
    return Fraction(raw_of(x)) * Fraction(2) ** type(x).right()


def formats(maxw, lo=-3, hi=3):
    return [(l, r) for l in range(lo, hi + 1) for r in range(lo, l + 1) if l - r + 1 <= maxw]


def raw_range(signed, l, r):
    w = l - r + 1
    return (-(2 ** (w - 1)), 2 ** (w - 1) - 1) if signed else (0, 2**w - 1)


def mk(signed, l, r, raw):
    w = l - r + 1
    if signed:
        return std.SFixed[l:r](raw=Signed[w](raw))
    return std.UFixed[l:r](raw=Unsigned[w](raw))


def ref_resize(signed, val: Fraction, l, r, rs, os):
    q = val / Fraction(2) ** r
    n = math.floor(q)
    if rs is RS.ROUND:
        frac = q - n
        if frac > Fraction(1, 2) or (frac == Fraction(1, 2) and n % 2 == 1):
            n += 1
    lo, hi = raw_range(signed, l, r)
    w = l - r + 1
    if os is OS.WRAP:
        n = (n - lo) % (2**w) + lo
    else:
        n = max(lo, min(hi, n))
    return n


STYLES = [(RS.TRUNCATE, OS.WRAP), (RS.ROUND, OS.WRAP), (RS.TRUNCATE, OS.SATURATE), (RS.ROUND, OS.SATURATE)]


class Acc:
    def __init__(self):
        self.n = 0
        self.fails = {}
        self.per = {}

    def ok(self, group):
        self.n += 1
        self.per[group] = self.per.get(group, 0) + 1

    def fail(self, group, key, what):
        self.n += 1
        self.per[group] = self.per.get(group, 0) + 1
        self.fails.setdefault((group, key), what)


def resize_key(signed, sl, sr, l, r, rs, os):
    """classify a failing resize by the branch of resize_fn it takes (stable finding key)"""
    parts = ["SFixed" if signed else "UFixed", rs.name, os.name]
    parts.append("narrow-left" if sl > l else "keep-left")
    parts.append("drop-fraction" if sr < r else "keep-fraction")
    return "/".join(parts)


def sweep_resize(acc, signed, maxw):
    fs = formats(maxw)
    for (sl, sr) in fs:
        lo, hi = raw_range(signed, sl, sr)
        xs = [mk(signed, sl, sr, raw) for raw in range(lo, hi + 1)]
        for (l, r) in fs:
            for rs, os in STYLES:
                grp = resize_key(signed, sl, sr, l, r, rs, os)
                for x, raw in zip(xs, range(lo, hi + 1)):
                    want = ref_resize(signed, Fraction(raw) * Fraction(2) ** sr, l, r, rs, os)
                    try:
                        y = x.resize(l, r, rs, os)
                        got = raw_of(y)
                        gf = fmt_of(y)
                    except AssertionError:
                        acc.ok("resize:" + grp)
                        continue
                    except Exception as e:
                        acc.fail("resize:" + grp, grp + "/crash", f"{type(x).__name__}[{sl}:{sr}](raw={raw}).resize({l},{r},{rs.name},{os.name}) raises {type(e).__name__}: {str(e)[:80]}")
                        continue
                    if gf != (l, r) or got != want:
                        acc.fail("resize:" + grp, grp, f"{'SFixed' if signed else 'UFixed'}[{sl}:{sr}](raw={raw}, value={float(Fraction(raw) * Fraction(2) ** sr)}).resize({l},{r},{rs.name},{os.name}) = raw {got} in [{gf[0]}:{gf[1]}], expected raw {want}")
                    else:
                        acc.ok("resize:" + grp)


def sweep_arith(acc, signed, maxw):
    fs = formats(maxw, -2, 2)
    name = "SFixed" if signed else "UFixed"
    for (al, ar), (bl, br) in itertools.product(fs, fs):
        alo, ahi = raw_range(signed, al, ar)
        blo, bhi = raw_range(signed, bl, br)
        bs = [mk(signed, bl, br, rb) for rb in range(blo, bhi + 1)]
        for ra in range(alo, ahi + 1):
            a = mk(signed, al, ar, ra)
            va = Fraction(ra) * Fraction(2) ** ar
            for b, rb in zip(bs, range(blo, bhi + 1)):
                vb = Fraction(rb) * Fraction(2) ** br
                for opn, op, want in (("add", lambda p, q: p + q, va + vb), ("sub", lambda p, q: p - q, va - vb), ("mul", lambda p, q: p * q, va * vb)):
                    grp = f"{opn}:{name}"
                    try:
                        y = op(a, b)
                    except AssertionError:
                        acc.ok(grp)
                        continue
                    if not isinstance(y, std.SFixed if signed else std.UFixed):
                        acc.fail(grp, grp + "/type", f"{name}[{al}:{ar}] {opn} {name}[{bl}:{br}] returns {type(y).__name__}")
                        continue
                    got = value_of(y)
                    if not signed and opn == "sub" and want < 0:
                        want = want % (Fraction(2) ** (type(y).left() + 1))
                    if got != want:
                        acc.fail(grp, grp, f"{name}[{al}:{ar}](raw={ra}) {opn} {name}[{bl}:{br}](raw={rb}) = {float(got)} in [{type(y).left()}:{type(y).right()}], exact result {float(want)}")
                    else:
                        acc.ok(grp)


def sweep_ctor(acc, signed, maxw):
    name = "SFixed" if signed else "UFixed"
    fs = formats(maxw)
    # wide formats: representable INTEGERS beyond 2**53 (not exactly representable as IEEE doubles)
    grp = f"ctor:{name}(wide int)"
    for (l, r, raws) in ((62, 0, (2**61 + 1, 2**55 + 3)), (60, 2, (2**54 + 1, 2**57 - 1)), (56, -2, (2**53 + 1,))):
        T = (std.SFixed if signed else std.UFixed)[l:r]
        for raw in raws:
            v = raw * 2**r if r >= 0 else Fraction(raw, 2**-r)
            if v.denominator != 1 if isinstance(v, Fraction) else False:
                continue
            try:
                x = T(int(v))
            except AssertionError:
                acc.fail(grp, grp + "/rejects-representable", f"{name}[{l}:{r}]({int(v)}) is rejected")
                continue
            if raw_of(x) != raw:
                acc.fail(grp, grp, f"{name}[{l}:{r}]({int(v)}) has raw value {raw_of(x)}, expected {raw} (difference {raw_of(x) - raw})")
            else:
                acc.ok(grp)
    for (l, r) in fs:
        T = (std.SFixed if signed else std.UFixed)[l:r]
        lo, hi = raw_range(signed, l, r)
        # ints and floats: every representable number and its neighbours
        for raw in range(lo - 1, hi + 2):
            v = Fraction(raw) * Fraction(2) ** r
            for arg in ([int(v)] if v.denominator == 1 else []) + [float(v)]:
                grp = f"ctor:{name}({type(arg).__name__})"
                try:
                    x = T(arg)
                except AssertionError:
                    if lo <= raw <= hi:
                        # "whenever it is representable": a representable number must be accepted
                        acc.fail(grp, grp + "/rejects-representable", f"{name}[{l}:{r}]({arg!r}) is rejected although raw {raw} is within [{lo}, {hi}]")
                    else:
                        acc.ok(grp)
                    continue
                if value_of(x) != v:
                    acc.fail(grp, grp, f"{name}[{l}:{r}]({arg!r}) represents {float(value_of(x))}")
                elif not (lo <= raw <= hi):
                    acc.fail(grp, grp + "/range", f"{name}[{l}:{r}]({arg!r}) accepted although outside the range")
                else:
                    acc.ok(grp)
                # equality with the number and with an equal / different fixed value
                if lo <= raw <= hi:
                    grp = f"eq:{name}"
                    try:
                        e1 = bool(x == arg)
                        e2 = bool(x == mk(signed, l, r, raw))
                        other = raw + 1 if raw < hi else raw - 1
                        e3 = bool(x == mk(signed, l, r, other)) if lo <= other <= hi else False
                    except AssertionError:
                        acc.ok(grp)
                        continue
                    if not e1 or not e2 or e3:
                        acc.fail(grp, grp, f"{name}[{l}:{r}](raw={raw}): == {arg!r} -> {e1}, == same raw -> {e2}, == different raw -> {e3}")
                    else:
                        acc.ok(grp)
                    # "equality compares represented numbers": a number that lies strictly BETWEEN two representable
                    # ones is equal to none of them (it must not be truncated to the format first)
                    for between in (v + Fraction(2) ** r / 2, v - Fraction(2) ** r / 4):
                        if not (Fraction(lo) * Fraction(2) ** r <= between <= Fraction(hi) * Fraction(2) ** r):
                            continue
                        grp2 = f"eq:{name}(non-representable number)"
                        try:
                            eb = bool(x == float(between))
                        except AssertionError:
                            acc.ok(grp2)
                            continue
                        if eb:
                            acc.fail(grp2, grp2, f"{name}[{l}:{r}](raw={raw}, value={float(v)}) == {float(between)} is True")
                        else:
                            acc.ok(grp2)
                        if between.denominator == 1:
                            # formats with a positive right index: integers that are not a multiple of 2**right are not
                            # representable either (the same number written as a Python int)
                            try:
                                ei = bool(x == int(between))
                            except AssertionError:
                                acc.ok(grp2)
                                continue
                            if ei:
                                acc.fail(grp2, grp2, f"{name}[{l}:{r}](raw={raw}, value={float(v)}) == {int(between)} (int) is True")
                            else:
                                acc.ok(grp2)
        # in-between floats (not representable): truncation toward zero of int(val / 2**exp) is what the code does;
        # the property only speaks about representable numbers -> not checked
        # Signed / Unsigned sources
        for sw in range(1, maxw + 1):
            for ssigned in ((True, False) if signed else (False,)):
                slo, shi = raw_range(ssigned, sw - 1, 0)
                for iv in range(slo, shi + 1):
                    src = (Signed if ssigned else Unsigned)[sw](iv)
                    grp = f"ctor:{name}({'Signed' if ssigned else 'Unsigned'})"
                    # the constructor's own preconditions: no fraction bits may be needed below 0 and the
                    # zero-extended source must fit (an Unsigned source needs one more bit in a signed target)
                    fits = r <= 0 and sw + (-r) <= (l - r + 1) - (1 if signed and not ssigned else 0)
                    try:
                        x = T(src)
                    except AssertionError as e:
                        if fits:
                            acc.fail(grp, grp + "/rejected", f"{name}[{l}:{r}]({'Signed' if ssigned else 'Unsigned'}[{sw}]({iv})) is rejected ({str(e)[:60]!r}) although {iv} is representable and the source fits")
                        else:
                            acc.ok(grp)
                        continue
                    except Exception as e:
                        acc.fail(grp, grp + "/crash", f"{name}[{l}:{r}]({'Signed' if ssigned else 'Unsigned'}[{sw}]({iv})) raises {type(e).__name__}: {str(e)[:80]}")
                        continue
                    if not isinstance(x, T) or not hasattr(x, "_val"):
                        acc.fail(grp, grp, f"{name}[{l}:{r}]({src}) did not construct a value")
                        continue
                    try:
                        got = value_of(x)
                    except Exception as e:
                        acc.fail(grp, grp + "/crash", f"{name}[{l}:{r}]({'Signed' if ssigned else 'Unsigned'}[{sw}]({iv})) holds an unusable raw value: {type(e).__name__}: {str(e)[:80]}")
                        continue
                    if got != iv:
                        acc.fail(grp, grp, f"{name}[{l}:{r}]({'Signed' if ssigned else 'Unsigned'}[{sw}]({iv})) represents {float(got)}")
                    else:
                        acc.ok(grp)
        # other formats of the same kind
        for (sl, sr) in fs:
            slo, shi = raw_range(signed, sl, sr)
            for raw in range(slo, shi + 1):
                src = mk(signed, sl, sr, raw)
                grp = f"ctor:{name}({name})"
                try:
                    x = T(src)
                except AssertionError as e:
                    if l >= sl and r <= sr:
                        # the constructor's own precondition (target covers the source format) holds
                        acc.fail(grp, grp + "/rejected", f"{name}[{l}:{r}]({name}[{sl}:{sr}](raw={raw})) is rejected ({str(e)[:60]!r}) although the target format covers the source format")
                    else:
                        acc.ok(grp)
                    continue
                except Exception as e:
                    acc.fail(grp, grp + "/crash", f"{name}[{l}:{r}]({name}[{sl}:{sr}](raw={raw})) raises {type(e).__name__}: {str(e)[:80]}")
                    continue
                if value_of(x) != value_of(src):
                    acc.fail(grp, grp, f"{name}[{l}:{r}]({name}[{sl}:{sr}](raw={raw}, value={float(value_of(src))})) represents {float(value_of(x))}")
                else:
                    acc.ok(grp)


def fixed_sweep(tier="quick", seed=0):
    maxw = 3 if tier == "quick" else 4
    acc = Acc()
    for signed in (True, False):
        sweep_resize(acc, signed, 5 if tier == "quick" else 7)  # quick: widths <= 5 (2 s); thorough: all 28 formats with indices in [-3,3]
        sweep_arith(acc, signed, 3 if tier == "quick" else 4)
        sweep_ctor(acc, signed, maxw)
    violations = []
    for (group, key), what in sorted(acc.fails.items()):
        oid = f"C19/fixed-sweep[{key}]#bounded"
        violations.append({
            "kind": "custom", "qual": "<C19 fixed point sweep>", "case": key, "oid": oid, "check": "fixed_sweep", "key": key,
            "assignment": {"branch": key}, "solver": {"what": what}, "reproduced": True,
            "replay_payload": {"property": "C19", "custom": "contracts.c19_fixed.replay", "key": key, "tier": tier, "obligation": oid, "verifier_output": what},
        })
    return {
        "evaluations": acc.n, "distinct": acc.n, "violations": violations, "samples": [{"group": g, "evaluations": c} for g, c in sorted(acc.per.items())][:6],
        "bounded": [{"function": "std.SFixed / std.UFixed " + g, "case": g, "evaluations": c, "exhaustive_within_bound": True, "bound": f"all formats with left,right in [-3,3], width <= {(5 if tier == 'quick' else 7) if g.startswith('resize') else maxw}, all raw values"} for g, c in sorted(acc.per.items())],
    }


def replay(payload):
    r = fixed_sweep(payload.get("tier", "quick"), 0)
    hit = [v for v in r["violations"] if v["key"] == payload["key"]]
    return {"reproduced": bool(hit), "detail": hit[0]["solver"] if hit else "no deviation from exact arithmetic within the bound"}
