"""C20: the write-request collector of the AXI4-Lite slave
(Axi4Light.await_write_request), proved from the real source with a sidecar
loop invariant -- one loop iteration is one clock.

Ghost history: in every clock the master presents (awvalid, awaddr, awprot) and
(wvalid, wdata, wstrb), all arbitrary.  A channel is 'taken' in the first clock
of the call in which its valid is seen; the ghost values fa/fp (address channel)
and fd/fs (data channel) are the payload of that clock.

Invariant at the loop head:
    addr_latched  ->  addr_buffer == fa  and  prot_buffer == fp
    data_latched  ->  data_buffer == fd  and  strb_buffer == fs
(each channel's buffers are frozen by ITS OWN latch, so the two channels may be
taken in different clocks, in either order).
Post: the loop is left exactly when both channels have been taken and the
returned request is (fa, fp, fd, fs); ready of a channel is driven low from the
clock after it was taken (ready' == not latched').
The valid/ready timing seen by the master over whole transactions is NOT decided here.
"""

from __future__ import annotations

import z3

import cohdl
from cohdl.std.axi.axi4_light import base as AX

from pyvc import contracts as C
from pyvc import interp as I
from pyvc import sym
from pyvc.contracts import Case, contract
from pyvc.values import SObj, SCls
from contracts.c05_format_cast import Built

PROPS = ("C20",)
QUAL = "cohdl.std.axi.axi4_light.base:Axi4Light.await_write_request"


class _Bit:
    """bit value / bit signal / bit variable: f_b (z3 Bool), signals also f_nxt"""


def bit(b, kind="value"):
    return SObj(_Bit, f_b=b, f_kind=kind, f_nxt=None)


def b_of(x):
    if isinstance(x, SObj) and x.kind is _Bit:
        return x.fields["f_b"]
    if isinstance(x, (bool, z3.BoolRef)):
        return x
    raise AssertionError(f"not a bit: {x!r}")


_Bit.__invert__ = lambda self: None
_Bit.__or__ = lambda self, o: None
_Bit.__and__ = lambda self, o: None
_Bit.__bool__ = lambda self: True
_Bit.__ilshift__ = lambda self, v: None
_Bit.__imatmul__ = lambda self, v: None
I.register_model(_Bit.__invert__, lambda it, self: bit(sym.Not(b_of(self))))
I.register_model(_Bit.__or__, lambda it, self, o: bit(sym.Or(b_of(self), b_of(o))))
I.register_model(_Bit.__and__, lambda it, self, o: bit(sym.And(b_of(self), b_of(o))))
I.register_model(_Bit.__bool__, lambda it, self: b_of(self))


def _sig_assign(it, self, v):
    self.fields["f_nxt"] = b_of(v)  # signal: visible from the next clock
    return self


def _var_assign(it, self, v):
    self.fields["f_b"] = b_of(v)  # variable: immediately
    return self


I.register_model(_Bit.__ilshift__, _sig_assign)
I.register_model(_Bit.__imatmul__, _var_assign)


class _Word:
    """payload signal: current value f_v"""


class _Buf:
    """local signal created with cohdl.Signal(source): holds the value sampled from the source"""


def _signal_call(it, args, kwargs):
    src = args[0]
    return SObj(_Buf, f_v=src.fields["f_v"])


def _variable_subscript(it, cls, key):
    return SCls(cohdl.Variable, wrapped=key)


def _variable_ctor(it, cls, *args, **kw):
    init = args[0] if args else False
    wrapped = cls.params.get("wrapped") if isinstance(cls, SCls) else None
    if wrapped is cohdl.Bit or isinstance(init, (bool, z3.BoolRef)) or (isinstance(init, SObj) and init.kind is _Bit):
        return bit(init if isinstance(init, (bool, z3.BoolRef)) else b_of(init), "variable")
    # a word variable (dispatch loops): holds an opaque value, Null is 0
    return SObj(_WVar, f_v=0 if init is cohdl.Null else init)


def _request(it, args, kwargs):
    return SObj(AX.Axi4Light._WriteRequest, addr=args[0], prot=args[1], data=args[2], strb=args[3])


def axi_shape():
    def make(env):
        wraddr = SObj(AX.Axi4Light.WrAddr, valid=bit(z3.Bool("awvalid_0"), "signal"), ready=bit(z3.Bool("awready_0"), "signal"), awaddr=SObj(_Word, f_v=z3.Int("awaddr_0")), awprot=SObj(_Word, f_v=z3.Int("awprot_0")))
        wrdata = SObj(AX.Axi4Light.WrData, valid=bit(z3.Bool("wvalid_0"), "signal"), ready=bit(z3.Bool("wready_0"), "signal"), wdata=SObj(_Word, f_v=z3.Int("wdata_0")), wstrb=SObj(_Word, f_v=z3.Int("wstrb_0")))
        return SObj(AX.Axi4Light, wraddr=wraddr, wrdata=wrdata)

    return Built([], make, lambda a: "<axi>", lambda a: None)


class CollectLoop(C.LoopSpec):
    """`while True:` of await_write_request; one iteration per clock"""

    def enter(self, it, frame, iterable):
        st = {"n": 0}
        it.collect = st
        for g in ("fa", "fp", "fd", "fs"):
            st[g] = z3.Int(g + "_ghost")
        return st

    def _bufs(self, frame):
        return {n: frame.locals.get(n) for n in ("addr_buffer", "prot_buffer", "data_buffer", "strb_buffer")}

    def invariant(self, it, frame, st):
        al, dl = b_of(frame.locals["addr_latched"]), b_of(frame.locals["data_latched"])
        b = self._bufs(frame)
        conds = []
        if st["n"] == 0:
            # on entry nothing has been taken
            return sym.And(sym.Not(al), sym.Not(dl))
        conds.append(z3.Implies(al, z3.And(b["addr_buffer"].fields["f_v"] == st["fa"], b["prot_buffer"].fields["f_v"] == st["fp"])))
        conds.append(z3.Implies(dl, z3.And(b["data_buffer"].fields["f_v"] == st["fd"], b["strb_buffer"].fields["f_v"] == st["fs"])))
        return sym.And(*conds)

    def havoc(self, it, frame, st):
        st["n"] += 1
        n = st["n"]
        # an arbitrary clock of the call: arbitrary latch state, arbitrary buffers, arbitrary inputs
        frame.locals["addr_latched"].fields["f_b"] = z3.Bool(f"addr_latched_{n}")
        frame.locals["data_latched"].fields["f_b"] = z3.Bool(f"data_latched_{n}")
        for name in ("addr_buffer", "prot_buffer", "data_buffer", "strb_buffer"):
            frame.locals[name] = SObj(_Buf, f_v=z3.Int(f"{name}_{n}"))
        s = frame.locals["self"].fields
        for chan, valid, words in (("wraddr", "awvalid", ("awaddr", "awprot")), ("wrdata", "wvalid", ("wdata", "wstrb"))):
            s[chan].fields["valid"].fields["f_b"] = z3.Bool(f"{valid}_{n}")
            for w in words:
                s[chan].fields[w].fields["f_v"] = z3.Int(f"{w}_{n}")
        st["al0"], st["dl0"] = frame.locals["addr_latched"].fields["f_b"], frame.locals["data_latched"].fields["f_b"]
        st["av"], st["dv"] = s["wraddr"].fields["valid"].fields["f_b"], s["wrdata"].fields["valid"].fields["f_b"]
        st["in"] = {w: s[c].fields[w].fields["f_v"] for c, ws in (("wraddr", ("awaddr", "awprot")), ("wrdata", ("wdata", "wstrb"))) for w in ws}

    def ghost_after(self, st):
        """the ghost payloads after this clock: a channel not yet taken takes this clock's payload when its valid is seen"""
        take_a = sym.And(sym.Not(st["al0"]), st["av"])
        take_d = sym.And(sym.Not(st["dl0"]), st["dv"])
        i = st["in"]
        return {"fa": sym.Ite(take_a, i["awaddr"], st["fa"]), "fp": sym.Ite(take_a, i["awprot"], st["fp"]), "fd": sym.Ite(take_d, i["wdata"], st["fd"]), "fs": sym.Ite(take_d, i["wstrb"], st["fs"])}

    def advance(self, it, frame, st):
        g = self.ghost_after(st)
        st.update(g)
        # the latches follow the valids
        it.ctx.prove(self.oid("latch.step"), sym.And(sym.eq(b_of(frame.locals["addr_latched"]), sym.Or(st["al0"], st["av"])), sym.eq(b_of(frame.locals["data_latched"]), sym.Or(st["dl0"], st["dv"]))), loop=self.key)


LOOP = CollectLoop("Axi4Light.await_write_request", 1, "C20", name=QUAL + "#loop1")


def request_spec(sx, self):
    it = sx.it
    real = sx.real_args[0]

    def holds(res):
        st = it.collect
        if not (isinstance(res, SObj) and res.kind is AX.Axi4Light._WriteRequest):
            return False
        g = LOOP.ghost_after(st)
        al1, dl1 = sym.Or(st["al0"], st["av"]), sym.Or(st["dl0"], st["dv"])
        f = res.fields
        conds = [al1, dl1]  # left only when both channels have been taken
        conds += [f["addr"].fields["f_v"] == sym.to_z3(g["fa"]), f["prot"].fields["f_v"] == sym.to_z3(g["fp"]), f["data"].fields["f_v"] == sym.to_z3(g["fd"]), f["strb"].fields["f_v"] == sym.to_z3(g["fs"])]
        # ready of each channel is withdrawn once the channel has been taken
        ra, rd = real.fields["wraddr"].fields["ready"].fields["f_nxt"], real.fields["wrdata"].fields["ready"].fields["f_nxt"]
        if ra is None or rd is None:
            return False
        conds += [sym.eq(ra, sym.Not(al1)), sym.eq(rd, sym.Not(dl1))]
        return sym.And(*conds)

    return C.Pred(holds, "request == payloads of the clocks in which the two channels were taken")


con = contract(QUAL, PROPS)
c = Case("any-timing", [axi_shape()], request_spec)
c.native = False
c.interp_flags = {"class_call_models": {cohdl.Signal: _signal_call, AX.Axi4Light._WriteRequest: _request}}
con.cases.append(c)

from cohdl._core._type_qualifier import TypeQualifier  # noqa: E402

I.SUBSCRIPT_MODELS[TypeQualifier] = _variable_subscript
I.CTOR_MODELS[TypeQualifier] = _variable_ctor


# =====================================================================================================================
# response side and request dispatch.  `await x` on a handshake signal is a clock boundary: execution continues in a
# clock in which x is high (await_hook); every signal assignment and every await is recorded in order.
# =====================================================================================================================
from cohdl.std import _core_utility as CU  # noqa: E402


class _TSig:
    """recorded signal: `<<=` appends (name, value) to the trace"""


_TSig.__ilshift__ = lambda self, v: None


def _tsig_assign(it, self, v):
    it.trace.append((self.fields["f_name"], v))
    return self


I.register_model(_TSig.__ilshift__, _tsig_assign)


def tsig(name):
    return SObj(_TSig, f_name=name)


def await_hook(it, v, node):
    if isinstance(v, SObj) and v.kind is _TSig:
        it.trace.append(("await", v.fields["f_name"]))
        return None
    return v  # awaiting the result of an (eagerly run) coroutine call


def resp_shape(which):
    def make(env):
        if which == "read":
            return SObj(AX.Axi4Light, rddata=SObj(AX.Axi4Light.RdData, rdata=tsig("rdata"), rresp=tsig("rresp"), valid=tsig("rvalid"), ready=tsig("rready")))
        if which == "write":
            return SObj(AX.Axi4Light, wrresp=SObj(AX.Axi4Light.WrResp, bresp=tsig("bresp"), valid=tsig("bvalid"), ready=tsig("bready")))
        return SObj(AX.Axi4Light, rdaddr=SObj(AX.Axi4Light.RdAddr, araddr="ARADDR", arprot="ARPROT", valid=tsig("arvalid"), ready=tsig("arready")))

    return Built([], make, lambda a: "<axi>", lambda a: None)


def trace_case(con, name, shapes, want_fn, result_fn=None):
    def spec(sx, self, *args):
        it = sx.it
        want = want_fn(*args)

        def holds(res):
            if it.trace != want:
                return False
            return result_fn(res) if result_fn else res is None

        return C.Pred(holds, f"trace == {want}")

    c = Case(name, shapes, spec)
    c.native = False
    c.interp_flags = {"await_hook": await_hook, "class_call_models": {AX.Axi4Light._ReadRequest: lambda it, args, kw: SObj(AX.Axi4Light._ReadRequest, addr=args[0], prot=args[1])}}

    def setup(it, ctx, args, env):
        it.trace = []

    c.setup = setup
    con.cases.append(c)


VAL = lambda tag: Built([], (lambda t: lambda env: t)(tag), lambda a: repr(tag), lambda a: None)

# valid goes up together with the payload and comes down only in a clock in which ready was seen; nothing else is driven
con = contract("cohdl.std.axi.axi4_light.base:Axi4Light.send_read_resp", PROPS)
trace_case(con, "data+resp", [resp_shape("read"), VAL("DATA"), VAL("RESP")], lambda d, r: [("rdata", d), ("rresp", r), ("rvalid", True), ("await", "rready"), ("rvalid", False)])
con = contract("cohdl.std.axi.axi4_light.base:Axi4Light.send_write_response", PROPS)
trace_case(con, "resp", [resp_shape("write"), VAL("RESP")], lambda r: [("bresp", r), ("bvalid", True), ("await", "bready"), ("bvalid", False)])
# ready is offered, withdrawn only after valid was seen, and the request is the payload of that clock
con = contract("cohdl.std.axi.axi4_light.base:Axi4Light.await_read_request", PROPS)
trace_case(con, "request", [resp_shape("request")], lambda: [("arready", True), ("await", "arvalid"), ("arready", False)],
           lambda res: isinstance(res, SObj) and res.fields.get("addr") == "ARADDR" and res.fields.get("prot") == "ARPROT")


# ---- dispatch: proc_read / proc_write of connect_addr_map ----------------------------------------------------------------
class _Reg:
    """register object of the flattened address map"""


_Reg._contains_addr_ = lambda self, a: None
_Reg._basic_read_ = lambda self, a, m: None
_Reg._basic_write_ = lambda self, a, d, mask, meta: None
I.register_model(_Reg._contains_addr_, lambda it, self, a: self.fields["f_contains"])
I.register_model(_Reg._basic_read_, lambda it, self, a, m: it.trace.append(("read", self.fields["f_idx"], a)) or SObj(_Buf, f_v=self.fields["f_value"]))
I.register_model(_Reg._basic_write_, lambda it, self, a, d, mask, meta: it.trace.append(("write", self.fields["f_idx"], a, d, mask)))


class _Bus:
    """the Axi4Light object as seen by the dispatch loops"""


_Bus.await_read_request = lambda self: None
_Bus.send_read_resp = lambda self, d: None
_Bus.await_write_request = lambda self: None
_Bus.send_write_response = lambda self: None


def _addr():
    a = SObj(cohdl.Signal, f_tag="addr")
    a.fields["unsigned"] = "ADDR.unsigned"
    return a


I.register_model(_Bus.await_read_request, lambda it, self: it.trace.append(("request",)) or SObj(AX.Axi4Light._ReadRequest, addr=_addr(), prot="PROT"))
I.register_model(_Bus.send_read_resp, lambda it, self, d: it.trace.append(("response", d.fields["f_v"] if isinstance(d, SObj) else d)))
I.register_model(_Bus.await_write_request, lambda it, self: it.trace.append(("request",)) or SObj(AX.Axi4Light._WriteRequest, addr=_addr(), prot="PROT", data="DATA", strb="STRB"))
I.register_model(_Bus.send_write_response, lambda it, self: it.trace.append(("response",)))


class _WVar:
    """cohdl.Variable holding a word"""


_WVar.__imatmul__ = lambda self, v: None


def _wvar_assign(it, self, v):
    self.fields["f_v"] = v.fields["f_v"] if isinstance(v, SObj) and "f_v" in v.fields else v
    return self


I.register_model(_WVar.__imatmul__, _wvar_assign)


class DispatchLoop(C.LoopSpec):
    """`while True:` of proc_read / proc_write: every iteration serves one request"""

    def __init__(self, func_name, ordinal, which, name):
        super().__init__(func_name, ordinal, "C20", name=name)
        self.which = which

    def enter(self, it, frame, iterable):
        return {}

    def havoc(self, it, frame, st):
        it.trace = []  # an arbitrary later iteration starts with an empty trace of its own

    def advance(self, it, frame, st):
        regs = it.regs
        # the first register whose range contains the address (ranges are disjoint: at most one does)
        hit = None
        for r in regs:
            if it.ctx.branch(r.fields["f_contains"]):
                hit = r
                break
        if self.which == "read":
            want = [("request",)] + ([("read", hit.fields["f_idx"], "ADDR.unsigned")] if hit is not None else []) + [("response", hit.fields["f_value"] if hit is not None else 0)]
            ok = it.trace == want
        else:
            t = it.trace
            ok = len(t) == (3 if hit is not None else 2) and t[0] == ("request",) and t[-1] == ("response",)
            if ok and hit is not None:
                w = t[1]
                ok = w[0] == "write" and w[1] == hit.fields["f_idx"] and w[2] == "ADDR.unsigned" and w[3] == "DATA" and isinstance(w[4], SObj) and w[4].fields.get("f_mask") == ("stretch", "STRB", 8)
        it.ctx.prove(self.oid("iteration"), ok, loop=self.key)


def _null_word(it, cls, *args, **kw):
    return SObj(_WVar, f_v=0 if (args and args[0] is cohdl.Null) else (args[0] if args else None))


def dispatch_case(which, k):
    fn_name = "proc_read" if which == "read" else "proc_write"
    qual = f"cohdl.std.axi.axi4_light.base:Axi4Light.connect_addr_map.<{fn_name}>"
    con = contract(qual, PROPS)
    con.custom_fn = AX.Axi4Light.__dict__["connect_addr_map"]
    con.nested = [fn_name]
    # the loop never exits: all obligations of these cases are the loop's (`iteration`)
    c = Case(f"{k}-registers", [], lambda sx: C.ANY)
    c.native = False
    c.loop_only = "#iteration"
    c.interp_flags = {"await_hook": await_hook, "class_call_models": {CU.Mask: lambda it, args, kw: SObj(CU.Mask, f_mask=args[0].fields["f_v"] if isinstance(args[0], SObj) else args[0])}}
    c.models = [(CU.as_awaitable, lambda it, fn, *args: it.call(fn, list(args), {})), (CU.stretch, lambda it, v, n: ("stretch", v, n))]

    def nested_env(it, k=k):
        it.trace = []
        it.regs = [SObj(_Reg, f_idx=i, f_contains=it.ctx.fresh_bool(f"contains_{i}"), f_value=f"VALUE{i}") for i in range(k)]
        return {"self": SObj(_Bus), "readable_regs": it.regs, "writable_regs": it.regs, "as_awaitable": CU.as_awaitable, "Mask": CU.Mask, "stretch": CU.stretch}

    c.nested_env = nested_env
    con.cases.append(c)


for _which, _fn in (("read", "proc_read"), ("write", "proc_write")):
    _q = f"cohdl.std.axi.axi4_light.base:Axi4Light.connect_addr_map.<{_fn}>"
    DispatchLoop(f"Axi4Light.connect_addr_map.<locals>.{_fn}", 1, _which, name=_q + "#loop1")
    for _k in range(0, 4):
        dispatch_case(_which, _k)

