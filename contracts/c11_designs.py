"""Design pool for the C11 history / hash-seed sweep (bounded stand-in).
Run as a script in a fresh interpreter:
    python c11_designs.py <history names, comma separated> <targets, comma separated>
prints one JSON object: {target: sha256 of the VHDL | "REJECTED: ..."}.
Every name is a function returning (EntityClass, compile kwargs)."""

import hashlib
import json
import sys

import cohdl
from cohdl import Bit, BitVector, Entity, Port, Signal, Unsigned, Variable, std


def v_comb():
    class Comb(Entity):
        a = Port.input(Bit)
        b = Port.input(Bit)
        o = Port.output(Bit)

        def architecture(self):
            @std.concurrent
            def logic():
                self.o <<= self.a & self.b

    return Comb, {}


def v_coroutine():
    class Coro(Entity):
        clk = Port.input(Bit)
        a = Port.input(Bit)
        o = Port.output(Bit)

        def architecture(self):
            @std.sequential(std.Clock(self.clk))
            async def proc():
                await self.a
                self.o <<= True
                await std.wait_for(2)
                self.o <<= False

    return Coro, {}


def v_prefix():
    class Pfx(Entity):
        clk = Port.input(Bit)
        a = Port.input(Bit)
        o = Port.output(Bit)

        def architecture(self):
            @std.sequential(std.Clock(self.clk))
            def proc():
                with std.prefix("pfx"):
                    loc = Signal[Bit](name=std.name("loc"))
                loc <<= self.a
                self.o <<= loc

    return Pfx, {}


def v_named():
    class Named(Entity):
        a = Port.input(Bit)
        o = Port.output(Bit)

        def architecture(self):
            level = Signal[Bit](name=std.name("level"))

            @std.concurrent(comment=None)
            def logic():
                level.next = self.a
                self.o <<= level

    return Named, {}


def v_reserved():
    """compiled with additional reserved names"""
    E, _ = v_named()
    return E, {"additional_reserved_names": {"level", "other"}}


def v_hier():
    class Leaf(Entity):
        i = Port.input(Bit)
        q = Port.output(Bit)

        def architecture(self):
            @std.concurrent
            def logic():
                self.q <<= ~self.i

    class LibA(Entity, extern=True, attributes={"path": "liba"}):
        i = Port.input(Bit)
        q = Port.output(Bit)

    class LibB(Entity, extern=True, attributes={"path": "libb"}):
        i = Port.input(Bit)
        q = Port.output(Bit)

    class LibC(Entity, extern=True, attributes={"path": "libc"}):
        i = Port.input(Bit)
        q = Port.output(Bit)

    class Hier(Entity):
        a = Port.input(Bit)
        o = Port.output(Bit)
        p = Port.output(Bit)
        q = Port.output(Bit)
        r = Port.output(Bit)

        def architecture(self):
            Leaf(i=self.a, q=self.o)
            LibA(i=self.a, q=self.p)
            LibB(i=self.a, q=self.q)
            LibC(i=self.a, q=self.r)

    return Hier, {}


def v_aliased_signal():
    class Aliased(Entity):
        a = Port.input(Bit)
        o = Port.output(Bit)

        def architecture(self):
            # one unnamed signal bound to several names that the context captures: the emitted name must not
            # depend on the iteration order of a set of strings
            first_name = Signal[Bit]()
            other_alias = first_name
            third = first_name
            zeta = first_name

            @std.concurrent
            def logic():
                first_name.next = self.a
                self.o <<= other_alias & third & zeta

    return Aliased, {}


_shared = {}


def _shared_base():
    """an entity class whose ports are inherited by a derived design"""
    if "base" not in _shared:
        class SharedBase(Entity):
            a = Port.input(Bit)
            o = Port.output(Bit, default=True)

            def architecture(self):
                @std.concurrent
                def logic():
                    self.o <<= self.a

        _shared["base"] = SharedBase
    return _shared["base"]


def v_base_port():
    return _shared_base(), {}


def v_derived_inst():
    Base = _shared_base()

    class DLeaf(Entity):
        i = Port.input(Bit)
        q = Port.output(Bit)

        def architecture(self):
            @std.concurrent
            def logic():
                self.q <<= self.i

    class DerivedInst(Base):
        def architecture(self):
            DLeaf(i=self.a, q=self.o)  # the inherited output port is driven by an instance

    return DerivedInst, {}


CONST_G = 1


def _read_const():
    return CONST_G


def _global_design(value):
    """one entity class whose context calls a module-level function reading a module global: the design is the entity
    together with the value the global has when it is compiled (`prepare` runs before every compilation)"""
    if "glob" not in _shared:
        class GlobalConst(Entity):
            o = Port.output(Unsigned[8])

            def architecture(self):
                @std.concurrent
                def logic():
                    self.o <<= _read_const()

        _shared["glob"] = GlobalConst

    def prepare():
        global CONST_G
        CONST_G = value

    return _shared["glob"], {"prepare": prepare}


def v_global_one():
    return _global_design(1)


def v_global_two():
    return _global_design(2)


ATTRS = {"zzz": 1}


def v_attrs_dict():
    """a context created with a comment AND an attributes dictionary that lives at module level: compiling the design must not
    write into the caller's dictionary (the second compilation of the identical design would find the comment already set)"""
    if "attrs" not in _shared:
        class AttrsDict(Entity):
            a = Port.input(Bit)
            o = Port.output(Bit)

            def architecture(self):
                @std.concurrent(comment="hello", attributes=ATTRS)
                def logic():
                    self.o <<= self.a

        _shared["attrs"] = AttrsDict
    return _shared["attrs"], {}


def v_port_value():
    """a sub-entity whose architecture reads the compile-time value of one of its ports (initial value of a signal): the port
    object belongs to the entity CLASS; connecting an instance must not leave the actual's value in it for the next compilation"""
    if "port_value" not in _shared:
        class PvInner(Entity):
            a = Port.input(BitVector[4])
            o = Port.output(BitVector[4])

            def architecture(self):
                s = Signal[BitVector[4]](self.a, name="s")

                @std.concurrent
                def logic():
                    s.next = self.a
                    self.o <<= s

        class PvTop(Entity):
            a = Port.input(BitVector[4])
            o = Port.output(BitVector[4])

            def architecture(self):
                k = Signal[BitVector[4]]("1010", name="k")
                PvInner(a=k, o=self.o)

        _shared["port_value"] = PvTop
    return _shared["port_value"], {}


def _axi_classes():
    """an AXI4-Lite register-map entity and a class DERIVED from it that adds a register: the address map generated for the base
    class must not be reused for the derived class (whichever is compiled first)"""
    if "axi" not in _shared:
        from cohdl.std.axi import axi4_light as axi
        from cohdl.std.reg import reg32

        class AxiBase(axi.addr_map_entity(addr_width=8)):
            r0: reg32.MemWord[0]

        class AxiDerived(AxiBase):
            r1: reg32.MemWord[4]

        _shared["axi"] = (AxiBase, AxiDerived)
    return _shared["axi"]


def v_axi_base():
    return _axi_classes()[0], {}


def v_axi_derived():
    return _axi_classes()[1], {}


def v_context_probe():
    """asks for the sequential context it is compiled in: none, whatever was compiled (or rejected) before"""
    class ContextProbe(Entity):
        a = Port.input(Bit)
        o = Port.output(Bit)

        def architecture(self):
            @std.concurrent
            def logic():
                if std.SequentialContext.current() is None:
                    self.o <<= self.a
                else:
                    self.o <<= ~self.a

    return ContextProbe, {}


def r_seqctx():
    """rejected inside the body of a SequentialContext"""
    class BadSeqCtx(Entity):
        clk = Port.input(Bit)
        a = Port.input(Bit)
        o = Port.output(Bit)

        def architecture(self):
            ctx = std.SequentialContext(std.Clock(self.clk))

            @ctx
            def proc():
                assert False, "rejected inside a sequential context"

    return BadSeqCtx, {}


def v_open_entity():
    class Sub(Entity):
        x = Port.input(Bit)
        y = Port.input(Bit)
        z = Port.output(Bit)
        w = Port.output(Bit)
        v = Port.output(Bit)

        def architecture(self):
            @std.concurrent
            def logic():
                self.z <<= self.x
                self.w <<= self.y
                self.v <<= self.y

    class OpenPorts(Entity):  # (`Open` is a reserved word: the design was emitted with inconsistent names until fix 53737f7)
        a = Port.input(Bit)
        o = Port.output(Bit)

        def architecture(self):
            # y, w and v stay unconnected: the connector declares signals for them
            std.ConnectedEntity[Sub](x=self.a, z=self.o)

    return OpenPorts, {}


def v_commented():
    class Commented(Entity):
        a = Port.input(Bit)
        o = Port.output(Bit)

        def architecture(self):
            @std.concurrent(comment="first context")
            def logic():
                self.o <<= self.a

    return Commented, {}


# ---- rejected designs: each aborts the compiler at a different point --------------------------
def r_statemachine():
    class BadCoro(Entity):
        clk = Port.input(Bit)
        a = Port.input(Bit)
        o = Port.output(Bit)

        def architecture(self):
            @std.sequential(std.Clock(self.clk))
            async def proc():
                while True:
                    if self.a:
                        continue
                    await self.a

    return BadCoro, {}


def r_context():
    class BadCtx(Entity):
        clk = Port.input(Bit)
        a = Port.input(Unsigned[8])
        o = Port.output(Unsigned[4])

        def architecture(self):
            @std.sequential(std.Clock(self.clk))
            def proc():
                self.o <<= self.a

    return BadCtx, {}


def r_prefix():
    class BadPfx(Entity):
        clk = Port.input(Bit)
        a = Port.input(Unsigned[8])
        o = Port.output(Unsigned[4])

        def architecture(self):
            @std.sequential(std.Clock(self.clk))
            def proc():
                with std.prefix("pre"):
                    self.o <<= self.a

    return BadPfx, {}


def r_architecture():
    class BadArch(Entity):
        a = Port.input(Bit)
        o = Port.output(Bit)

        def architecture(self):
            @std.concurrent
            def logic():
                self.o <<= self.a

            raise AssertionError("architecture rejected")

    return BadArch, {}


def r_drivers():
    class BadDrv(Entity):
        a = Port.input(Bit)
        o = Port.output(Bit)

        def architecture(self):
            @std.concurrent
            def l1():
                self.o <<= self.a

            @std.concurrent
            def l2():
                self.o <<= ~self.a

    return BadDrv, {}


VALID = ["v_comb", "v_coroutine", "v_prefix", "v_named", "v_reserved", "v_hier", "v_open_entity", "v_commented", "v_base_port", "v_derived_inst", "v_aliased_signal", "v_global_one", "v_global_two", "v_attrs_dict", "v_context_probe", "v_port_value", "v_axi_base", "v_axi_derived"]
REJECTED = ["r_statemachine", "r_context", "r_prefix", "r_architecture", "r_drivers", "r_seqctx"]
_cache = {}


def compile_one(name):
    # the same entity class is compiled again when a name repeats (compiling a design repeatedly)
    if name not in _cache:
        _cache[name] = globals()[name]()
    E, kw = _cache[name]
    kw = dict(kw)
    prepare = kw.pop("prepare", None)
    if prepare is not None:
        prepare()
    try:
        text = std.VhdlCompiler.to_string(E, **kw)
    except AssertionError as e:
        return "REJECTED: " + str(e).split("\n")[0][:80]
    except Exception as e:  # VisitException etc.
        return "REJECTED: " + type(e).__name__
    return hashlib.sha256(text.encode()).hexdigest()[:16]


if __name__ == "__main__":
    history = [h for h in sys.argv[1].split(",") if h]
    targets = [t for t in sys.argv[2].split(",") if t]
    hist_out = [compile_one(h) for h in history]
    print(json.dumps({"history": hist_out, "targets": {t: compile_one(t) for t in targets}}))
