"""C13 bounded stand-in: the REAL classes, built lazily in random orders of
first use in fresh interpreters: identity for equal parameters, the documented
subclass lattice, and no relation between unrelated widths / kinds.
Also Array[T, n] canonicity (the _MetaArray cache)."""

from __future__ import annotations

import json
import os
import subprocess
import sys

from pyvc import REPO

SCRIPT = r'''from __future__ import annotations
import sys, random, json, itertools
seed, wmax = int(sys.argv[1]), int(sys.argv[2])
rng = random.Random(seed)
import cohdl
from cohdl import BitVector, Unsigned, Signed, Bit, Signal, Variable, Temporary, Port, Array, Integer
from cohdl._core._boolean import _Boolean
D = Port.Direction
kinds = {"BitVector": BitVector, "Unsigned": Unsigned, "Signed": Signed}
quals = {"Signal": Signal, "Variable": Variable, "Temporary": Temporary}
reqs = []
for k in kinds:
    for w in range(1, wmax + 1):
        reqs.append(("prim", k, w))
        for q in quals:
            reqs.append(("q", q, k, w))
        for d in D:
            reqs.append(("port", k, w, d.name))
    for q in quals:
        reqs.append(("qk", q, k))
for q in quals:
    for t in ("bool", "int", "Bit"):
        reqs.append(("qt", q, t))
for n in (1, 2, 3):
    for k in kinds:
        reqs.append(("arr", k, 2, n))
# indexing an ALREADY parametrised qualifier (Variable[Bit][bool]): rejected, or the canonical class -- never a class that is
# registered as Variable[bool] with Variable[Bit] among its bases (depends on what was created first)
for q in quals:
    for t1, t2 in (("Bit", "bool"), ("bool", "int"), ("int", "Bit")):
        reqs.append(("requal", q, t1, t2))
rng.shuffle(reqs)
T = {"bool": bool, "int": int, "Bit": Bit}
def build(r):
    if r[0] == "prim": return kinds[r[1]][r[2]]
    if r[0] == "q": return quals[r[1]][kinds[r[2]][r[3]]]
    if r[0] == "port": return Port[kinds[r[1]][r[2]], D[r[3]]]
    if r[0] == "qk": return quals[r[1]][kinds[r[2]]]
    if r[0] == "qt": return quals[r[1]][T[r[2]]]
    if r[0] == "arr": return Array[kinds[r[1]][r[2]], r[3]]
    if r[0] == "requal":
        try:
            return quals[r[1]][T[r[2]]][T[r[3]]]
        except (AssertionError, TypeError):
            return "rejected"
first = {r: build(r) for r in reqs}
bad = []
n = 0
rng.shuffle(reqs)
for r in reqs:
    n += 1
    if build(r) is not first[r]:
        bad.append(("not-canonical", r))
# bool/int aliases
for q in quals.values():
    n += 2
    if q[bool] is not q[_Boolean]: bad.append(("bool-alias", q.__name__))
    if q[int] is not q[Integer]: bad.append(("int-alias", q.__name__))
# unrelated wrapped types are unrelated classes, whatever was requested (or attempted) first
for qn, q in quals.items():
    for t1, t2 in itertools.permutations(T, 2):
        n += 1
        if issubclass(q[T[t1]], q[T[t2]]): bad.append(("unrelated-types-related", str(q[T[t1]]), str(q[T[t2]])))
    for t1, t2 in (("Bit", "bool"), ("bool", "int"), ("int", "Bit")):
        got = first[("requal", qn, t1, t2)]
        n += 1
        if got != "rejected" and got is not q[T[t2]]: bad.append(("reparametrised-not-canonical", qn, t1, t2))
# BitVector[n] == BitVector[n-1:0]
for k in kinds.values():
    for w in range(2, wmax + 1):  # [0:0] is ambiguous (declared ascending), not covered by the statement
        n += 1
        if k[w] is not k[w-1:0]: bad.append(("slice-form", k.__name__, w))
# lattice
allq = dict(quals)
for q in quals.values():
    for w in range(1, wmax + 1):
        for kn, k in kinds.items():
            c = q[k[w]]
            sup = [q[BitVector[w]], q[BitVector]] + ([q[k]] if k is not BitVector else [])
            for s in sup:
                n += 1
                if not issubclass(c, s): bad.append(("missing-subclass", str(c), str(s)))
            for w2 in range(1, wmax + 1):
                for k2n, k2 in kinds.items():
                    o = q[k2[w2]]
                    n += 1
                    expect = (w2 == w) and (k2 is k or k2 is BitVector)
                    if issubclass(c, o) != expect: bad.append(("lattice", str(c), str(o), expect))
            for q2 in quals.values():
                if q2 is not q:
                    n += 1
                    if issubclass(c, q2[k[w]]): bad.append(("qualifier-cross", str(c), q2.__name__))
for w in range(1, wmax + 1):
    for kn, k in kinds.items():
        for d in D:
            p = Port[k[w], d]
            n += 3
            if not issubclass(p, Signal[k[w]]): bad.append(("port-not-signal", str(p)))
            if not issubclass(p, Port[BitVector[w], d]): bad.append(("port-bv", str(p)))
            if k is not BitVector and not issubclass(p, Port[k, d]): bad.append(("port-kind", str(p)))
            for k2 in kinds.values():
                if k2 is not k and k2 is not BitVector:
                    n += 1
                    if issubclass(p, Port[k2, d]) or issubclass(p, Signal[k2]): bad.append(("port-wrong-kind", str(p), k2.__name__))
            for d2 in D:
                if d2 is not d:
                    n += 1
                    if issubclass(p, Port[k[w], d2]): bad.append(("port-direction-cross", str(p), d2.name))
# templated std types: a specialisation that FAILS (here: a field of width 0) leaves nothing in the template cache -- asking
# again fails again instead of handing out the half-built class; successful specialisations are canonical
from cohdl import std
class _TW(int): pass
class _TRec(std.Record[_TW]):
    a: Bit
    b: BitVector[_TW]
outcomes = []
for attempt in range(2):
    try:
        c = _TRec[0]
        outcomes.append("class with fields " + str(sorted(getattr(c, "_cohdlstd_record_annotations", {}))))
    except AssertionError:
        outcomes.append("rejected")
n += 2
if outcomes[0] != outcomes[1]: bad.append(("failed-specialisation-cached", outcomes))
if _TRec[2] is not _TRec[2] or _TRec[2] is _TRec[3]: bad.append(("template-not-canonical",))
print(json.dumps({"checks": n, "bad": bad[:5], "requests": len(reqs)}))
'''


def lattice_sweep(tier="quick", seed=0):
    orders = 12 if tier == "quick" else 120
    wmax = 5 if tier == "quick" else 8
    env = dict(os.environ)
    env["PYTHONPATH"] = REPO
    total = 0
    viol = []
    samples = []
    procs = []
    for i in range(orders):
        procs.append(subprocess.Popen([sys.executable, "-c", SCRIPT, str(seed * 1000 + i), str(wmax)], env=env, stdout=subprocess.PIPE, stderr=subprocess.PIPE, text=True))
        if len(procs) >= 12 or i == orders - 1:
            for j, p in enumerate(procs):
                out, err = p.communicate(timeout=600)
                try:
                    r = json.loads(out.strip().split("\n")[-1])
                except Exception:
                    return {"problems": [f"lattice sweep crashed: {err[-400:]}"]}
                total += r["checks"]
                if r["bad"] and not viol:
                    viol.append({"kind": "custom", "qual": "<C13 lattice sweep>", "case": f"order-{i}", "oid": "C13/lattice-sweep#bounded", "assignment": {"order_seed": seed * 1000 + i, "wmax": wmax},
                                 "solver": {"bad": r["bad"]}, "reproduced": True,
                                 "replay_payload": {"property": "C13", "custom": "contracts.c13_extra.replay", "order_seed": seed * 1000 + i, "wmax": wmax, "obligation": "C13/lattice-sweep#bounded", "verifier_output": r["bad"]}})
                if len(samples) < 2:
                    samples.append({"creation_order_seed": seed * 1000 + i, "checks": r["checks"], "lazy_requests": r["requests"]})
            procs = []
    return {
        "evaluations": total,
        "distinct": orders,
        "violations": viol,
        "samples": samples,
        "bounded": [{"function": "real lazily created classes (issubclass / identity sweep)", "case": "random creation orders in fresh interpreters", "evaluations": total, "exhaustive_within_bound": True,
                     "bound": f"kinds BitVector/Unsigned/Signed x widths 1..{wmax} x Signal/Variable/Temporary/Port x 3 directions, {orders} seeded creation orders"}],
    }


def replay(payload):
    env = dict(os.environ)
    env["PYTHONPATH"] = REPO
    p = subprocess.run([sys.executable, "-c", SCRIPT, str(payload["order_seed"]), str(payload["wmax"])], env=env, capture_output=True, text=True)
    try:
        r = json.loads(p.stdout.strip().split("\n")[-1])
    except Exception:
        return {"reproduced": False, "detail": p.stderr[-300:]}
    return {"reproduced": bool(r["bad"]), "detail": r["bad"]}
