"""C03: PrepareAst.convert_intrinsic, branch `_IntrinsicDeclaration` (a Signal / Variable constructed inside a context).

`s = Signal[T](value)` inside a sequential context: later reads of `s` in the same activation must see `value`
(the object did not exist before), so the front end binds a temporary alias that is assigned immediately and
redirects reads to it (SignalAlias), in addition to the deferred signal assignment.  With `delayed_init=True` the
user asks for the plain hardware semantics instead: `s` is assigned like `s <<= value`, reads in the same
activation still see the old value -- NO alias may be generated.  Variables and concurrent contexts never get
an alias.  Contract: the bound statements of the produced Value, for every combination of
(Signal | Variable) x (sequential | concurrent) x delayed_init x (with | without initial value).
"""

from __future__ import annotations

import itertools

from cohdl._core import _intrinsic as INTR
from cohdl._core import _intrinsic_operations as intr_op
from cohdl._core._type_qualifier import Signal, Variable, Temporary
from cohdl._core._context import ContextType
from cohdl._compiler.frontend import _prepare_ast_out as OUT
from cohdl._core._intrinsic_operations import AssignMode

from pyvc import contracts as C
from pyvc import interp as I
from pyvc.contracts import Case, contract
from pyvc.values import SObj
from contracts.c05_format_cast import Built
from contracts.c02_frontend import _Prep, _Repl

PROPS = ("C03",)
PA = "cohdl._compiler.frontend._prepare_ast"


def _decl_marker(*a, **k):
    pass


def _decl_fn(*a, **k):
    """the replacement of Signal.__init__ / Variable.__init__: returns the declaration record"""


I.register_model(_decl_fn, lambda it, *a, **k: it.decl_result)


def _mk_temp(**kw):
    pass


I.register_model(_mk_temp, lambda it, **kw: SObj(Temporary, f_kw=dict(kw)))


def decl_spec(qual, context, delayed, with_value):
    def spec(sx, self, fn, args, kwargs):
        it = sx.it

        def holds(res):
            d = it.decl_result
            new_obj, value = d.fields["new_obj"], d.fields["assigned_value"]
            if not (isinstance(res, SObj) and res.kind is OUT.Value and res.fields["f_value"] is new_obj):
                return False
            bound = res.fields["f_bound"]

            def is_assign(s, target, src):
                return isinstance(s, SObj) and s.kind is OUT.Assign and s.fields["f_target"] is target and s.fields["f_source"] is src and s.fields["f_mode"] is AssignMode.AUTO

            if not with_value:
                return bound == []
            want_alias = qual is Signal and context is ContextType.SEQUENTIAL and not delayed
            if not want_alias:
                return len(bound) == 1 and is_assign(bound[0], new_obj, value)
            if len(bound) != 3:
                return False
            a0, al, a1 = bound
            if not (isinstance(a0, SObj) and a0.kind is OUT.Assign):
                return False
            alias = a0.fields["f_target"]
            if not (isinstance(alias, SObj) and alias.kind is Temporary and alias.fields["f_kw"].get("maybe_uninitialized") is new_obj.fields["_maybe_uninitialized"]):
                return False
            if not (isinstance(al, SObj) and al.kind is OUT.SignalAlias and al.fields["f_signal"] is new_obj and al.fields["f_alias"] is alias):
                return False
            return is_assign(a0, alias, value) and is_assign(a1, new_obj, value)

        return C.Pred(holds, "alias temporary exactly for a non-delayed Signal in a sequential context; one assignment otherwise")

    return spec


con = contract(PA + ":PrepareAst.convert_intrinsic", PROPS)
for qual, context, delayed, with_value in itertools.product((Signal, Variable), (ContextType.SEQUENTIAL, ContextType.CONCURRENT), (False, True), (True, False)):
    SELF = Built([], (lambda cx: lambda env: SObj(_Prep, _context=cx))(context), lambda a: "<self>", lambda a: None)
    FN = Built([], lambda env: _decl_marker, lambda a: "<fn>", lambda a: None)
    ARGS = Built([], lambda env: [], lambda a: "[]", lambda a: None)
    KW = Built([], lambda env: {}, lambda a: "{}", lambda a: None)
    c = Case(f"declaration:{qual.__name__},{context.name},delayed_init={delayed},{'value' if with_value else 'no-value'}", [SELF, FN, ARGS, KW], decl_spec(qual, context, delayed, with_value))
    c.native = False

    def setup(it, ctx, args, env, qual=qual, delayed=delayed, with_value=with_value):
        repl = SObj(_Repl, is_special_case=True, evaluate=False, assignment_spec=None)
        repl.fields["fn"] = _decl_fn
        ctx.global_overlay[(PA, "_intrinsic_replacements")] = {_decl_marker: repl}
        ctx.global_overlay[(PA, "Temporary")] = {"T": _mk_temp}
        new_obj = SObj(qual, type="T", _name="s", _maybe_uninitialized=False, _ref_spec=[])
        value = SObj(Signal, type="T", _name="v", _ref_spec=[]) if with_value else None
        it.decl_result = SObj(intr_op._IntrinsicDeclaration, new_obj=new_obj, assigned_value=value, delayed_init=delayed)

    c.setup = setup
    c.models = [(INTR._has_intrinsic_replacement, lambda it, fn: True)]
    c.interp_flags = {"class_call_models": {
        OUT.Value: lambda it, args, kw: SObj(OUT.Value, f_value=args[0], f_bound=args[1]),
        OUT.Assign: lambda it, args, kw: SObj(OUT.Assign, f_target=args[0], f_source=args[1], f_mode=args[2], f_bound=args[3]),
        OUT.SignalAlias: lambda it, args, kw: SObj(OUT.SignalAlias, f_signal=args[0], f_alias=args[1], f_bound=args[2]),
    }}
    con.cases.append(c)


# ---- branch `_IntrinsicInlineEntity`: an entity instantiated inside a context (C12) ---------------------------------------------
# An instance is a concurrent statement: it is registered in the enclosing BLOCK (Entity.__init__), whatever surrounds the call.
# Inside a concurrent context (or an always expression, which is evaluated as one) that is what the call means; inside a
# SEQUENTIAL context the surrounding clock edge and conditions would be lost silently (`if self.en: Sub(...)` instantiates
# Sub unconditionally) -- instantiating there is rejected.
from cohdl._core._intrinsic import _IntrinsicInlineEntity  # noqa: E402

INLINE_PROPS = ("C12",)


def inline_spec(context):
    def spec(sx, self, fn, args, kwargs):
        if context is not ContextType.CONCURRENT:
            sx.reject(AssertionError)
        return C.Pred(lambda res: isinstance(res, SObj) and res.kind is OUT.Value and res.fields["f_value"] is None and res.fields["f_bound"] == [], "no statement: the instance lives in the block")

    return spec


con = contract(PA + ":PrepareAst.convert_intrinsic", INLINE_PROPS)
for context in (ContextType.CONCURRENT, ContextType.SEQUENTIAL):
    SELF = Built([], (lambda cx: lambda env: SObj(_Prep, _context=cx))(context), lambda a: "<self>", lambda a: None)
    FN = Built([], lambda env: _decl_marker, lambda a: "<fn>", lambda a: None)
    c = Case(f"inline-entity:{context.name}", [SELF, FN, Built([], lambda env: [], lambda a: "[]", lambda a: None), Built([], lambda env: {}, lambda a: "{}", lambda a: None)], inline_spec(context))
    c.native = False
    c.props = INLINE_PROPS

    def _inline_setup(it, ctx, args, env):
        repl = SObj(_Repl, is_special_case=True, evaluate=False, assignment_spec=None)
        repl.fields["fn"] = _decl_fn
        ctx.global_overlay[(PA, "_intrinsic_replacements")] = {_decl_marker: repl}
        it.decl_result = SObj(_IntrinsicInlineEntity, entity="<instance>")

    c.setup = _inline_setup
    c.models = [(INTR._has_intrinsic_replacement, lambda it, fn: True)]
    c.interp_flags = {"class_call_models": {OUT.Value: lambda it, args, kw: SObj(OUT.Value, f_value=args[0], f_bound=args[1])}}
    c.custom_replay = "contracts.c03_decl.replay_instance_in_sequential"
    con.cases.append(c)

_INSTANCE_IN_SEQ = '''
from cohdl import Entity, Port, Bit, std
class Sub(Entity):
    i = Port.input(Bit)
    q = Port.output(Bit)
    def architecture(self):
        @std.concurrent
        def logic():
            self.q <<= self.i
class Top(Entity):
    clk = Port.input(Bit)
    en = Port.input(Bit)
    a = Port.input(Bit)
    o = Port.output(Bit)
    def architecture(self):
        @std.sequential(std.Clock(self.clk))
        def proc():
            if self.en:
                Sub(i=self.a, q=self.o)      # neither clocked nor guarded once it is an instance
try:
    t = std.VhdlCompiler.to_string(Top)
    print("ACCEPTED", "entity work.Sub" in t)
except AssertionError as e:
    print("REJECTED", str(e)[:80])
'''


def replay_instance_in_sequential(payload):
    from contracts.c06_extra import _run_design

    rc, out = _run_design(_INSTANCE_IN_SEQ)
    return {"reproduced": rc == 0 and "ACCEPTED True" in out, "detail": out[-300:]}
