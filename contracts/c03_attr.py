"""C03: assignments to attributes (PrepareAst.apply_impl, ast.Attribute branch with Store context) -- `<expr>.attr <<= v`,
`<expr>.attr = v` (property / descriptor), `<expr>.next = v` ...

The object expression `<expr>` is evaluated first; the statements bound to it (the inlined body of a helper such as
`next_slot().data <<= x`: variable updates, signal assignments) take effect in program order, i.e. they must be ATTACHED to the
statement this branch produces -- in every one of its four forms:

    instance attribute, augmented            -> _do_aug_assign(op, current value, v, bound=[<expr>])
    class attribute (no descriptor), augm.   -> the same
    property / descriptor, plain `=`         -> the traced call of the setter, with <expr> bound to it
    property / descriptor, augmented         -> getter, augmented assignment, setter: <expr> and the assignment bound to the result
"""

from __future__ import annotations

import ast

from cohdl._compiler.frontend import _prepare_ast as PA

from pyvc import contracts as C
from pyvc import interp as I
from pyvc.contracts import Case, contract
from pyvc.values import SObj, Opaque
from contracts.c05_format_cast import Built
from contracts.c02_frontend import _Expr, _Prep
from contracts import c10_frontend as _F  # noqa: F401  (defines the _Prep.apply stand-in)
from contracts import c03_match as _M  # noqa: F401  (registers the models of _Expr)
from contracts.c10_subset import NATIVE_TRAITS

PROPS = ("C03",)


class _Holder:
    shared = "CLASS-ATTRIBUTE"

    def __init__(self):
        self.data = "INSTANCE-ATTRIBUTE"
        self._p = "PROPERTY-VALUE"

    @property
    def prop(self):
        return self._p

    @prop.setter
    def prop(self, v):
        self._p = v


class _Stack:
    """stand-in of the module's _return_stack: top() is the right-hand side of the assignment being translated"""


_Stack.top = lambda self: None
I.register_model(_Stack.top, lambda it, self: it.rhs)
_Prep._do_aug_assign = lambda self, aug, target, value, bound=None: None


def _do_aug(it, self, aug, target, value, bound=None):
    e = SObj(_Expr, f_result=target, f_bound=list(bound or []), f_tag="aug-assign", f_args=(aug, target, value))
    it.produced.append(e)
    return e


def _subcall(it, self, fn, args, kwargs, noreturn=None):
    e = SObj(_Expr, f_result="result of " + getattr(fn, "__name__", str(fn)), f_bound=[], f_tag="call", f_fn=fn, f_args=list(args))
    it.produced.append(e)
    return e


FORMS = {
    "instance-attribute,augmented": ("data", True),
    "class-attribute,augmented": ("shared", True),
    "property,plain": ("prop", False),
    "property,augmented": ("prop", True),
}


def attr_spec(attr, aug):
    def spec(sx, self, inp):
        it = sx.it

        def holds(res):
            if not (isinstance(res, SObj) and res.kind is _Expr):
                return False
            bound = res.fields.get("f_bound", [])
            if not any(b is it.object_expr for b in bound):
                return False  # the statements bound to the object expression are lost
            if attr != "prop":
                return res.fields["f_tag"] == "aug-assign" and res.fields["f_args"][0] == "AUG-OP" and res.fields["f_args"][2] == "RHS-VALUE"
            calls = [p for p in it.produced if p.fields["f_tag"] == "call"]
            if not aug:
                return res is calls[-1] and len(calls) == 1 and calls[0].fields["f_args"] == [it.holder, "RHS-VALUE"]
            augs = [p for p in it.produced if p.fields["f_tag"] == "aug-assign"]
            return len(calls) == 2 and len(augs) == 1 and res is calls[1] and any(b is augs[0] for b in bound) and calls[1].fields["f_args"][0] is it.holder

        return C.Pred(holds, "the produced statement carries the statements bound to the object expression")

    return spec


con = contract("cohdl._compiler.frontend._prepare_ast:PrepareAst.apply_impl", PROPS)
for name, (attr, aug) in FORMS.items():
    node = ast.Attribute(value=ast.Name(id="obj", ctx=ast.Load()), attr=attr, ctx=ast.Store())
    c = Case(f"attribute-store:{name}", [Built([], lambda env: SObj(_Prep, _last_apply_inp=None, _context=PA.ContextType.SEQUENTIAL), lambda a: "<self>", lambda a: None),
                                         Built([], (lambda n: lambda env: n)(node), lambda a: "<attribute>", lambda a: None)], attr_spec(attr, aug))
    c.native = False

    def _apply(it, self, n):
        return it.object_expr

    c.models = NATIVE_TRAITS + [(_Prep.apply, _apply), (_Prep.subcall, _subcall), (_Prep._do_aug_assign, _do_aug)]

    def _setup(it, ctx, args, env, aug=aug):
        it.holder = _Holder()
        it.object_expr = SObj(_Expr, f_result=it.holder, f_bound=["<statements bound to the object expression>"])
        it.rhs = SObj(_Stack, aug_assign="AUG-OP" if aug else None, value="RHS-VALUE")
        it.produced = []
        ctx.global_overlay[(PA.__name__, "_return_stack")] = SObj(_Stack)

    c.setup = _setup
    c.custom_replay = "contracts.c03_attr.replay_attribute_store"
    con.cases.append(c)


_ATTR_DESIGN = '''
from cohdl import Entity, Port, Bit, Unsigned, Variable, Signal, std
class AttrStore(Entity):
    clk = Port.input(Bit)
    x = Port.input(Unsigned[4])
    o = Port.output(Unsigned[4], default=0)
    p = Port.output(Unsigned[4], default=0)
    def architecture(self):
        v = Variable[Unsigned[4]](0)
        w = Variable[Unsigned[4]](0)
        class Slot:
            def __init__(s):
                s.data = self.o
        slot = Slot()
        def next_slot():
            nonlocal v
            v @= v + 1
            return slot
        def bump():
            nonlocal w
            w @= w + 1
            return self.p
        @std.sequential(std.Clock(self.clk))
        def proc():
            next_slot().data <<= self.x
            bump().next = self.x
t = std.VhdlCompiler.to_string(AttrStore)
print("V-INCREMENTS", t.count("(v) + (1)"), "W-INCREMENTS", t.count("(w) + (1)"))
'''


def replay_attribute_store(payload):
    from contracts.c06_extra import _run_design

    rc, out = _run_design(_ATTR_DESIGN)
    return {"reproduced": rc == 0 and "V-INCREMENTS 1 W-INCREMENTS 1" not in out,
            "detail": "`next_slot().data <<= x` and `bump().next = x` with helpers that increment a variable: " + out[-60:]}
