"""C12 / C08: an intermediate that is the ACTUAL of an instance port stays driven.

`Leaf(a=self.x[7:4] & self.x[3:0], y=self.y)` inside a concurrent context: the expression is computed into a
compiler-generated intermediate (a signal of the architecture) and the instance's port map reads it.  The
unused-temporary cleanup of the context sees no reader INSIDE the context; it must nevertheless keep the assignment,
otherwise the instance input is undriven and the design no longer behaves like the inlined sub-entity.

Contract on the real ConvertInstance.apply (entity template -> ir.EntityTemplate), whole scenario:
  template with one instance of a (cached) leaf template and one concurrent context that assigns intermediate T
    * T is connected to a port of the instance      -> the assignment to T is still in the converted context
    * T is not connected (a signal is)              -> the assignment is removed as before (cleanup still works)
    * T connected, context attribute cleanup_unused=False -> kept (trivially)
"""

from __future__ import annotations

from cohdl import Temporary, Signal
from cohdl._core._ir import _repr as ir
from cohdl._core._ir._repr import AccessFlags
from cohdl._compiler.frontend import _generate_ir as GI
from cohdl._compiler.frontend import _prepare_ast_out as OUT

from pyvc import contracts as C
from pyvc import interp as I
from pyvc.contracts import Case, contract
from pyvc.values import SObj
from contracts.c05_format_cast import Built
from contracts import c08_cleanup as CL  # Context.visit / visit_referenced_objects event models, IdSet inlines

PROPS = ("C12", "C08")
W, R = AccessFlags.WRITE, AccessFlags.READ

I.register_inline(GI.ConvertInstance.__dict__["cleanup_unused"].__func__)
I.register_inline(GI.ConvertInstance.__dict__["__init__"])


def _lookup_template(it, self, source):
    return it.cached if source is it.leaf else None


I.register_model(GI.ConvertInstance.__dict__["lookup_template"], _lookup_template)
I.register_model(GI.ConvertInstance.__dict__["add_template"], lambda it, self, source, result: None)
for q in ("cohdl.utility.id_map:IdSet.update", "cohdl.utility.id_map:IdSet.__iter__"):
    C.inline(q)

I.register_model(OUT.Block.__dict__["subblocks"], lambda it, self: self.fields["f_subblocks"])
I.register_model(OUT.Block.__dict__["contexts"], lambda it, self: self.fields["f_contexts"])
I.register_model(OUT.Entity.__dict__["template"], lambda it, self: self.fields["f_template"])
I.register_model(OUT.Entity.__dict__["port_definitions"], lambda it, self: self.fields["f_ports"])
I.register_model(OUT.Entity.__dict__["generic_definitions"], lambda it, self: {})


class _Info:
    """EntityInfo stand-in (name only)"""


def _convert_concurrent(it, inp, always_temporaries=None):
    # convert_sequential also reports which signals replace the temporaries its always-expression defines
    for temp, sig in inp.fields.get("f_always", []):
        if always_temporaries is not None:
            always_temporaries[temp] = sig
    return inp.fields["f_ir"]


def scenario(connected, cleanup_attr):
    def make(env):
        T = SObj(Temporary, _ref_spec=[], f_tag="T")
        T.fields["_root"] = T
        sig = SObj(Signal, _ref_spec=[], f_tag="sig")
        sig.fields["_root"] = sig
        stmt = SObj(ir.BinOp, _result=T, f_tag="T := expr")
        attrs = {} if cleanup_attr is None else {"cleanup_unused": cleanup_attr}
        irctx = SObj(ir.Concurrent, __stmt__=stmt, __events__=[("dir", sig, R), ("dir", T, W)], attributes=attrs)
        leaf = SObj(OUT.EntityTemplate, f_leaf=True)
        # the actual: the intermediate itself, a slice / view of it (its own object, same root), or a plain signal
        actual = T if connected is True else SObj(Temporary, _root=T, _ref_spec=["slice"], f_tag="T[5:2]") if connected == "slice" else sig
        inst = SObj(OUT.Entity, f_template=leaf, f_ports={"a": actual, "y": sig}, _info=SObj(_Info, name="Leaf"))
        top = SObj(OUT.EntityTemplate, f_subblocks=[inst], f_contexts=[SObj(OUT.Concurrent, f_ir=irctx)], _info="INFO")
        top.fields["f_T"], top.fields["f_irctx"], top.fields["f_leaf"] = T, irctx, leaf
        return top

    return Built([], make, lambda a: "None", lambda a: None)


def scenario_spec(connected, cleanup_attr):
    def spec(sx, self, inp):
        real = sx.real_args[1]
        irctx = real.fields["f_irctx"]

        def holds(res):
            if not (isinstance(res, SObj) and res.kind is ir.EntityTemplate):
                return False
            blocks, ctxs = res.fields["f_blocks"], res.fields["f_contexts"]
            if len(ctxs) != 1 or ctxs[0] is not irctx or len(blocks) != 1 or blocks[0].kind is not ir.Entity:
                return False
            got_ports, want_ports = blocks[0].fields["f_ports"], real.fields["f_subblocks"][0].fields["f_ports"]
            if list(got_ports) != list(want_ports) or any(got_ports[k] is not want_ports[k] for k in want_ports):
                return False  # every formal keeps the actual it was given (the same objects)
            rep = irctx.fields.get("__replaced__")
            kept = rep is irctx.fields["__stmt__"]
            removed = isinstance(rep, SObj) and rep.kind is ir.CodeBlock
            if cleanup_attr is False:
                return "__replaced__" not in irctx.fields  # pass not run
            return kept if connected else removed

        return C.Pred(holds, "the assignment of an intermediate connected to an instance port is kept; an unconnected unused one is removed")

    return spec


con = contract("cohdl._compiler.frontend._generate_ir:ConvertInstance.apply", PROPS)
for connected, cleanup_attr in ((True, None), (False, None), (True, False), (True, True), ("slice", None)):
    c = Case(f"instance-actual-is-{'the-intermediate' if connected is True else 'a-slice-of-the-intermediate' if connected else 'a-signal'},cleanup_unused={cleanup_attr}",
             [Built([], lambda env: SObj(GI.ConvertInstance), lambda a: "None", lambda a: None), scenario(connected, cleanup_attr)], scenario_spec(connected, cleanup_attr))
    c.native = False
    c.models = [(GI.IrGenerator.__dict__["convert_concurrent"].__func__, _convert_concurrent)]
    c.interp_flags = {"class_call_models": {
        ir.EntityTemplate: lambda it, args, kw: SObj(ir.EntityTemplate, f_info=args[0], f_blocks=list(args[1]), f_contexts=list(args[2])),
        ir.Entity: lambda it, args, kw: SObj(ir.Entity, f_template=args[0], f_name=args[1], f_ports=args[2], _ports=args[2], f_generics=args[3]),
    }}
    c.custom_replay = "contracts.c12_actuals.replay_undriven_actual"
    c.finding_key = "intermediate-connected-to-an-instance-port-loses-its-assignment"

    def setup(it, ctx, args, env):
        # the converter as its real __init__ leaves it, with the leaf template already converted
        self, top = args
        it.call(I.BoundMethod(GI.ConvertInstance.__dict__["__init__"], self), [], {})
        it.leaf, it.cached = top.fields["f_leaf"], SObj(ir.EntityTemplate, f_tag="leaf (cached)")

    c.setup = setup
    con.cases.append(c)


# ---- an instance created inside the always-expression of a SEQUENTIAL context ------------------------------------------------------
# `cohdl.always(Leaf(a=self.i ^ self.j, y=...))`: the expression's intermediate T is defined in the hoisted concurrent block.
# convert_sequential replaces T by a fresh SIGNAL in that block and in the process (only signals are shared between them); the
# instance, which was registered in the enclosing block before, must be connected to that signal too -- otherwise its port map
# names a temporary that nothing drives.
from cohdl import Bit as _Bit  # noqa: E402


def always_scenario(view):
    def make(env):
        T = SObj(Temporary, _ref_spec=[], f_tag="T", type=_Bit)
        T.fields["_root"] = T
        S = SObj(Signal, _ref_spec=[], f_tag="S (replaces T)")
        S.fields["_root"] = S
        other = SObj(Signal, _ref_spec=[], f_tag="y")
        other.fields["_root"] = other
        actual = T if not view else SObj(Temporary, _root=T, _ref_spec=["<slice>"], f_tag="T[1:0]", type=_Bit)
        irctx = SObj(ir.Sequential, attributes={}, __events__=[])
        leaf = SObj(OUT.EntityTemplate, f_leaf=True)
        inst = SObj(OUT.Entity, f_template=leaf, f_ports={"a": actual, "y": other}, _info=SObj(_Info, name="Leaf"))
        top = SObj(OUT.EntityTemplate, f_subblocks=[inst], f_contexts=[SObj(OUT.Sequential, f_ir=irctx, f_always=[(T, S)])], _info="INFO")
        top.fields.update(f_T=T, f_S=S, f_actual=actual, f_other=other, f_leaf=leaf)
        return top

    return Built([], make, lambda a: "None", lambda a: None)


def always_spec(view):
    def spec(sx, self, inp):
        real = sx.real_args[1].fields

        def holds(res):
            if not (isinstance(res, SObj) and res.kind is ir.EntityTemplate):
                return False
            blocks = res.fields["f_blocks"]
            if len(blocks) != 1 or blocks[0].kind is not ir.Entity:
                return False
            ports = blocks[0].fields["f_ports"]
            a = ports.get("a")
            # the actual of `a`: the same bits (reference path) of the signal that replaced T
            if not (isinstance(a, SObj) and a.kind is Signal and a.fields.get("f_root") is real["f_S"] and a.fields.get("f_ref") is real["f_actual"].fields["_ref_spec"]):
                return False
            return ports.get("y") is real["f_other"] and list(ports) == ["a", "y"]

        return C.Pred(holds, "the instance port is connected to the signal that replaced the always-temporary (same reference path)")

    return spec


for view in (False, True):
    c = Case(f"instance-in-always-expression,actual-is-{'a-slice-of-' if view else ''}the-always-temporary",
             [Built([], lambda env: SObj(GI.ConvertInstance), lambda a: "None", lambda a: None), always_scenario(view)], always_spec(view), props=("C12",))
    c.native = False
    c.models = [
        (GI.IrGenerator.__dict__["convert_sequential"].__func__, _convert_concurrent),
        (GI.ConvertInstance.__dict__["detect_uninitialized_temporaries"].__func__, lambda it, ctx, *a, **k: ctx),
        (GI.ConvertInstance.__dict__["cleanup_bool_cast"].__func__, lambda it, ctx, *a, **k: ctx),
        (GI.ConvertInstance.__dict__["cleanup_unused"].__func__, lambda it, ctx, *a, **k: ctx),
    ]
    _mk_sig =lambda it, args, kw: SObj(Signal, f_value=args[0] if args else None, f_root=kw.get("_root"), f_ref=kw.get("_ref_spec"))  # noqa: E731
    c.interp_flags = {"class_call_models": {
        ir.EntityTemplate: lambda it, args, kw: SObj(ir.EntityTemplate, f_info=args[0], f_blocks=list(args[1]), f_contexts=list(args[2])),
        ir.Entity: lambda it, args, kw: SObj(ir.Entity, f_template=args[0], f_name=args[1], f_ports=args[2], _ports=args[2], f_generics=args[3]),
        Signal[_Bit]: _mk_sig, Signal: _mk_sig,
    }}
    c.custom_replay = "contracts.c12_actuals.replay_always_instance"

    def setup_always(it, ctx, args, env):
        self, top = args
        it.call(I.BoundMethod(GI.ConvertInstance.__dict__["__init__"], self), [], {})
        it.leaf, it.cached = top.fields["f_leaf"], SObj(ir.EntityTemplate, f_tag="leaf (cached)")

    c.setup = setup_always
    con.cases.append(c)

if "_connect_always_temporaries" in GI.ConvertInstance.__dict__:
    I.register_inline(GI.ConvertInstance.__dict__["_connect_always_temporaries"])


_ALWAYS_INSTANCE = '''
import re
import cohdl
from cohdl import Entity, Port, Bit, BitVector, std
class Leaf(Entity):
    a = Port.input(BitVector[2])
    q = Port.output(BitVector[2])
    def architecture(self):
        @std.concurrent
        def logic():
            self.q <<= self.a
class Top(Entity):
    clk = Port.input(Bit)
    i = Port.input(BitVector[4])
    o = Port.output(BitVector[2])
    def architecture(self):
        s = cohdl.Signal[BitVector[2]](name="s")
        @std.sequential(std.Clock(self.clk))
        def proc():
            cohdl.always(Leaf(a=self.i[1:0] ^ self.i[3:2], q=s))
            self.o <<= s
t = std.VhdlCompiler.to_string(Top)
top = t[t.index("architecture arch_Top"):]
actual = re.search(r"a => (\\w+)", top).group(1)
print("ACTUAL", actual, "DRIVEN" if re.search(rf"^\\s*{actual} <=", top, re.M) else "UNDRIVEN")
'''


def replay_always_instance(payload):
    from contracts.c06_extra import _run_design

    rc, out = _run_design(_ALWAYS_INSTANCE)
    return {"reproduced": rc == 0 and "UNDRIVEN" in out, "detail": out[-300:]}


# ---- sequential contexts: the definite-assignment analysis always runs, before any clean-up pass -----------------------------
# (the context attributes cleanup_unused / cleanup_bool_cast switch cosmetic passes off, never the C08 check)
def seq_spec(attrs):
    def spec(sx, self, inp):
        it = sx.it
        irctx = sx.real_args[1].fields["f_ir"]

        def holds(res):
            if res is not irctx and not (isinstance(res, SObj) and res.fields.get("f_from") is irctx):
                return False
            want = [("detect", irctx)]
            if attrs.get("cleanup_unused", True):
                want.append(("cleanup_unused", irctx))
            if attrs.get("cleanup_bool_cast", True):
                want.append(("cleanup_bool_cast", irctx))
            return len(it.passes) == len(want) and all(a[0] == b[0] and a[1] is b[1] for a, b in zip(it.passes, want))

        return C.Pred(holds, "detect_uninitialized_temporaries runs first and unconditionally; the clean-up passes as selected")

    return spec


def _pass(name):
    def model(it, ctx, *a, **k):
        it.passes.append((name, ctx))
        return ctx

    return model


for attrs in ({}, {"cleanup_unused": False}, {"cleanup_bool_cast": False}, {"cleanup_unused": False, "cleanup_bool_cast": False}):
    def mk_seq(env, attrs=attrs):
        return SObj(OUT.Sequential, f_ir=SObj(ir.Sequential, attributes=dict(attrs), __events__=[]))

    c = Case("sequential-context,attributes=" + (",".join(f"{k}={v}" for k, v in attrs.items()) or "default"),
             [Built([], lambda env: SObj(GI.ConvertInstance), lambda a: "None", lambda a: None), Built([], mk_seq, lambda a: "None", lambda a: None)], seq_spec(attrs), props=("C08",))
    c.native = False
    c.models = [
        (GI.IrGenerator.__dict__["convert_sequential"].__func__, _convert_concurrent),
        (GI.ConvertInstance.__dict__["detect_uninitialized_temporaries"].__func__, _pass("detect")),
        (GI.ConvertInstance.__dict__["cleanup_unused"].__func__, _pass("cleanup_unused")),
        (GI.ConvertInstance.__dict__["cleanup_bool_cast"].__func__, _pass("cleanup_bool_cast")),
    ]

    def setup_seq(it, ctx, args, env):
        it.passes = []
        it.call(I.BoundMethod(GI.ConvertInstance.__dict__["__init__"], args[0]), [], {})

    c.setup = setup_seq
    con.cases.append(c)


_DESIGN = '''
from __future__ import annotations
from cohdl import Entity, Port, BitVector, std

class Leaf(Entity):
    a = Port.input(BitVector[4])
    y = Port.output(BitVector[4])
    def architecture(self):
        @std.concurrent
        def logic():
            self.y <<= self.a

class Top(Entity):
    a = Port.input(BitVector[8])
    y = Port.output(BitVector[4])
    def architecture(self):
        @std.concurrent
        def logic():
            Leaf(a=self.a[7:4] & self.a[3:0], y=self.y)

text = std.VhdlCompiler.to_string(Top)
top = text[text.index("architecture arch_Top"):]
import re
actual = re.search(r"a => (\\w+)", top).group(1)
print("ACTUAL", actual, "DRIVEN" if re.search(rf"^\\s*{actual} <=", top, re.M) else "UNDRIVEN")
'''


def replay_undriven_actual(payload):
    from contracts.c06_extra import _run_design

    rc, out = _run_design(_DESIGN)
    return {"reproduced": rc == 0 and "UNDRIVEN" in out, "detail": out[-300:]}


# C13 ("views ... keep the same root"): an actual that is a VIEW of an intermediate keeps the ROOT intermediate alive
contract("cohdl._compiler.frontend._generate_ir:ConvertInstance.apply", ("C13",))
