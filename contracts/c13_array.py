"""C13: Array.__getitem__ -- element views alias the stored elements.

For an array of (symbolic) length n with k stored element objects (k <= n, the rest implicit defaults):
index i < 0 or i >= n is an IndexError; 0 <= i < k returns THE stored element object (identity: the element
view of Signal[Array[T, n]] and everything derived from it must alias the storage, element 0 included);
k <= i < n returns a fresh default element.
"""

from __future__ import annotations

from cohdl._core._array import Array

from pyvc import contracts as C
from pyvc import sym
from pyvc.contracts import Case, contract, PyInt
from pyvc.values import SObj
from contracts.c05_format_cast import Built

PROPS = ("C13",)


class _Elem:
    """element type of the array"""


def arr_shape(k):
    def make(env):
        return SObj(Array, _value=[SObj(_Elem, f_stored=j) for j in range(k)] if k is not None else None, _elemtype_=_Elem, _count_=env["n"])

    return Built([], make, lambda a: "None", lambda a: None)


def getitem_spec(k):
    kk = k or 0

    def spec(sx, self, index):
        n = sx.it.case_env["n"]
        if sx.branch(sym.Or(index < 0, index >= n)):
            raise C.SpecRaise(IndexError)
        stored = sx.real_args[0].fields["_value"]
        for j in range(kk):
            if sx.branch(sym.eq(index, j)):
                return C.Pred((lambda j: lambda res: res is stored[j])(j), f"the stored element {j} itself")
        return C.Pred(lambda res: isinstance(res, SObj) and res.kind is _Elem and res.fields.get("f_fresh") is True, "a fresh default element")

    return spec


# ---- Array.__init__: every element has its OWN storage --------------------------------------------------------------
from cohdl import Null, Full  # noqa: E402


def init_spec(n, how):
    def spec(sx, self, *args):
        real = sx.real_args[0]

        def holds(res):
            v = real.fields.get("_value")
            if how == "none":
                return v is None
            want = {"null": [Null] * n, "full": [Full] * n, "list": [f"v{i}" for i in range(n - 1)], "array": ["a0", "a1"]}[how]
            if not isinstance(v, list) or len(v) != len(want):
                return False
            if len({id(e) for e in v}) != len(v):
                return False  # two elements sharing one object: a write through one element view changes the other
            return all(isinstance(e, SObj) and e.kind is _Elem and e.fields["f_args"] == [w] for e, w in zip(v, want))

        return C.Pred(holds, "one fresh element object per entry, built from the given value, in order")

    return spec


con = contract("cohdl._core._array:Array.__init__", PROPS)
for n in (1, 2, 3):
    for how in ("none", "null", "full", "list") + (("array",) if n == 3 else ()):
        def mk_arg(env, n=n, how=how):
            if how == "array":
                return SObj(Array, _value=["a0", "a1"], _elemtype_=_Elem, _count_=2)
            return {"none": None, "null": Null, "full": Full, "list": [f"v{i}" for i in range(n - 1)]}[how]

        c = Case(f"{n}-elements,init-{how}", [Built([], (lambda n: lambda env: SObj(Array, _elemtype_=_Elem, _count_=n))(n), lambda a: "None", lambda a: None), Built([], mk_arg, lambda a: "None", lambda a: None)], init_spec(n, how))
        c.native = False
        c.interp_flags = {"class_call_models": {_Elem: lambda it, args, kw: SObj(_Elem, f_fresh=True, f_args=list(args))}}
        con.cases.append(c)

con = contract("cohdl._core._array:Array.__getitem__", PROPS)
for k in (None, 0, 1, 2, 3):
    c = Case(f"{'no' if k is None else k}-stored", [arr_shape(k), PyInt("i", None, None, -2, 6)], getitem_spec(k), requires=(lambda kk: lambda env: env["n"] >= kk)(k or 0))
    c.extra_shapes = [PyInt("n", 1, None, 1, 6)]
    c.native = False
    c.interp_flags = {"class_call_models": {_Elem: lambda it, args, kw: SObj(_Elem, f_fresh=True, f_args=list(args))}}
    con.cases.append(c)


# ---- Array._assign: what may be assigned to an array-typed object as a whole (C05 / C06 / C13) ----------------------------------
# Every Array[T, N] is declared as its own VHDL array type, `dst <= src;` is emitted without conversion: the source must be an
# array with EXACTLY as many elements (symbolic counts) whose element type may be assigned to the target's; a list / tuple needs one
# compatible entry per element; Null / Full are accepted; everything else is rejected.  The stored elements are not changed
# (the element assignment is a trial on fresh element objects).
class _ElemT:
    """element type: _assign of a fresh element records what it was tried with; 'BAD' is incompatible"""


_ElemT._assign = lambda self, v: None


def _elem_assign(it, self, v):
    it.trials.append(v)
    bad = v == "BAD" or (isinstance(v, SObj) and v.kind is _ElemOther)
    if bad:
        it.raise_(AssertionError, "incompatible element")
    return None


class _ElemOther:
    """another element type, not assignable to _ElemT"""


from pyvc import interp as I  # noqa: E402

I.register_model(_ElemT._assign, _elem_assign)


def assign_spec(how):
    def spec(sx, self, value):
        it = sx.it
        real = sx.real_args[0]
        n = it.case_env["n"]
        if how == "array":
            m = it.case_env["m"]
            sx.require(sym.eq(m, n))
        if how in ("array-other-elemtype", "list-short", "list-long", "list-bad-entry", "int", "str"):
            sx.reject(AssertionError)

        def holds(res):
            return res is None and real.fields["_value"] == ["stored0"]

        return C.Pred(holds, "accepted; the stored elements are untouched")

    return spec


con = contract("cohdl._core._array:Array._assign", PROPS + ("C05", "C06"))
for how in ("array", "array-other-elemtype", "list-exact", "list-short", "list-long", "list-bad-entry", "null", "full", "int", "str"):
    def mk_val(env, how=how):
        if how == "array":
            return SObj(Array, _value=None, _elemtype_=_ElemT, _count_=env["m"])
        if how == "array-other-elemtype":
            return SObj(Array, _value=None, _elemtype_=_ElemOther, _count_=2)
        return {"list-exact": ["x", "y"], "list-short": ["x"], "list-long": ["x", "y", "z"], "list-bad-entry": ["x", "BAD"], "null": Null, "full": Full, "int": 3, "str": "01"}[how]

    fixed = how != "array"
    c = Case(f"assign:{how}", [Built([], (lambda fixed: lambda env: SObj(Array, _value=["stored0"], _elemtype_=_ElemT, _count_=2 if fixed else env["n"]))(fixed), lambda a: "<array>", lambda a: None),
                               Built([], mk_val, lambda a: "<value>", lambda a: None)], assign_spec(how))
    c.extra_shapes = [PyInt("n", 1, None, 1, 6), PyInt("m", 1, None, 1, 6)]
    c.native = False
    c.may_reject = None
    c.interp_flags = {"class_call_models": {_ElemT: lambda it, args, kw: SObj(_ElemT, f_fresh=True), _ElemOther: lambda it, args, kw: SObj(_ElemOther, f_fresh=True)}}

    def _setup(it, ctx, args, env):
        it.trials = []

    c.setup = _setup
    con.cases.append(c)
