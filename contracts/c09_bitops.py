"""C09: the bitwise operators of cohdl.Bit -- "the same ... value as the logic emitted for the same operation applied to
run-time signals holding those values, including mixes ... in either operand order".

  Bit.__and__ / __or__ / __xor__[a,b]      (proof per case, all four operand values) the constant fold is the operator on the
                                           values, the result is a Bit
  Bit.__and__ / ...[foreign:*]             for an operand that is not a Bit (a Signal / Port / Temporary object, int, bool,
                                           None, a vector) the method returns NotImplemented -- CPython (and the tracer's
                                           overloaded_operator, which follows CPython's dispatch) then tries the reflected method
                                           of the right operand, so `K ^ sig` is `sig.__rxor__(K)`; an exception here ends the
                                           dispatch and makes the design with the constant on the LEFT fail where `sig ^ K` works
  bit_operand_order_sweep                  BOUNDED, native: designs `K op sig` / `sig op K` / `sig op sig` for K in {0, 1}, op in
                                           {&, |, ^}: each is accepted and the emitted expression, evaluated for both values of
                                           the signal, equals the Python operator on the values
"""

from __future__ import annotations

import itertools
import json
import operator

import cohdl
from cohdl import Bit, BitVector, Signal

from cohdl._core._bit import BitState

from pyvc import contracts as C
from pyvc.contracts import Case, contract
from pyvc.values import SObj
from contracts.c05_format_cast import Built

PROPS = ("C09",)
OPS = {"__and__": operator.and_, "__or__": operator.or_, "__xor__": operator.xor}

for _q in ("Bit.__init__", "BitState.__and__", "BitState.__or__", "BitState.__xor__", "Bit.__bool__"):
    C.inline("cohdl._core._bit:" + _q)

FOREIGN = {
    "signal": (lambda env: Signal[Bit](True), "cohdl.Signal[cohdl.Bit](True)"),
    "int": (lambda env: 1, "1"),
    "bool": (lambda env: True, "True"),
    "none": (lambda env: None, "None"),
    "vector": (lambda env: BitVector[1]("1"), 'cohdl.BitVector[1]("1")'),
}


def value_spec(pyop, a, b):
    want = bool(pyop(a, b))

    def spec(sx, self, other):
        def native(res):
            return type(res) is Bit and bool(res) is want

        def holds(res):
            if isinstance(res, Bit):
                return native(res)
            return bool(isinstance(res, SObj) and res.kind is Bit and res.fields.get("_val") is (BitState.HIGH if want else BitState.LOW))

        return C.Pred(holds, f"Bit({int(want)})", native=native)

    return spec


def foreign_spec(sx, self, other):
    return C.Pred(lambda res: res is NotImplemented, "NotImplemented", native=lambda res: res is NotImplemented)


for name, pyop in OPS.items():
    con = contract(f"cohdl._core._bit:Bit.{name}", PROPS)
    for a, b in itertools.product((0, 1), repeat=2):
        A = Built([], (lambda a: lambda env: Bit(a))(a), (lambda a: lambda asg: f"cohdl.Bit({a})")(a), lambda asg: None)
        B = Built([], (lambda b: lambda env: Bit(b))(b), (lambda b: lambda asg: f"cohdl.Bit({b})")(b), lambda asg: None)
        con.cases.append(Case(f"{a},{b}", [A, B], value_spec(pyop, a, b)))
    for fname, (mk, src) in FOREIGN.items():
        A = Built([], lambda env: Bit(1), lambda asg: "cohdl.Bit(1)", lambda asg: None)
        B = Built([], mk, (lambda src: lambda asg: src)(src), lambda asg: None)
        c = Case(f"foreign:{fname}", [A, B], foreign_spec)
        c.custom_replay = "contracts.c09_bitops.replay_operand_order"
        con.cases.append(c)


_SCRIPT = r'''
from __future__ import annotations
import itertools, json, linecache, re
from cohdl import Entity, Port, Bit, std

K0, K1 = Bit(0), Bit(1)
OPS = {"&": (lambda a, b: a & b, "and"), "|": (lambda a, b: a | b, "or"), "^": (lambda a, b: a ^ b, "xor")}
OPERANDS = {"K0": 0, "K1": 1, "self.b": None, "self.c": None}
bad, rejected, n = [], [], 0


def build(expr):
    ns = dict(globals())
    src = f"""
class Top(Entity):
    b = Port.input(Bit)
    c = Port.input(Bit)
    x = Port.output(Bit)

    def architecture(self):
        @std.concurrent
        def logic():
            self.x <<= {expr}
"""
    fname = f"<bit design {len(linecache.cache)}>"
    linecache.cache[fname] = (len(src), None, src.splitlines(True), fname)
    exec(compile(src, fname, "exec"), ns)
    return std.VhdlCompiler.to_string(ns["Top"])


def evaluate(text, env):
    # the expressions of the block, in order: `name <= (X) op (Y);` / `name <= X;` with X, Y in {b, c, '0', '1', a name}
    vals = dict(env)

    def atom(t):
        t = t.strip()
        while t.startswith("(") and t.endswith(")"):
            t = t[1:-1].strip()
        if t in ("'0'", "'1'"):
            return int(t[1])
        return vals[t]

    for line in text.splitlines():
        m = re.match(r"\s*(\w+) <= (.*);\s*$", line)
        if not m:
            continue
        rhs = m.group(2)
        mm = re.fullmatch(r"\((.*)\) (and|or|xor) \((.*)\)", rhs)
        if mm:
            a, b = atom(mm.group(1)), atom(mm.group(3))
            vals[m.group(1)] = {"and": a & b, "or": a | b, "xor": a ^ b}[mm.group(2)]
        else:
            vals[m.group(1)] = atom(rhs)
    return vals["buffer_x"]  # the output port is driven from its buffer signal


for (lname, lval), (rname, rval), (op, (fn, _)) in itertools.product(OPERANDS.items(), OPERANDS.items(), OPS.items()):
    if lval is not None and rval is not None:
        continue  # both constant: the Python fold itself (under contract)
    n += 1
    key = f"{lname} {op} {rname}"
    try:
        vhdl = build(key)
    except Exception as e:
        # the same operation with run-time operands is accepted: replacing an input by a constant must not change that
        bad.append([key, f"rejected ({type(e).__name__}: {str(e)[:60]}); the operation on two signals is accepted"])
        continue
    body = vhdl[vhdl.index("CONCURRENT BLOCK (logic)"):]
    for bv, cv in itertools.product((0, 1), repeat=2):
        env = {"b": bv, "c": cv}
        want = fn(lval if lval is not None else env[lname[-1]], rval if rval is not None else env[rname[-1]])
        try:
            got = evaluate(body, env)
        except Exception as e:
            bad.append([key, f"the emitted block could not be evaluated ({type(e).__name__}: {e})"])
            break
        if got != want:
            bad.append([key, f"b={bv} c={cv}: the emitted logic yields {got}, the operator on the values {want}"])
            break
print("RESULT" + json.dumps({"evaluations": n, "bad": bad}))
'''


def bit_operand_order_sweep(tier="quick", seed=0):
    from contracts.c06_extra import _run_design

    rc, text = _run_design(_SCRIPT)
    if "RESULT" not in text:
        return {"problems": [f"bit_operand_order_sweep: the script failed: {text[-400:]}"]}
    data = json.loads(text[text.index("RESULT") + 6:].splitlines()[0])
    violations = []
    for key, what in data["bad"]:
        oid = f"C09/bit_operand_order_sweep[{key}]#bounded"
        w = f"{key}: {what}"
        violations.append({"kind": "custom", "qual": "<C09 Bit operators, operand order>", "case": key, "oid": oid, "check": "bit_operand_order_sweep", "key": key, "assignment": {"expression": key}, "solver": {"what": w}, "reproduced": True,
                           "replay_payload": {"property": "C09", "custom": "contracts.c09_bitops.replay_sweep", "key": key, "obligation": oid, "verifier_output": w}})
    return {"evaluations": data["evaluations"], "distinct": data["evaluations"], "violations": violations, "samples": [{"evaluations": data["evaluations"]}],
            "bounded": [{"function": "cohdl._core._bit:Bit.__and__ / __or__ / __xor__, cohdl._core._type_qualifier:TypeQualifier.__rand__ / __ror__ / __rxor__ (through the tracer)", "case": "bit_operand_order_sweep",
                         "evaluations": data["evaluations"], "exhaustive_within_bound": True, "bound": "operands {Bit(0), Bit(1), two input ports} x 3 operators, at least one run-time operand, all input values"}]}


_INT_SCRIPT = r'''
from __future__ import annotations
import itertools, json, linecache, re
import cohdl
from cohdl import Entity, Port, Bit, Integer, op, std


def trunc(a, b):
    q = abs(a) // abs(b)
    return q if (a < 0) == (b < 0) else -q


OPS = {
    "+": (lambda a, b: a + b, lambda a, b: a + b, False), "-": (lambda a, b: a - b, lambda a, b: a - b, False), "*": (lambda a, b: a * b, lambda a, b: a * b, False),
    "%": (lambda a, b: a % b, lambda a, b: a % b, True),
    "truncdiv": (lambda a, b: op.truncdiv(a, b), trunc, True), "rem": (lambda a, b: op.rem(a, b), lambda a, b: a - b * trunc(a, b), True),
}
bad, n = [], 0
R = range(-5, 6)
for name, (fn, ref, div) in OPS.items():
    for order in ("Integer,int", "int,Integer", "Integer,Integer"):
        fail = None
        for a, b in itertools.product(R, R):
            if div and b == 0:
                continue
            n += 1
            x = Integer(a) if order.startswith("Integer") else a
            y = Integer(b) if order.endswith("Integer") else b
            try:
                got = fn(x, y)
            except Exception as e:
                fail = f"{a} {name} {b} raised {type(e).__name__}: {str(e)[:60]}"
                break
            if not isinstance(got, Integer) or int(got) != ref(a, b):
                fail = f"{a} {name} {b} = {got!r}, expected Integer({ref(a, b)})"
                break
        if fail:
            bad.append([f"fold:{name}:{order}", fail])

# the emitted side: a Python int on either side of a run-time integer
VHDL = {"+": "+", "-": "-", "*": "*", "%": "mod", "truncdiv": "/", "rem": "rem"}


def build(expr):
    ns = dict(globals())
    src = f"""
class Top(Entity):
    i = Port.input(int)
    o = Port.output(int)

    def architecture(self):
        @std.concurrent
        def logic():
            self.o <<= {expr}
"""
    fname = f"<int design {len(linecache.cache)}>"
    linecache.cache[fname] = (len(src), None, src.splitlines(True), fname)
    exec(compile(src, fname, "exec"), ns)
    return std.VhdlCompiler.to_string(ns["Top"])


for name in OPS:
    for lhs, rhs in (("7", "self.i"), ("self.i", "7")):
        n += 1
        expr = f"op.{name}({lhs}, {rhs})" if name in ("truncdiv", "rem") else f"{lhs} {name} {rhs}"
        key = f"design:{expr}"
        try:
            vhdl = build(expr)
        except Exception as e:
            bad.append([key, f"rejected ({type(e).__name__}: {str(e)[:60]}); the other operand order is accepted" ])
            continue
        want = f"({lhs.replace('self.', '')}) {VHDL[name]} ({rhs.replace('self.', '')})"
        if want not in vhdl:
            got = [l.strip() for l in vhdl.splitlines() if "temp" in l and "<=" in l][:1]
            bad.append([key, f"expected the expression {want}, emitted {got}"])
accepted = [b for b in bad if b[0].startswith("design")]
print("RESULT" + json.dumps({"evaluations": n, "bad": bad}))
'''


def integer_operand_order_sweep(tier="quick", seed=0):
    """BOUNDED: +, -, *, %, op.truncdiv, op.rem on (Integer, int), (int, Integer), (Integer, Integer) for all values in -5..5:
    every order folds to the Integer of the reference value; designs with the int on either side of a run-time integer are
    accepted and emit the operands in source order"""
    from contracts.c06_extra import _run_design

    rc, text = _run_design(_INT_SCRIPT)
    if "RESULT" not in text:
        return {"problems": [f"integer_operand_order_sweep: the script failed: {text[-400:]}"]}
    data = json.loads(text[text.index("RESULT") + 6:].splitlines()[0])
    violations = []
    for key, what in data["bad"]:
        oid = f"C09/integer_operand_order_sweep[{key}]#bounded"
        w = f"{key}: {what}"
        violations.append({"kind": "custom", "qual": "<C09 Integer operators, operand order>", "case": key, "oid": oid, "check": "integer_operand_order_sweep", "key": key, "assignment": {"case": key}, "solver": {"what": w}, "reproduced": True,
                           "replay_payload": {"property": "C09", "custom": "contracts.c09_bitops.replay_int_sweep", "key": key, "obligation": oid, "verifier_output": w}})
    return {"evaluations": data["evaluations"], "distinct": data["evaluations"], "violations": violations, "samples": [{"evaluations": data["evaluations"]}],
            "bounded": [{"function": "cohdl._core._integer:Integer.__add__ ... _cohdl_rrem_ (both operand orders), cohdl._core._op:truncdiv / rem", "case": "integer_operand_order_sweep", "evaluations": data["evaluations"],
                         "exhaustive_within_bound": True, "bound": "6 operators x 3 operand kinds orders x values -5..5 (divisor != 0); 12 designs"}]}


def replay_int_sweep(payload):
    r = integer_operand_order_sweep()
    hit = [v for v in r.get("violations", []) if v["key"] == payload["key"]]
    return {"reproduced": bool(hit), "detail": hit[0]["solver"]["what"] if hit else "every operand order folds to the reference value and is accepted in a design"}


def replay_sweep(payload):
    r = bit_operand_order_sweep()
    hit = [v for v in r.get("violations", []) if v["key"] == payload["key"]]
    return {"reproduced": bool(hit), "detail": hit[0]["solver"]["what"] if hit else "both operand orders are accepted and evaluate to the operator on the values"}


def replay_operand_order(payload):
    r = bit_operand_order_sweep()
    hit = [v for v in r.get("violations", []) if v["key"].startswith("K")]
    return {"reproduced": bool(hit), "detail": hit[0]["solver"]["what"] if hit else "a constant Bit on the left of a run-time Bit is accepted"}
