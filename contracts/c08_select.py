"""C08: cohdl.select_with / std.select -- a selection whose result is not defined for every value of the selector.

"Source programs in which a value computed in only some branches ... is used afterwards are rejected" / "each compiler-generated
intermediate value is assigned before it is read on every execution path": select_with(arg, {choice: value, ...}) WITHOUT a default
yields (Python: `None`) nothing for the values of `arg` that are not listed.  The lowering writes the result temporary in the listed
choices only (`when others => null;` in a process, a with-select without `others` in a concurrent context); ir.SelectWith is an
expression, so detect_uninitialized_temporaries treats its result as always defined.  The decision therefore has to be taken where
the selection is converted:

  PrepareAst.convert_intrinsic[select:*]   (proof) a selection is accepted only with a default or when the choices are exhaustive
                                           (callee `_select_is_exhaustive` by its contract: an arbitrary boolean)
  _select_is_exhaustive[*]                 (proof per enumerated selector type) true exactly when the constant choices cover every
                                           value of the selector's type (Bit, bool, vectors of width 1..3, an enumeration), false
                                           for selectors with unbounded types
  select_default_sweep                     BOUNDED, native: designs with a selection over 5 selector kinds x 2 context kinds x
                                           {default, none} x {all values listed, one missing}: no accepted design leaves the result
                                           unassigned for a selector value
"""

from __future__ import annotations

import itertools
import json

import cohdl
from cohdl import Bit, BitVector, Signal, Unsigned
from cohdl._compiler.frontend import _prepare_ast as PA
from cohdl._compiler.frontend import _prepare_ast_out as OUT
from cohdl._core import _intrinsic as INTR
from cohdl._core._intrinsic import _SelectWith

from pyvc import contracts as C
from pyvc import interp as I
from pyvc import sym
from pyvc.contracts import Case, contract
from pyvc.values import SObj
from contracts.c05_format_cast import Built

PROPS = ("C08",)
_Prep = PA.PrepareAst


class _Repl:
    """entry of _intrinsic_replacements"""


class _Sel:
    """the selector of a selection (opaque)"""


def _marker_select(arg, branches, default=None):
    pass


def _repl_select(arg, branches, default=None):
    """the special-case replacement of select_with: wraps its arguments in _SelectWith"""


_EXH = getattr(PA, "_select_is_exhaustive", None)


def select_spec(has_default):
    def spec(sx, self, fn, args, kwargs):
        if not has_default:
            sx.require(sx.it.select_exhaustive)  # otherwise rejected

        def holds(res):
            real = sx.real_args[2]  # the objects the real body saw
            return bool(isinstance(res, SObj) and res.kind is OUT.SelectWith and res.fields.get("f_arg") is real[0] and len(res.fields.get("f_branches")) == len(real[1])
                        and res.fields.get("f_default") is (real[2] if has_default else None))

        return C.Pred(holds, "SelectWith(arg, one branch per choice, default)")

    return spec


con = contract("cohdl._compiler.frontend._prepare_ast:PrepareAst.convert_intrinsic", PROPS)
for n, has_default in itertools.product((1, 2, 3), (True, False)):
    SELF = Built([], lambda env: SObj(_Prep), lambda a: "<self>", lambda a: None)
    FN = Built([], lambda env: _marker_select, lambda a: "<select_with>", lambda a: None)

    def mk_args(env, n=n, has_default=has_default):
        return [SObj(_Sel), {f"choice{j}": SObj(_Sel, f_tag=f"value{j}") for j in range(n)}, SObj(_Sel, f_tag="default") if has_default else None]

    ARGL = Built(["exh"], mk_args, lambda a: "<args>", lambda a: None)
    KW = Built([], lambda env: {}, lambda a: "{}", lambda a: None)
    c = Case(f"select:{n}-choices,{'default' if has_default else 'no-default'}", [SELF, FN, ARGL, KW], select_spec(has_default))
    c.native = False

    def setup(it, ctx, args, env):
        repl = SObj(_Repl, is_special_case=True, evaluate=False, assignment_spec=None)
        repl.fields["fn"] = _repl_select
        ctx.global_overlay[("cohdl._compiler.frontend._prepare_ast", "_intrinsic_replacements")] = {_marker_select: repl}
        it.select_exhaustive = sym.Not(sym.eq(env["exh"], 0))

    c.setup = setup
    c.models = [
        (INTR._has_intrinsic_replacement, lambda it, fn: True),
        (_repl_select, lambda it, arg, branches, default=None: SObj(_SelectWith, arg=arg, branches=branches, default=default)),
        (PA._make_static_comparable, lambda it, lhs, rhs: (lhs, rhs)),
    ] + ([(_EXH, lambda it, arg, conditions: it.select_exhaustive)] if _EXH is not None else [])
    c.interp_flags = {"class_call_models": {OUT.SelectWith: lambda it, args, kwargs: SObj(OUT.SelectWith, f_arg=args[0], f_branches=list(args[1]), f_default=args[2])}}
    con.cases.append(c)


# ---- _select_is_exhaustive ---------------------------------------------------------------------------------------------------
class _En(cohdl.enum.Enum):
    first = cohdl.enum.auto()
    second = cohdl.enum.auto()
    third = cohdl.enum.auto()


def _selector_types():
    yield "Bit", Bit, "cohdl.Bit", [Bit(0), Bit(1)], ["cohdl.Bit(0)", "cohdl.Bit(1)"]
    yield "bool", bool, "bool", [cohdl._core._boolean._Boolean(False), cohdl._core._boolean._Boolean(True)], ["cohdl._core._boolean._Boolean(False)", "cohdl._core._boolean._Boolean(True)"]
    for K, kn in ((BitVector, "BitVector"), (Unsigned, "Unsigned")):
        for w in (1, 2, 3):
            vals = [BitVector[w](format(v, f"0{w}b")) for v in range(2**w)]
            yield f"{kn}[{w}]", K[w], f"cohdl.{kn}[{w}]", vals, [f'cohdl.BitVector[{w}]("{format(v, f"0{w}b")}")' for v in range(2**w)]
    yield "Enum", _En, "contracts.c08_select._En", list(_En), [f"contracts.c08_select._En.{m.name}" for m in _En]


def exhaustive_spec(covers):
    def spec(sx, arg, conditions):
        return C.Pred(lambda res: res is covers if isinstance(res, bool) else False, f"returns {covers}", native=lambda res: res is covers)

    return spec


if _EXH is not None:
    C.inline("cohdl._core._bit_vector:BitVector.width")
    con = contract("cohdl._compiler.frontend._prepare_ast:_select_is_exhaustive", PROPS)
    for tname, T, tsrc, values, vsrcs in _selector_types():
        n = len(values)
        subsets = [tuple(range(n))] + [tuple(j for j in range(n) if j != k) for k in range(n)] + [()]
        subsets += [tuple(range(k)) for k in range(1, n - 1)]  # every number of listed values
        if n > 2:
            subsets.append(tuple(range(n)) + (0,))  # a repeated choice does not hide a missing one ...
            subsets.append(tuple(range(n - 1)) + (0,))  # ... n choices, one value twice, one missing
        for sub in subsets:
            covers = set(sub) == set(range(n))
            ARG = Built([], (lambda T: lambda env: Signal[T]())(T), (lambda tsrc: lambda a: f"cohdl.Signal[{tsrc}]()")(tsrc), lambda a: None)
            CONDS = Built([], (lambda values, sub: lambda env: [values[j] for j in sub])(values, sub), (lambda vsrcs, sub: lambda a: "[" + ", ".join(vsrcs[j] for j in sub) + "]")(vsrcs, sub), lambda a: None)
            c = Case(f"{tname}:choices{list(sub)}", [ARG, CONDS], exhaustive_spec(covers))
            con.cases.append(c)
    # choices with metavalues ('-', 'X', 'U', 'Z' ...) are values of the VHDL type but of no 0/1 selector value: four distinct
    # choices of a two bit selector cover it only if they are the four 0/1 patterns
    for kn, K in (("BitVector", BitVector), ("Unsigned", Unsigned)):
        for name, pats, covers in (("three-and-dont-care", ("00", "01", "10", "1-"), False), ("three-and-X", ("00", "01", "10", "1X"), False), ("three-and-U", ("00", "01", "UU", "11"), False),
                                   ("all-and-X", ("00", "01", "10", "11", "XX"), True)):
            ARG = Built([], (lambda K: lambda env: Signal[K[2]]())(K), (lambda kn: lambda a: f"cohdl.Signal[cohdl.{kn}[2]]()")(kn), lambda a: None)
            CONDS = Built([], (lambda pats: lambda env: [BitVector[2](p) for p in pats])(pats), (lambda pats: lambda a: "[" + ", ".join(f'cohdl.BitVector[2]("{p}")' for p in pats) + "]")(pats), lambda a: None)
            con.cases.append(Case(f"{kn}[2]:metavalue-choices:{name}", [ARG, CONDS], exhaustive_spec(covers)))
    for name, vals, covers in (("0-and-X", ("0", "X"), False), ("0-1-and-U", ("0", "1", "U"), True)):
        ARG = Built([], lambda env: Signal[Bit](), lambda a: "cohdl.Signal[cohdl.Bit]()", lambda a: None)
        CONDS = Built([], (lambda vals: lambda env: [Bit(v) for v in vals])(vals), (lambda vals: lambda a: "[" + ", ".join(f'cohdl.Bit("{v}")' for v in vals) + "]")(vals), lambda a: None)
        con.cases.append(Case(f"Bit:metavalue-choices:{name}", [ARG, CONDS], exhaustive_spec(covers)))
    # a selector whose type has no finite set of values the choices could cover
    ARG = Built([], lambda env: Signal[int](), lambda a: "cohdl.Signal[int]()", lambda a: None)
    CONDS = Built([], lambda env: [cohdl.Integer(0), cohdl.Integer(1)], lambda a: "[cohdl.Integer(0), cohdl.Integer(1)]", lambda a: None)
    con.cases.append(Case("Integer:choices[0, 1]", [ARG, CONDS], exhaustive_spec(False)))


# ---- bounded native sweep ----------------------------------------------------------------------------------------------------
_SCRIPT = r'''
from __future__ import annotations
import itertools, json, linecache, re
import cohdl
from cohdl import Entity, Port, Bit, BitVector, Unsigned, Signal, select_with, enum
from cohdl import std

class Mode(enum.Enum):
    idle = enum.auto()
    busy = enum.auto()
    done = enum.auto()

SELECTORS = {
    "Bit": ("self.sb", ['"0"', '"1"']),
    "BitVector[2]": ("self.sv", ['"00"', '"01"', '"10"', '"11"']),
    "Unsigned[2]": ("self.su", ['"00"', '"01"', '"10"', '"11"']),
    "Enum": ("mode", ["Mode.idle", "Mode.busy", "Mode.done"]),
    "Unsigned[2]-integer-choices": ("self.su", ["0", "1", "2", "3"]),
}
CONTEXTS = {"sequential": "@std.sequential(std.Clock(self.clk))", "concurrent": "@std.concurrent"}
bad, rejected, accepted, n = [], [], [], 0


def build(ctx, sel, choices, default):
    ns = dict(globals())
    table = ", ".join(f"{c}: self.d{j % 2}" for j, c in enumerate(choices))
    src = f"""
class Top(Entity):
    clk = Port.input(Bit)
    sb = Port.input(Bit)
    sv = Port.input(BitVector[2])
    su = Port.input(Unsigned[2])
    d0 = Port.input(Bit)
    d1 = Port.input(Bit)
    x = Port.output(Bit)

    def architecture(self):
        mode = Signal[Mode](Mode.idle, name="mode_sig")

        {ctx}
        def proc():
            self.x <<= select_with({sel}, {{{table}}}{', default=self.d1' if default else ''})
"""
    fname = f"<select design {len(linecache.cache)}>"
    linecache.cache[fname] = (len(src), None, src.splitlines(True), fname)
    exec(compile(src, fname, "exec"), ns)
    return std.VhdlCompiler.to_string(ns["Top"])


for (cname, ctx), (sname, (sel, choices)), default, complete in itertools.product(CONTEXTS.items(), SELECTORS.items(), (True, False), (True, False)):
    n += 1
    key = f"{cname},{sname},{'default' if default else 'no-default'},{'all-values' if complete else 'one-missing'}"
    used = choices if complete else choices[:-1]
    try:
        vhdl = build(ctx, sel, used, default)
    except Exception as e:
        rejected.append(key)
        continue
    accepted.append(key)
    if not default and not complete:
        text = vhdl[vhdl.index("architecture"):]
        m = re.search(r"when others =>\s*null;", text) or re.search(r"with \S+ select", text)
        bad.append([key, "accepted: the result of the selection is not assigned for the selector value that is not listed" + (" (" + m.group(0) + ")" if m else "")])
    elif default and "others" not in vhdl[vhdl.index("architecture"):]:
        bad.append([key, "the default of the selection is not part of the emitted statement"])
print("RESULT" + json.dumps({"evaluations": n, "bad": bad, "rejected": rejected, "accepted": len(accepted)}))
'''


def select_default_sweep(tier="quick", seed=0):
    from contracts.c06_extra import _run_design

    rc, text = _run_design(_SCRIPT)
    if "RESULT" not in text:
        return {"problems": [f"select_default_sweep: the script failed: {text[-400:]}"]}
    data = json.loads(text[text.index("RESULT") + 6:].splitlines()[0])
    if data["accepted"] == 0:
        return {"problems": [f"select_default_sweep: every design was rejected ({data['rejected'][:3]}): nothing was checked"]}
    violations = []
    for key, what in data["bad"]:
        oid = f"C08/select_default_sweep[{key}]#bounded"
        w = f"{key}: {what}"
        violations.append({"kind": "custom", "qual": "<C08 selections without default>", "case": key, "oid": oid, "check": "select_default_sweep", "key": key, "assignment": {"case": key}, "solver": {"what": w}, "reproduced": True,
                           "replay_payload": {"property": "C08", "custom": "contracts.c08_select.replay_select_default", "key": key, "obligation": oid, "verifier_output": w}})
    return {"evaluations": data["evaluations"], "distinct": data["evaluations"], "violations": violations, "samples": [{"evaluations": data["evaluations"], "accepted": data["accepted"], "rejected at compile time": data["rejected"]}],
            "bounded": [{"function": "cohdl._compiler.frontend._prepare_ast:PrepareAst.convert_intrinsic (select_with), cohdl._compiler.frontend._generate_ir:IrGenerator.apply (out.SelectWith), backend SelectWith / CaseWhen writers",
                         "case": "select_default_sweep", "evaluations": data["evaluations"], "exhaustive_within_bound": True,
                         "bound": "5 selector kinds (Bit, BitVector[2], Unsigned[2] with literal and integer choices, an enumeration of 3) x sequential / concurrent x default / none x all values listed / one missing"}]}


_CONTROL_SCRIPT = r'''
from __future__ import annotations
import json, linecache, re
import cohdl
from cohdl import Entity, Port, Bit, BitVector, Unsigned, Signal, select_with
from cohdl import std

BODIES = {
    "match": "match self.sv:\n                case '00':\n                    self.x <<= self.d0 & self.d1\n                case '01':\n                    pass",
    "match-with-default": "match self.sv:\n                case '00':\n                    self.x <<= self.d0\n                case _:\n                    self.x <<= self.d1",
    "match-value-used-afterwards": "match self.sv:\n                case '00':\n                    t = self.d0 & self.d1\n                case _:\n                    pass\n            self.x <<= t",
    "if": "if self.d0:\n                self.x <<= self.d1",
    "if-else": "if self.d0:\n                self.x <<= self.d1\n            else:\n                self.x <<= ~self.d1",
    "for-break": "for bit in self.sv:\n                if bit:\n                    self.x <<= self.d1\n                    break",
    "if-expression": "self.x <<= self.d0 if self.d1 else ~self.d0",
    "select-with-default": "self.x <<= select_with(self.sv, {'00': self.d0}, default=self.d1)",
}
bad, rejected, accepted, n = [], [], [], 0


def build(body):
    ns = dict(globals())
    src = f"""
class Top(Entity):
    sv = Port.input(BitVector[2])
    d0 = Port.input(Bit)
    d1 = Port.input(Bit)
    x = Port.output(Bit)

    def architecture(self):
        @std.concurrent
        def logic():
            {body}
"""
    fname = f"<control design {len(linecache.cache)}>"
    linecache.cache[fname] = (len(src), None, src.splitlines(True), fname)
    exec(compile(src, fname, "exec"), ns)
    return std.VhdlCompiler.to_string(ns["Top"])


for name, body in BODIES.items():
    n += 1
    try:
        vhdl = build(body)
    except Exception as e:
        rejected.append(name)
        continue
    accepted.append(name)
    lines = vhdl.splitlines()
    start = max(i for i, l in enumerate(lines) if l.rstrip() == "begin")  # the `begin` of the architecture (column 0)
    arch = re.sub(r"(?s)\w+\s*:\s*process.*?end process\s*;", "", "\n".join(lines[start + 1:]))
    seq = [l.strip() for l in arch.splitlines() if re.match(r"\s*(if|elsif|case|for|while|loop)\b", l) or re.match(r"\s*\w+\s*:=", l)]
    if seq:
        bad.append([name, f"accepted: sequential statements between the concurrent statements of the architecture: {seq[:3]}"])
print("RESULT" + json.dumps({"evaluations": n, "bad": bad, "rejected": rejected, "accepted": accepted}))
'''


def concurrent_control_sweep(tier="quick", seed=0):
    """BOUNDED: control statements with run-time conditions in a CONCURRENT context (match, if, for-break) are rejected, or the
    emitted architecture contains concurrent statements only; the expression forms (if-expression, select_with) are accepted"""
    from contracts.c06_extra import _run_design

    rc, text = _run_design(_CONTROL_SCRIPT)
    if "RESULT" not in text:
        return {"problems": [f"concurrent_control_sweep: the script failed: {text[-400:]}"]}
    data = json.loads(text[text.index("RESULT") + 6:].splitlines()[0])
    if not data["accepted"]:
        return {"problems": [f"concurrent_control_sweep: every design was rejected ({data['rejected'][:3]}): nothing was checked"]}
    violations = []
    for key, what in data["bad"]:
        oid = f"C08/concurrent_control_sweep[{key}]#bounded"
        w = f"{key}: {what}"
        violations.append({"kind": "custom", "qual": "<control statements in concurrent contexts>", "case": key, "oid": oid, "check": "concurrent_control_sweep", "key": key, "assignment": {"case": key}, "solver": {"what": w}, "reproduced": True,
                           "replay_payload": {"property": "C08", "custom": "contracts.c08_select.replay_concurrent_control", "key": key, "obligation": oid, "verifier_output": w}})
    return {"evaluations": data["evaluations"], "distinct": data["evaluations"], "violations": violations, "samples": [{"accepted": data["accepted"], "rejected at compile time": data["rejected"]}],
            "bounded": [{"function": "cohdl._compiler.frontend._prepare_ast:PrepareAst.apply_impl (ast.Match / ast.If / ast.For in a concurrent context)", "case": "concurrent_control_sweep", "evaluations": data["evaluations"],
                         "exhaustive_within_bound": False, "bound": "8 statement shapes in one concurrent context"}]}


def replay_concurrent_control(payload):
    r = concurrent_control_sweep()
    hit = [v for v in r.get("violations", []) if v["key"] == payload["key"]]
    return {"reproduced": bool(hit), "detail": hit[0]["solver"]["what"] if hit else "the architecture contains concurrent statements only"}


def replay_select_default(payload):
    r = select_default_sweep()
    hit = [v for v in r.get("violations", []) if v["key"] == payload["key"]]
    return {"reproduced": bool(hit), "detail": hit[0]["solver"]["what"] if hit else "every accepted selection assigns its result for every selector value"}
