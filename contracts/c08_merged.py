"""C08 / C05: _value_branch._MergedBranch.__new__ -- the value of an if-expression, of a function with several returns, of
std.select ... merged from its alternatives.

    no alternative            -> None
    one alternative           -> that object
    all alternatives the same -> that object
    joinable (_try_join finds a common primitive type T)
                              -> ONE new intermediate `Temporary[T]()`, created as an ordinary intermediate (NOT marked
                                 maybe_uninitialized: the definite-assignment analysis must treat it like every other intermediate --
                                 computed inside one branch of an `if` and used after it, it has to be rejected), and every
                                 alternative is redirected to it, once, in order
    otherwise                 -> a new _MergedBranch object
"""

from __future__ import annotations

from cohdl._compiler.frontend import _value_branch as VB

from pyvc import contracts as C
from pyvc import interp as I
from pyvc.contracts import Case, contract
from pyvc.values import SObj, Opaque
from contracts.c05_format_cast import Built

PROPS = ("C08", "C05")


class _TempFactory:
    """stand-in of the name `Temporary` in the module: Temporary[T] -> class stand-in, calling it records the arguments"""


class _TempClass:
    pass


class _Branch:
    """_ValueBranch stand-in: obj, _redirect(result) recorded"""


_TempFactory.__getitem__ = lambda self, t: None
_TempClass.__call__ = lambda self, *a, **k: None
_Branch._redirect = lambda self, result: None
I.register_model(_TempFactory.__getitem__, lambda it, self, t: SObj(_TempClass, f_type=t))


def _temp_call(it, self, *args, **kwargs):
    t = SObj(_TempClass, f_type=self.fields["f_type"], f_args=list(args), f_kwargs=dict(kwargs), f_instance=True)
    it.created.append(t)
    return t


def _redirect(it, self, result):
    it.redirects.append((self, result))
    return None


I.register_model(_TempClass.__call__, _temp_call)
I.register_model(_Branch._redirect, _redirect)

SCENARIOS = {
    "no-alternative": (0, None, "none"),
    "one-alternative": (1, None, "first"),
    "all-the-same-object": (3, "same", "first"),
    "joinable-2": (2, "join", "temporary"),
    "joinable-3": (3, "join", "temporary"),
    "not-joinable": (2, "nojoin", "merged"),
}


def branches_shape(n, how):
    def make(env):
        shared = Opaque("shared object")
        return [SObj(_Branch, obj=shared if how == "same" else Opaque(f"alternative {i}"), f_i=i) for i in range(n)]

    return Built([], make, lambda a: "<branches>", lambda a: None)


def merged_spec(n, how, want):
    def spec(sx, cls, branches):
        it = sx.it
        real = sx.real_args[1]

        def holds(res):
            if want == "none":
                return res is None and not it.created and not it.redirects
            if want == "first":
                return res is real[0].fields["obj"] and not it.created and not it.redirects
            if want == "merged":
                return (isinstance(res, VB._MergedBranch) or (isinstance(res, SObj) and res.kind is VB._MergedBranch)) and not it.created and not it.redirects
            # joinable: one ordinary intermediate of the joined type, every alternative redirected to it once, in order
            if len(it.created) != 1 or res is not it.created[0]:
                return False
            t = it.created[0]
            if t.fields["f_type"] != "JOINED-TYPE" or t.fields["f_args"]:
                return False
            if any(v not in (False, None) for k, v in t.fields["f_kwargs"].items() if k == "maybe_uninitialized") or any(k != "maybe_uninitialized" for k in t.fields["f_kwargs"]):
                return False
            return len(it.redirects) == n and all(b is real[i] and r is t for i, (b, r) in enumerate(it.redirects))

        return C.Pred(holds, "see module docstring")

    return spec


con = contract("cohdl._compiler.frontend._value_branch:_MergedBranch.__new__", PROPS)
for name, (n, how, want) in SCENARIOS.items():
    c = Case(name, [Built([], lambda env: VB._MergedBranch, lambda a: "_MergedBranch", lambda a: None), branches_shape(n, how)], merged_spec(n, how, want))
    c.native = False
    c.models = [(VB._try_join, (lambda how: lambda it, options: "JOINED-TYPE" if how == "join" else None)(how))]
    c.interp_flags = {"abstract_type_creation": True}

    def _setup(it, ctx, args, env):
        it.created, it.redirects = [], []
        ctx.global_overlay[(VB.__name__, "Temporary")] = SObj(_TempFactory)

    c.setup = _setup
    c.custom_replay = "contracts.c08_merged.replay_merged_conditional"
    con.cases.append(c)


_MERGED_DESIGN = '''
from cohdl import Entity, Port, Bit, Unsigned, std
class MergedConditional(Entity):
    clk = Port.input(Bit)
    sel = Port.input(Bit)
    c = Port.input(Bit)
    a = Port.input(Unsigned[4])
    b = Port.input(Unsigned[4])
    o = Port.output(Unsigned[4], default=0)
    def architecture(self):
        @std.sequential(std.Clock(self.clk))
        def proc():
            if self.sel:
                m = self.a if self.c else self.b
            self.o <<= m
try:
    std.VhdlCompiler.to_string(MergedConditional)
    print("ACCEPTED")
except Exception as e:
    print("REJECTED", type(e).__name__)
'''


def replay_merged_conditional(payload):
    from contracts.c06_extra import _run_design

    rc, out = _run_design(_MERGED_DESIGN)
    return {"reproduced": "ACCEPTED" in out, "detail": "an if-expression evaluated in one branch of an `if`, its value used after the `if`: " + out[-40:]}
