"""C11 / C06: the library clauses of an emitted entity (Entity._library_declaration).

C11: the clauses are emitted in order of first use; no iteration over a set of strings reaches the text (hash seed).
C06: every library an instantiation names (`entity <library>.<name>`) is declared -- also the libraries of EXTERN entities,
     which the constructor does not list in `_sub_entities` (only compiled entities are).
"""

from __future__ import annotations

from cohdl._compiler.backend.vhdl import _vhdl_repr as VR

from pyvc import contracts as C
from pyvc import interp as I
from pyvc.contracts import Case, contract
from pyvc.values import SObj
from contracts.c05_format_cast import Built

PROPS = ("C11",)

# ---- 4. library clauses: no hash-seed dependent order ----------------------------------------------------------------
def lib_shape(paths):
    """paths: one entry per instance of the architecture: a library path (instance of a compiled entity), ("extern", path)
    (instance of an extern entity: the constructor does NOT list those in _sub_entities) or "other" (not an entity)"""

    def make(env):
        subs, insts = [], []
        for p in paths:
            if p == "other":
                insts.append(SObj(VR.Instance))
                continue
            extern = isinstance(p, tuple)
            ent = SObj(VR.Entity, __path__=p[1] if extern else p)
            inst = SObj(VR.EntityInst, _entity=ent)
            insts.append(inst)
            if not extern:
                subs.append(inst)
        return SObj(VR.Entity, _sub_entities=subs, _instances=insts)

    return Built([], make, lambda a: "None", lambda a: None)


I.register_model(VR.Entity.__dict__["path"], lambda it, self: self.fields["__path__"])
C.inline("cohdl.utility.code_writer:TextBlock.__init__")
C.inline("cohdl.utility.code_writer:TextBlock.add")


def lib_on_exit(it, ctx, real, rep):
    bad = [e for e in ctx.events if e[0] == "iter-set-of-str"]
    ctx.prove(rep.oid("no-set-of-str-iteration"), not bad, events=str(bad)[:120])


def lib_spec(paths):
    def spec(sx, self):
        want = []
        # every library an instantiation names (`entity <library>.<name>`) needs a library clause (C06) -- also the
        # libraries of extern entities, which are the usual reason to have another library at all
        for p in paths:
            if p == "other":
                continue
            p = p[1] if isinstance(p, tuple) else p
            if p is not None and p != "work":
                line = f"library {p.split('.')[0].lower()};"
                if line not in want:
                    want.append(line)

        def holds(res):
            content = res.fields["_content"] if isinstance(res, SObj) else None
            return content == ["library ieee;", "use ieee.std_logic_1164.all;", "use ieee.numeric_std.all;"] + want

        return C.Pred(holds, "library clauses in order of first use")

    return spec



con = contract("cohdl._compiler.backend.vhdl._vhdl_repr:Entity._library_declaration", PROPS + ("C06",))
for paths in ([], ["work"], ["liba"], ["liba", "libb"], ["libb", "liba", "libb"], ["LibC.sub", "liba", None, "libb"],
              [("extern", "mylib")], ["other", ("extern", "libb"), "liba", "other", ("extern", "work"), ("extern", "LibB.x")], ["other"]):
    c = Case("paths-" + ("-".join("extern:" + str(p[1]) if isinstance(p, tuple) else str(p) for p in paths) or "none"), [lib_shape(paths)], lib_spec(paths))
    if any(isinstance(p, tuple) for p in paths):
        c.custom_replay = "contracts.c06_library.replay_extern_library"
        c.props = ("C06",)  # completeness of the clauses is the C06 half; the order (C11) is covered by the cases above
    c.native = False
    c.on_exit = lib_on_exit
    con.cases.append(c)

_EXTERN_LIB_DESIGN = '''
from cohdl import Entity, Port, Bit, std
class Ext(Entity, extern=True, attributes={"path": "mylib"}):
    a = Port.input(Bit)
    o = Port.output(Bit)
class Top(Entity):
    a = Port.input(Bit)
    o = Port.output(Bit)
    def architecture(self):
        Ext(a=self.a, o=self.o)
t = std.VhdlCompiler.to_string(Top)
print("USES", "entity mylib.Ext" in t, "DECLARES", "library mylib;" in t)
'''


def replay_extern_library(payload):
    from contracts.c06_extra import _run_design

    rc, out = _run_design(_EXTERN_LIB_DESIGN)
    return {"reproduced": rc == 0 and "USES True DECLARES False" in out, "detail": out[-300:]}
