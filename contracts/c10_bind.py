"""C10 bounded stand-in: argument binding of the tracer
(FunctionDefinition.bind_args) against CPython itself.

Oracle: the CPython call itself -- every generated function returns dict(locals()),
so f(*args, **kwargs) yields CPython's binding or raises TypeError.  For every signature shape within the bound (0-2 positional-only,
0-2 positional-or-keyword, optional *args, 0-2 keyword-only, optional **kwargs,
every admissible subset of parameters with defaults) and every call shape
(0-5 positional arguments x every subset of keyword names drawn from the
parameter names and one foreign name) the REAL bind_args must
   * bind every parameter to the same argument CPython binds it to, or
   * raise when (and only when) CPython raises TypeError.
bind_args only moves argument objects, it never inspects them: distinct marker
objects per argument make the comparison complete for each shape.
Methods (bound self argument) are included through a class with the same shapes.
"""

from __future__ import annotations

import importlib.util
import inspect
import itertools
import os
import shutil
import sys
import tempfile

from cohdl._core._collect_ast_and_scope import FunctionDefinition


def signature_shapes(tier):
    maxp = 2
    shapes = []
    for npos, narg, nkw in itertools.product(range(0, maxp + 1), range(0, maxp + 1), range(0, maxp + 1)):
        if tier == "quick" and npos + narg + nkw > 4:
            continue
        for vararg, kwarg in itertools.product((False, True), repeat=2):
            positional = [f"p{i}" for i in range(npos)] + [f"a{i}" for i in range(narg)]
            # defaults of positional parameters form a suffix
            for ndef in range(0, len(positional) + 1):
                for kwdef in itertools.product((False, True), repeat=nkw):
                    shapes.append((npos, narg, nkw, vararg, kwarg, ndef, kwdef))
    return shapes


def render(name, shape, method=False):
    npos, narg, nkw, vararg, kwarg, ndef, kwdef = shape
    positional = [f"p{i}" for i in range(npos)] + [f"a{i}" for i in range(narg)]
    parts = ["self"] if method else []
    first_default = len(positional) - ndef
    for i, p in enumerate(positional):
        parts.append(p + (f"='D_{p}'" if i >= first_default else ""))
        if i == npos - 1:
            parts.append("/")
    if method and npos == 0:
        pass
    if vararg:
        parts.append("*va")
    elif nkw:
        parts.append("*")
    for i in range(nkw):
        parts.append(f"k{i}" + (f"='D_k{i}'" if kwdef[i] else ""))
    if kwarg:
        parts.append("**kw")
    # positional-only marker must come after self for methods
    if method and npos > 0:
        pass
    indent = "    " if method else ""
    return f"{indent}def {name}({', '.join(parts)}):\n{indent}    return dict(locals())\n"


def call_shapes(shape):
    npos, narg, nkw, vararg, kwarg, ndef, kwdef = shape
    names = [f"p{i}" for i in range(npos)] + [f"a{i}" for i in range(narg)] + [f"k{i}" for i in range(nkw)] + ["zz"]
    for n in range(0, npos + narg + 2):
        for r in range(0, min(len(names), 3) + 1):
            for kws in itertools.combinations(names, r):
                yield n, kws


def bind_sweep(tier="quick", seed=0):
    shapes = signature_shapes(tier)
    d = tempfile.mkdtemp(prefix="pyvc_c10_")
    n = 0
    fails = {}
    try:
        src = ["class K:\n"]
        for i, s in enumerate(shapes):
            src.append(render(f"m{i}", s, method=True))
        src.append("\n")
        for i, s in enumerate(shapes):
            src.append(render(f"f{i}", s))
        path = os.path.join(d, "c10_generated.py")
        with open(path, "w") as f:
            f.write("".join(src))
        spec = importlib.util.spec_from_file_location("c10_generated", path)
        mod = importlib.util.module_from_spec(spec)
        sys.modules["c10_generated"] = mod
        spec.loader.exec_module(mod)
        inst = mod.K()
        for i, s in enumerate(shapes):
            for kind in ("function", "method", "local"):
                if kind == "method" and tier == "quick" and i % 4:
                    continue
                if kind == "local" and tier == "quick" and i % 2:
                    continue
                fn = getattr(inst, f"m{i}") if kind == "method" else getattr(mod, f"f{i}")
                if kind == "local":
                    # a function DEFINED inside compiled code: its definition is built from the syntax tree and the
                    # default expressions are converted when the definition is executed (from_ast_fn without captured defaults)
                    import ast as _ast
                    from cohdl._core._collect_ast_and_scope import SourceLocation

                    fdef = FunctionDefinition.from_ast_fn(_ast.parse(render("f", s)).body[0], "f", global_dict={"__builtins__": __builtins__}, nonlocal_dict={}, default_converter=lambda node: _ast.literal_eval(node),
                                                          location=SourceLocation("<generated>", 1, "f"))
                else:
                    fdef = FunctionDefinition.from_callable(fn)
                for npos_args, kws in call_shapes(s):
                    args = [f"ARG{j}" for j in range(npos_args)]
                    kwargs = {k: f"KW_{k}" for k in kws}
                    n += 1
                    try:
                        # the oracle is the CALL itself (inspect.Signature.bind deviates from it for a
                        # positional-only name passed through **kwargs)
                        want = fn(*args, **kwargs)
                        want.pop("self", None)
                    except TypeError as e:
                        want = None
                    passed_args, passed_kw = list(args), dict(kwargs)
                    try:
                        got = dict(fdef.bind_args(passed_args, passed_kw)._scope)
                        if kind == "method":
                            got.pop("self", None)
                    except Exception as e:
                        got = None
                    if got is not None and (passed_args != args or passed_kw != kwargs):
                        # frame: a call does not consume the caller's argument containers (the front end passes ONE
                        # keyword dict first to a user-defined __new__ and then to __init__)
                        key = "modifies the argument containers it was called with"
                        fails.setdefault(key, f"{kind} `{render('f', s).splitlines()[0].strip()}` called with {npos_args} positional and keywords {list(kws)}: "
                                              f"after bind_args the caller's containers are {passed_args} / {passed_kw} (passed {args} / {kwargs})")
                    if want is None and got is None:
                        continue
                    ok = want is not None and got is not None and all(k in got and got[k] == v for k, v in want.items())
                    if not ok:
                        what = ("accepts a call CPython rejects" if want is None else "rejects a call CPython accepts" if got is None else "binds differently")
                        key = what
                        fails.setdefault(key, f"{kind} `{render('f', s).splitlines()[0].strip()}` called with {npos_args} positional and keywords {list(kws)}: {what}; CPython: {want}; bind_args: { {k: got[k] for k in want} if (got and want) else got}")
    finally:
        shutil.rmtree(d, ignore_errors=True)
        sys.modules.pop("c10_generated", None)
    violations = []
    for key, what in sorted(fails.items()):
        oid = f"C10/bind-sweep[{key}]#bounded"
        violations.append({
            "kind": "custom", "qual": "<C10 bind_args sweep>", "case": key, "oid": oid, "check": "bind_sweep", "key": key,
            "assignment": {"deviation": key}, "solver": {"what": what}, "reproduced": True,
            "replay_payload": {"property": "C10", "custom": "contracts.c10_bind.replay", "key": key, "tier": tier, "obligation": oid, "verifier_output": what},
        })
    return {
        "evaluations": n, "distinct": n, "violations": violations, "samples": [{"signature_shapes": len(shapes)}],
        "bounded": [{"function": "cohdl._core._collect_ast_and_scope:FunctionDefinition.bind_args", "case": "all signature x call shapes", "evaluations": n, "exhaustive_within_bound": True,
                     "bound": "<= 2 positional-only, <= 2 positional-or-keyword, <= 2 keyword-only parameters, optional *args / **kwargs, all default patterns; <= n+1 positional arguments, <= 3 keywords incl. a foreign name"}],
    }


def replay(payload):
    r = bind_sweep(payload.get("tier", "quick"), 0)
    hit = [v for v in r["violations"] if v["key"] == payload["key"]]
    return {"reproduced": bool(hit), "detail": hit[0]["solver"] if hit else "binding agrees with CPython on the whole bound"}
