"""C09 / C02 / C13: TypeQualifier.left / right / msb / lsb -- the run-time counterparts of BitVector.left / right / msb / lsb that
are traced into synthesizable code.  They are views: the sub-range they request from `self[...]` must be the one the compile-time
method of the VALUE selects (BitVector.left(width, rest) = the leftmost `width` (resp. W - rest) bits, right = the rightmost; msb / lsb
are left / right for the DOWNTO vectors these contracts cover), for a symbolic width W and symbolic count / rest:

    left / msb :  count -> self[W-1 : W-count]     rest -> self[W-1 : rest]          neither -> self[W-1]
    right / lsb:  count -> self[count-1 : 0]       rest -> self[W-rest-1 : 0]        neither -> self[0]
    count and rest together must add up to W (otherwise rejected)

What `self[hi:lo]` / `self[i]` then denote is the TypeQualifier.__getitem__ contract (c13_views).
"""

from __future__ import annotations

from cohdl import Signal
from cohdl._core._type_qualifier import TypeQualifier

from pyvc import contracts as C
from pyvc import interp as I
from pyvc import sym
from pyvc.contracts import Case, contract, PyInt
from pyvc.values import SObj
from contracts.c05_format_cast import Built

PROPS = ("C09", "C02", "C13")


class _Val:
    """the wrapped value: only its width is used"""


def _getitem(it, self, key):
    return ("sub", key)


def part_spec(method, how):
    leftish = method in ("left", "msb")

    def spec(sx, self, *args, **kw):
        env = sx.it.case_env
        W = env["w"]
        count, rest = env.get("count"), env.get("rest")
        if how == "both":
            sx.require(sym.eq(count + rest, W))
        if how in ("count", "both"):
            hi, lo = (W - 1, W - count) if leftish else (count - 1, 0)
        elif how == "rest":
            hi, lo = (W - 1, rest) if leftish else (W - rest - 1, 0)
        else:
            hi = lo = None
            idx = W - 1 if leftish else 0

        def holds(res):
            if not (isinstance(res, tuple) and len(res) == 2 and res[0] == "sub"):
                return False
            key = res[1]
            if how == "none":
                return False if isinstance(key, slice) else sym.eq(key, idx)
            if not isinstance(key, slice) or key.step is not None:
                return False
            return sym.And(sym.eq(key.start, hi), sym.eq(key.stop, lo))

        return C.Pred(holds, f"{method}({how}): the requested sub-range")

    return spec


for method in ("left", "right", "msb", "lsb"):
    con = contract(f"cohdl._core._type_qualifier:TypeQualifier.{method}", PROPS)
    for how in ("none", "count", "rest", "both"):
        shapes = [Built(["w"], lambda env: SObj(Signal, _value=SObj(_Val, width=env["w"]), _ref_spec=[]), lambda a: "<signal>", lambda a: None, lambda env: env["w"] >= 1)]
        kwargs = {}
        if how in ("count", "both"):
            kwargs["count"] = PyInt("count", 1, None, 1, 6)
        if how in ("rest", "both"):
            kwargs["rest"] = PyInt("rest", 0, None, 0, 6)
        c = Case(f"{how}", shapes, part_spec(method, how), kwargs=kwargs)
        c.native = False
        c.may_reject = None
        c.models = [(TypeQualifier.__dict__["__getitem__"], _getitem)]
        c.custom_replay = "contracts.c09_tqparts.replay_parts"
        con.cases.append(c)


_PARTS_DESIGN = '''
from cohdl import Entity, Port, BitVector, std
class Parts(Entity):
    v = Port.input(BitVector[8])
    a = Port.output(BitVector[3])
    b = Port.output(BitVector[3])
    c = Port.output(BitVector[3])
    d = Port.output(BitVector[3])
    def architecture(self):
        @std.concurrent
        def logic():
            self.a <<= self.v.left(rest=5)
            self.b <<= self.v.right(rest=5)
            self.c <<= self.v.msb(rest=5)
            self.d <<= self.v.lsb(rest=5)
t = std.VhdlCompiler.to_string(Parts)
import re
print({n: re.search(rf"buffer_{n} <= [^;]*v\\((\\d+ downto \\d+)\\)", t).group(1) for n in "abcd"})
'''


def replay_parts(payload):
    from contracts.c06_extra import _run_design

    rc, out = _run_design(_PARTS_DESIGN)
    want = "{'a': '7 downto 5', 'b': '2 downto 0', 'c': '7 downto 5', 'd': '2 downto 0'}"
    return {"reproduced": rc == 0 and want not in out, "detail": "left / right / msb / lsb (rest=5) of an 8 bit port: " + out[-120:]}
