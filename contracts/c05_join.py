"""C05 (branch merge): the join type of merged alternatives,
`_value_branch._try_join(options)`, proved from the real source for symbolic
widths.

When the tracer merges the alternatives of an if-expression / select_with /
returning branches it may join them in ONE temporary of type T = _try_join(options);
every alternative is then converted to T and T is converted to the final target.
That is only value preserving if
   * no alternative is Null / Full -- their meaning depends on the width of the FINAL target
     (`u8 <<= (u4 if c else Full)` must give 0xFF, not the Full of the 4 bit join type), and
   * every alternative converts to T by the conversion matrix of C05 (no narrowing, no
     Signed/Unsigned reinterpretation, no width-mismatched BitVector).
Contract: the result is None (no join: the alternatives stay separate and are converted to the final target one
by one) or a type T with both properties.
"""

from __future__ import annotations

import itertools

from cohdl import Unsigned, Signed, BitVector, Bit, Null, Full
from cohdl._core._bit import BitState
from cohdl._compiler.frontend import _value_branch as VB

from pyvc import contracts as C
from pyvc import interp as I
from pyvc import sym
from pyvc.contracts import Case, contract
from pyvc.values import SObj, SCls
from contracts import core_models as M
from contracts.core_models import UShape, SShape, BVShape, BitShape, NULL, FULL
from contracts.c05_convert import convert

PROPS = ("C05", "C02")

C.inline("cohdl._core._type_qualifier:TypeQualifierBase.decay")
C.inline("cohdl._core._primitive_type:is_primitive")

OPTIONS = {
    "u": lambda p: UShape(p + "w", p + "v"),
    "s": lambda p: SShape(p + "w", p + "v"),
    "bv": lambda p: BVShape(p + "w", p + "v"),
    "bit": lambda p: BitShape(BitState.HIGH),
    "null": lambda p: NULL,
    "full": lambda p: FULL,
    # a path that provides NO value (bare `return`, `x if c else None`): never joined -- the join type's constructor would turn
    # it into a constant (Unsigned[4](None) is "0000", Bit(None) is 'U'); the alternatives stay separate and _Redirect rejects it
    "none": lambda p: C.Const(None, "None"),
}


def join_spec(kinds):
    def spec(sx, options):
        if any(k in ("null", "full", "none") for k in kinds):
            return None

        def holds(res):
            if res is None:
                return True
            if isinstance(res, SCls):
                kind, w = res.kind, res.params.get("width")
            elif isinstance(res, type):
                kind, w = res, getattr(res, "width", None)
            else:
                return False
            for o in options:
                if kind is Bit:
                    if not (isinstance(o, SObj) and o.kind is Bit):
                        return False
                    continue
                try:
                    convert(sx, kind, w, o)
                except C.SpecRaise:
                    return False
                # ... and the detour through T must not be MORE permissive than the direct assignment to the final target:
                # a BitVector alternative joined into Signed[8] would then be sign-extended into a Signed[16] target,
                # which `s16 <<= bv8` rejects.  Widening inside one kind is transparent, a change of kind is not.
                if isinstance(o, SObj) and issubclass(o.kind, BitVector) and issubclass(kind, BitVector):
                    vk = lambda k: Signed if issubclass(k, Signed) else Unsigned if issubclass(k, Unsigned) else BitVector
                    if vk(o.kind) is not vk(kind):
                        return False
            return True

        return C.Pred(holds, "None, or a type every alternative converts to (and no Null / Full among them)")

    return spec


class ListOf(C.Shape):
    def __init__(self, shapes):
        self.shapes = shapes
        self.names = [n for s in shapes for n in s.names]

    def make(self, ctx, env):
        return [s.make(ctx, env) for s in self.shapes]

    def assume(self, env):
        return sym.And(*[s.assume(env) for s in self.shapes if s.assume(env) is not True])

    def concrete_src(self, asg):
        return "[" + ", ".join(s.concrete_src(asg) for s in self.shapes) + "]"

    def concrete_spec(self, asg):
        return [s.concrete_spec(asg) for s in self.shapes]

    def sample(self, rng, asg):
        for s in self.shapes:
            s.sample(rng, asg)


# ---- _Redirect: every alternative that is redirected into the target of a merge must CONVERT to the target's type ------------
# (`u8 <<= s8 if c else u8`: the alternatives stay separate, each is assigned to the target by a _Redirect; an alternative
#  the conversion matrix rejects -- equal width, other signedness -- must reject the design, not be reinterpreted)
from cohdl import Signal  # noqa: E402
from cohdl._core._type_qualifier import TypeQualifier  # noqa: E402
from contracts.core_models import vec, width  # noqa: E402
from contracts.c05_convert import KINDS  # noqa: E402
from contracts.c05_format_cast import Built  # noqa: E402


def redirect_target(kind):
    def make(env):
        W = SCls(kind, width=env["tw"])
        t = SObj(Signal, _value=vec(kind, env["tw"], 0, known=False), _ref_spec=[], _attributes=[], type=W)
        t.fields["_root"] = t
        return t

    return Built(["tw"], make, lambda asg: "None", lambda asg: None, lambda env: env["tw"] >= 1)


def redirect_source(kind):
    def make(env):
        p = vec(kind, env["w2"], env["b"])
        o = SObj(Signal, _value=p, _ref_spec=[], _attributes=[])
        o.fields["_root"] = o
        return o

    return Built(["w2", "b"], make, lambda asg: "None", lambda asg: None, lambda env: sym.And(env["w2"] >= 1, env["b"] >= 0, env["b"] < sym.pow2(env["w2"])))


def redirect_spec(tkind):
    def spec(sx, self, target, source):
        convert(sx, tkind, target.fields["type"].params["width"], source.fields["_value"])  # rejected pairs are rejected here
        real = sx.real_args

        def holds(res):
            return res is None and real[0].fields.get("target") is real[1] and real[0].fields.get("source") is real[2]

        return C.Pred(holds, "records (target, source) once the source converts to the target type")

    return spec


con = contract("cohdl._compiler.frontend._value_branch:_Redirect.__init__", PROPS)
for TK, _, _ in KINDS:
    for SK, _, _ in KINDS:
        c = Case(f"{TK.__name__}<-rt-{SK.__name__}", [Built([], lambda env: SObj(VB._Redirect), lambda a: "None", lambda a: None), redirect_target(TK), redirect_source(SK)], redirect_spec(TK))
        c.native = False
        con.cases.append(c)

# constant alternatives: a path without value is not an alternative the target type can represent (the direct assignment
# `target <<= None` is rejected by every _assign)
def redirect_none_spec(sx, self, target, source):
    sx.reject(AssertionError)


for TK in [k for k, _, _ in KINDS] + [Bit]:
    def _target(env, TK=TK):
        t = SObj(Signal, _value=None, _ref_spec=[], _attributes=[], type=TK[4] if TK is not Bit else Bit)
        t.fields["_root"] = t
        return t

    c = Case(f"{TK.__name__}<-None", [Built([], lambda env: SObj(VB._Redirect), lambda a: "None", lambda a: None), Built([], _target, lambda a: "None", lambda a: None), C.Const(None, "None")], redirect_none_spec)
    c.native = False
    c.custom_replay = "contracts.c05_join.replay_none_alternative"
    con.cases.append(c)

_NONE_DESIGN = '''
from cohdl import Entity, Port, Bit, Unsigned, std

class Top(Entity):
    clk = Port.input(Bit)
    c = Port.input(Bit)
    a = Port.input(Unsigned[4])
    q = Port.output(Unsigned[4])

    def architecture(self):
        def opt(x):
            if x:
                return
            return self.a

        @std.sequential(std.Clock(self.clk))
        def proc():
            self.q <<= opt(self.c)

t = std.VhdlCompiler.to_string(Top)
print("ACCEPTED", "NONE_BECAME_ZERO" if '"0000"' in t else "")
'''


def replay_none_alternative(payload):
    """a helper that returns a value on one path and nothing on the other: the missing value is assigned as zeros"""
    from contracts.c06_extra import _run_design

    rc, out = _run_design(_NONE_DESIGN)
    return {"reproduced": rc == 0 and "NONE_BECAME_ZERO" in out, "detail": out[-200:]}


con = contract("cohdl._compiler.frontend._value_branch:_try_join", PROPS)
for n in (1, 2, 3):
    for kinds in itertools.product(OPTIONS, repeat=n):
        if n == 3 and len(set(kinds)) == 3 and "bit" in kinds:
            continue
        shapes = [OPTIONS[k](f"o{i}") for i, k in enumerate(kinds)]
        c = Case("+".join(kinds), [ListOf(shapes)], join_spec(kinds))
        c.native = False
        con.cases.append(c)
