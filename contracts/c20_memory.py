"""C20: reg.Memory._cohdlstd_impl_write -- a bus write updates exactly the strobed bytes of the addressed word.

The memory word is written according to the configured mask mode:
  IGNORE       the whole word (strobes deliberately ignored -- a documented mode)
  IMMEDIATE    mem[a] <= mask.apply(mem[a], data)       (old bits where the mask is 0: std.Mask contract / sweep)
  SPLIT_WORDS  (aligned) the word is stored as `word_stride` byte lanes; lane n is written with data bits
               [unit_width*(n+1)-1 : unit_width*n] exactly when the mask bit OF THAT LANE (bit unit_width*n of the
               stretched strobe mask) is set, for every combination of lane strobes (symbolic mask bits).
Checked for 32 bit words of 4 byte lanes and 16 bit words of 2 byte lanes (the index arithmetic differs between them).
"""

from __future__ import annotations

import z3

from cohdl.std.reg import reg as REG

from pyvc import contracts as C
from pyvc import interp as I
from pyvc import sym
from pyvc.contracts import Case, contract
from pyvc.values import SObj
from contracts.c05_format_cast import Built

PROPS = ("C20",)
MOD = "cohdl.std.reg.reg"
MM = REG.Memory.MaskMode


class _Stub:
    """mask / mask vector / data word / memory lane / cell stand-ins"""


for _n in ("as_vector", "apply", "__getitem__", "__setitem__", "__ilshift__", "_as_word_addr_"):
    setattr(_Stub, _n, (lambda n: lambda self, *a, **k: None)(_n))
# `mem[a] <<= v` is  t = mem[a]; t = t.__ilshift__(v); mem[a] = t : the store-back of the same cell is a no-op
I.register_model(_Stub.__setitem__, lambda it, self, key, value: None)


def _getitem(it, self, key):
    role = self.fields["f_role"]
    if role == "maskvec":
        it.asked.append(key)
        return it.mask_bit(key)
    if role == "data":
        return ("data-bits", key.start, key.stop) if isinstance(key, slice) else ("data-bit", key)
    if role in ("lane", "mem"):
        return SObj(_Stub, f_role="cell", f_of=self, f_addr=key)
    raise AssertionError(role)


def _ilshift(it, self, value):
    it.writes.append((self.fields["f_of"], self.fields["f_addr"], value))
    return self


I.register_model(_Stub.as_vector, lambda it, self, w: SObj(_Stub, f_role="maskvec", f_width=w))
I.register_model(_Stub.apply, lambda it, self, old, new: ("mask.apply", old, new))
I.register_model(_Stub.__getitem__, _getitem)
I.register_model(_Stub.__ilshift__, _ilshift)
I.register_model(_Stub._as_word_addr_, lambda it, self, addr: ("word-addr", addr))


def _variable(x):
    pass


I.register_model(_variable, lambda it, x: x)


def mem_shape(mode, unit_width, stride):
    def make(env):
        lanes = [SObj(_Stub, f_role="lane", f_nr=n) for n in range(stride)]
        return SObj(REG.Memory, _mask_mode=mode, _allow_unaligned=False, _word_stride=stride, _unit_width=unit_width, _mem_list=lanes, _mem=SObj(_Stub, f_role="mem"),
                    _register_tools_=SObj(_Stub, f_role="tools"), f_word_width=unit_width * stride)

    return Built([], make, lambda a: "None", lambda a: None)


def write_spec(mode, unit_width, stride):
    def spec(sx, self, addr, data, mask):
        it = sx.it
        real = sx.real_args[0]

        def holds(res):
            waddr = ("word-addr", "ADDR")
            if mode is MM.IGNORE:
                return len(it.writes) == 1 and it.writes[0][0] is real.fields["_mem"] and it.writes[0][1] == waddr and it.writes[0][2] is sx.real_args[2]
            if mode is MM.IMMEDIATE:
                if len(it.writes) != 1 or it.writes[0][0] is not real.fields["_mem"] or it.writes[0][1] != waddr:
                    return False
                v = it.writes[0][2]
                return isinstance(v, tuple) and v[0] == "mask.apply" and isinstance(v[1], SObj) and v[1].fields["f_of"] is real.fields["_mem"] and v[1].fields["f_addr"] == waddr and v[2] is sx.real_args[2]
            # SPLIT_WORDS, aligned
            for n, lane in enumerate(real.fields["_mem_list"]):
                ws = [w for w in it.writes if w[0] is lane]
                bit = it.mask_bit(unit_width * n)  # the strobe of byte lane n
                if it.ctx.entails(bit):
                    if len(ws) != 1 or ws[0][1] != waddr or ws[0][2] != ("data-bits", unit_width * (n + 1) - 1, unit_width * n):
                        return False
                elif it.ctx.entails(z3.Not(bit)):
                    if ws:
                        return False
                else:
                    return False  # the path did not even look at this lane's strobe
            return len(it.writes) == sum(1 for w in it.writes if any(w[0] is l for l in real.fields["_mem_list"]))

        return C.Pred(holds, "exactly the strobed lanes are written, each with its own data bits")

    return spec


con = contract(f"{MOD}:Memory._cohdlstd_impl_write", PROPS)
for mode in (MM.IGNORE, MM.IMMEDIATE, MM.SPLIT_WORDS):
    for unit_width, stride in ((8, 4), (8, 2)):
        ADDR = Built([], lambda env: "ADDR", lambda a: "'ADDR'", lambda a: None)
        DATA = Built([], lambda env: SObj(_Stub, f_role="data"), lambda a: "None", lambda a: None)
        MASK = Built([], lambda env: SObj(_Stub, f_role="mask"), lambda a: "None", lambda a: None)
        c = Case(f"{mode.name},{stride}-lanes-of-{unit_width}-bits", [mem_shape(mode, unit_width, stride), ADDR, DATA, MASK], write_spec(mode, unit_width, stride))
        c.native = False
        c.models = [(REG.RegisterObject.__dict__["_word_width_"].__func__, lambda it, cls: it.word_width)]
        c.interp_flags = {"await_hook": lambda it, v: v}

        def setup(it, ctx, args, env):
            it.writes, it.asked = [], []
            it.word_width = args[0].fields["f_word_width"]
            bits = {}

            def mask_bit(k):
                if k not in bits:
                    bits[k] = z3.Bool(f"mask_bit_{k}")
                return bits[k]

            it.mask_bit = mask_bit
            ctx.global_overlay[(MOD, "Variable")] = _variable

        c.setup = setup
        con.cases.append(c)


# ---- Memory._config_: the storage of every mask mode is created through the configured qualifier -------------------------------
# C04: a memory configured with noreset=True keeps its content while reset is active -- its storage arrays are NoresetSignals in
# EVERY mask mode (one array of words, or `word_stride` arrays of address units for SPLIT_WORDS).  C20: the layout of the storage
# (element width, element count, number of lanes) is what the read / write contracts above assume.
from cohdl import BitVector as _BV, Null as _Null  # noqa: E402

CONFIG_PROPS = ("C04", "C20")
MISSING = I._MISSING


class _Q:
    """Signal / NoresetSignal stand-in: Q[type](initial) creates one storage object"""

    def __getitem__(self, t):
        return None

    def __call__(self, initial):
        return None


class _StdStub:
    """the `std` namespace as far as _config_ uses it: std.Array[elem, count]"""


class _ArrayStub:
    def __getitem__(self, key):
        return None


class _Storage:
    """one created storage array"""


I.register_model(_Q.__getitem__, lambda it, self, t: SObj(_Q, f_kind=self.fields["f_kind"], f_type=t))
I.register_model(_Q.__call__, lambda it, self, initial: SObj(_Storage, f_kind=self.fields["f_kind"], f_type=self.fields["f_type"], f_initial=initial))
I.register_model(_ArrayStub.__getitem__, lambda it, self, key: ("array",) + tuple(key))
I.CLS_ATTR_MODELS[REG.Memory] = lambda it, cls, name: cls.params.get(name, MISSING) if hasattr(cls, "params") else MISSING


def config_spec(mode, noreset, stride, initial):
    def spec(sx, self, **kw):
        real = sx.real_args[0]
        kind = "noreset" if noreset else "signal"
        eff = MM.IMMEDIATE if mode is None else mode

        def is_storage(s, elem_width):
            if not (isinstance(s, SObj) and s.kind is _Storage and s.fields["f_kind"] == kind and s.fields["f_initial"] is initial):
                return False
            t = s.fields["f_type"]
            if not (isinstance(t, tuple) and len(t) == 3 and t[0] == "array" and t[2] == 16):
                return False
            elem = t[1]  # BitVector[n]: the real class, or the parametrised-class value of the core model
            w = elem.params.get("width") if hasattr(elem, "params") else getattr(elem, "_width", None)
            base = elem.kind if hasattr(elem, "kind") else elem
            return w == elem_width and isinstance(base, type) and issubclass(base, _BV)

        def holds(res):
            f = real.fields
            if __import__("os").environ.get("PYVC_DEBUG_CFG"):
                print("DEBUGCFG", {k: v for k, v in f.items() if k.startswith("_m")}, getattr(f.get("_mem"), "fields", None))
            if f.get("_mask_mode") is not eff:
                return False
            if eff is MM.SPLIT_WORDS:
                lanes = f.get("_mem_list")
                return isinstance(lanes, list) and len(lanes) == stride and all(is_storage(s, 8) for s in lanes)
            return is_storage(f.get("_mem"), 8 * stride)

        return C.Pred(holds, "storage created with NoresetSignal iff noreset, in every mask mode; one word array or `word_stride` unit arrays")

    return spec


_cfg = contract(f"{MOD}:Memory.<_config_ (the function wrapped by _config_wrapper)>", CONFIG_PROPS)
_cfg.custom_fn = REG.Memory.__dict__["_cohdlstd_wrappedconfig"]  # RegisterObject.__init_subclass__ replaces _config_ by a wrapper and keeps the body here
for mode in (None, MM.IMMEDIATE, MM.IGNORE, MM.READBACK, MM.SPLIT_WORDS):
    for noreset in (False, True):
        for stride in (4, 2):
            for initial, iname in ((None, "None"), (_Null, "Null")):
                def mk_self(env, stride=stride):
                    tools = SObj(_Stub, f_role="tools", _word_stride_=stride, _addr_unit_width_=8)
                    return SObj(I.SCls(REG.Memory, _word_count_=16) if hasattr(I, "SCls") else REG.Memory, _register_tools_=tools, f_word_width=8 * stride)

                kw = {"initial": Built([], (lambda v: lambda env: v)(initial), lambda a: iname, lambda a: None), "noreset": Built([], (lambda v: lambda env: v)(noreset), lambda a: repr(noreset), lambda a: None)}
                if mode is not None:
                    kw["mask_mode"] = Built([], (lambda v: lambda env: v)(mode), lambda a: "mode", lambda a: None)
                c = Case(f"{'default' if mode is None else mode.name},noreset={noreset},{stride}-lanes,initial={iname}", [Built([], mk_self, lambda a: "<memory>", lambda a: None)], config_spec(mode, noreset, stride, initial), kwargs=kw)
                c.native = False
                c.models = [(REG.RegisterObject.__dict__["_word_width_"].__func__, lambda it, cls: it.word_width)]

                def _cfg_setup(it, ctx, args, env):
                    it.word_width = args[0].fields["f_word_width"]
                    ctx.global_overlay[(MOD, "Signal")] = SObj(_Q, f_kind="signal")
                    ctx.global_overlay[(MOD, "NoresetSignal")] = SObj(_Q, f_kind="noreset")
                    ctx.global_overlay[(MOD, "std")] = SObj(_StdStub, Array=SObj(_ArrayStub))

                c.setup = _cfg_setup
                _cfg.cases.append(c)


# ---- _list_rol: byte lane order of an unaligned SPLIT_WORDS read -----------------------------------------------------------------
# An unaligned read at byte offset `off` returns, as byte j (counted from the least significant byte), lane (off + j) mod n
# (each lane already addressed with the right word, see rddata in _cohdlstd_impl_read).  concat() takes the MOST significant
# piece first, so _list_rol(lanes, off) is the list [lane (off + n - 1) mod n, ..., lane (off + 1) mod n, lane off].
def rol_spec(sx, inp, roll):
    n = len(inp)
    return [inp[(roll + n - 1 - k) % n] for k in range(n)]


con = contract(f"{MOD}:_list_rol", PROPS)
for n in (1, 2, 4, 8):
    for roll in range(n):
        c = Case(f"{n}-lanes,offset-{roll}", [Built([], (lambda k: lambda env: [f"lane{i}" for i in range(k)])(n), lambda a: "<lanes>", lambda a: None), Built([], (lambda r: lambda env: r)(roll), lambda a: str(roll), lambda a: None)], rol_spec)
        c.native = False
        con.cases.append(c)
