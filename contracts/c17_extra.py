"""C17 / C19, bounded native check (stand-in, labelled bounded): the key objects of the std.Template specialisation cache.

SFixed[l:r] / UFixed[l:r] are specialised once per key `_FixedTemplateArg(slice(l, r))`; the cache is a dict, so two formats share
one class exactly when their keys are equal (and hash alike).  For ALL pairs of formats with bounds in a small window, through the
real classes:
    key(l1, r1) == key(l2, r2)   iff   (l1, r1) == (l2, r2);     equal keys have equal hashes
    SFixed[l1:r1] is SFixed[l2:r2]   iff   (l1, r1) == (l2, r2)   (same for UFixed), and the class reports its own bounds
A key comparison that confuses two formats (e.g. through hash(-1) == hash(-2) in CPython) makes to_bits / from_bits of the
second format work with the exponent of the first: the serialised layout is no longer the documented one.
"""

from __future__ import annotations

_SCRIPT = r'''
import itertools, json
from cohdl.std._fixed import _FixedTemplateArg, SFixed, UFixed
LO, HI = %d, %d
formats = [(l, r) for l in range(LO, HI + 1) for r in range(LO, l + 1)]
bad = []
n = 0
keys = {f: _FixedTemplateArg(slice(f[0], f[1])) for f in formats}
for f1, f2 in itertools.product(formats, repeat=2):
    n += 1
    eq = keys[f1] == keys[f2]
    if bool(eq) != (f1 == f2):
        bad.append(["key-equality", f1, f2, bool(eq)])
    elif eq and hash(keys[f1]) != hash(keys[f2]):
        bad.append(["key-hash", f1, f2, None])
    if len(bad) > 5:
        break
# the classes: specialise in an order that puts potential collisions next to each other
for T in (SFixed, UFixed):
    classes = {}
    for f in formats:
        n += 1
        try:
            classes[f] = T[f[0]:f[1]]
        except AssertionError:
            continue
        c = classes[f]
        if (c._width, c._exp) != (f[0] - f[1] + 1, f[1]):
            bad.append(["class-parameters", T.__name__, f, [c._width, c._exp]])
    seen = {}
    for f, c in classes.items():
        if id(c) in seen and seen[id(c)] != f:
            bad.append(["class-shared", T.__name__, seen[id(c)], f])
        seen[id(c)] = f
print("RESULT" + json.dumps({"evaluations": n, "bad": bad[:6]}))
'''


def template_key_sweep(tier="quick", seed=0):
    import json

    from contracts.c06_extra import _run_design

    lo, hi = (-5, 5) if tier == "quick" else (-9, 9)
    rc, text = _run_design(_SCRIPT % (lo, hi))
    if "RESULT" not in text:
        return {"problems": [f"template_key_sweep: the script failed: {text[-300:]}"]}
    data = json.loads(text[text.index("RESULT") + 6:].splitlines()[0])
    fails = {}
    for b in data["bad"]:
        fails.setdefault(b[0], f"{b[0]}: {b[1:]}")
    violations = []
    for key, what in sorted(fails.items()):
        oid = f"C17/template-key-sweep[{key}]#bounded"
        violations.append({"kind": "custom", "qual": "<std.Template keys of SFixed / UFixed>", "case": key, "oid": oid, "check": "template_key_sweep", "key": key, "assignment": {"deviation": key}, "solver": {"what": what}, "reproduced": True,
                           "replay_payload": {"property": "C17", "custom": "contracts.c17_extra.replay_template_keys", "key": key, "tier": tier, "obligation": oid, "verifier_output": what}})
    return {"evaluations": data["evaluations"], "distinct": data["evaluations"], "violations": violations, "samples": [{"bounds": [lo, hi]}],
            "bounded": [{"function": "cohdl.std._fixed:_FixedTemplateArg.__eq__ / __hash__, SFixed / UFixed.__class_getitem__", "case": "all pairs of formats", "evaluations": data["evaluations"], "exhaustive_within_bound": True,
                         "bound": f"all formats [l:r] with {lo} <= r <= l <= {hi}, all pairs"}]}


_NESTED_SCRIPT = r'''
import itertools, json
from cohdl import std, BitVector
BitField = std.bitfield.BitField
Field = std.bitfield.Field


def make_inner(order):
    # one factory, one class NAME, different layouts: the two 2-bit fields in either order
    class Inner(BitField[4]):
        first: Field[1:0] if order == 0 else Field[3:2]
        second: Field[3:2] if order == 0 else Field[1:0]

    return Inner


bad, n = [], 0
for offset in (0, 4):
    inners = [make_inner(0), make_inner(1)]
    outers = []
    for k, In in enumerate(inners):
        ns = {"__annotations__": {"inner": In[offset + 3:offset], "rest": Field[(7 - offset):(4 - offset)]}}
        outers.append(type(f"Outer{k}", (BitField[8],), ns))
    for pattern in (0b00000000, 0b11111111, 0b01101001, 0b10010110, 0b00011011, 0b11100100):
        text = format(pattern, "08b")
        for k, Out in enumerate(outers):
            n += 1
            v = std.from_bits[Out](BitVector[8](text))
            inner_bits = format((pattern >> offset) & 0xF, "04b")
            lo, hi = inner_bits[2:4], inner_bits[0:2]
            want = {"first": lo if k == 0 else hi, "second": hi if k == 0 else lo}
            got = {"first": str(v.inner.first), "second": str(v.inner.second)}
            if got != want:
                bad.append(["nested-bitfield-layout", {"offset": offset, "layout": k, "pattern": text}, got, want])
            if str(std.to_bits(v).get()) != text:
                bad.append(["nested-bitfield-roundtrip", {"offset": offset, "layout": k, "pattern": text}, str(std.to_bits(v).get()), text])
print("RESULT" + json.dumps({"evaluations": n, "bad": bad[:6]}))
'''


def nested_bitfield_sweep(tier="quick", seed=0):
    """BOUNDED: two BitField classes with the SAME class name (two layouts from one factory) nested at the same offset of two outer
    BitFields: every field reads exactly the range declared in ITS class, to_bits(from_bits(b)) == b."""
    import json

    from contracts.c06_extra import _run_design

    rc, text = _run_design(_NESTED_SCRIPT)
    if "RESULT" not in text:
        return {"problems": [f"nested_bitfield_sweep: the script failed: {text[-300:]}"]}
    data = json.loads(text[text.index("RESULT") + 6:].splitlines()[0])
    fails = {}
    for b in data["bad"]:
        fails.setdefault(b[0], f"{b}")
    violations = []
    for key, what in sorted(fails.items()):
        oid = f"C17/nested-bitfield-sweep[{key}]#bounded"
        violations.append({"kind": "custom", "qual": "<nested BitFields>", "case": key, "oid": oid, "check": "nested_bitfield_sweep", "key": key, "assignment": {"deviation": key}, "solver": {"what": what}, "reproduced": True,
                           "replay_payload": {"property": "C17", "custom": "contracts.c17_extra.replay_nested_bitfield", "key": key, "obligation": oid, "verifier_output": what}})
    return {"evaluations": data["evaluations"], "distinct": data["evaluations"], "violations": violations, "samples": [{"evaluations": data["evaluations"]}],
            "bounded": [{"function": "cohdl.std.bitfield:_BitFieldInst.__class_getitem__ / BitField.__init__", "case": "same-named nested BitFields", "evaluations": data["evaluations"], "exhaustive_within_bound": False,
                         "bound": "2 layouts x offsets {0, 4} x 6 bit patterns"}]}


_REF_SCRIPT = r'''
from __future__ import annotations
import itertools, json
from cohdl import std, Bit, BitVector, Unsigned, Signed, Signal

KINDS = {"BitVector": BitVector, "Unsigned": Unsigned, "Signed": Signed}
bad, n, accepted = [], 0, 0
for (tn, T), tw, (an, A), aw in itertools.product(KINDS.items(), range(1, 5), KINDS.items(), range(1, 5)):
    n += 1
    arg = Signal[A[aw]]()
    try:
        r = std.Ref[T[tw]](arg)
    except Exception as e:
        if tw == aw:
            bad.append(["ref-rejects-matching-width", f"std.Ref[{tn}[{tw}]](Signal[{an}[{aw}]]) raised {type(e).__name__}"])
        continue
    accepted += 1
    if aw != tw:
        bad.append(["ref-accepts-other-width", f"std.Ref[{tn}[{tw}]](Signal[{an}[{aw}]]) is a {r.width} bit object: a reference does not convert, count_bits({tn}[{tw}]) == {tw}"])
    elif r.width != tw or not issubclass(r.type, T) or r._root is not arg:
        bad.append(["ref-view", f"std.Ref[{tn}[{tw}]](Signal[{an}[{aw}]]) -> {r!r}"])


class Inner(std.Record):
    a: Bit
    b: BitVector[3]


for aw in range(1, 6):
    n += 1
    try:
        rec = std.Ref[Inner](a=Signal[Bit](), b=Signal[Unsigned[aw]]())
        bits = std.to_bits(rec)
    except Exception as e:
        if aw == 3:
            bad.append(["ref-record-rejects-matching-width", f"b: Unsigned[{aw}] raised {type(e).__name__}"])
        continue
    accepted += 1
    if bits.width != std.count_bits(Inner):
        bad.append(["ref-record-bit-count", f"std.Ref[Inner](a=bit, b=Unsigned[{aw}]): to_bits has {bits.width} bits, count_bits(Inner) == {std.count_bits(Inner)}"])
# std.Serialized[T](other std.Serialized[T]): the copy holds the same bits, as a BitVector of count_bits(T) bits
for T, x in ((Bit, Bit(1)), (Unsigned[4], Unsigned[4](5)), (Signed[3], Signed[3](-2)), (Inner, Inner(a=Bit(1), b=BitVector[3]("010")))):
    n += 1
    s = std.Serialized[T](x)
    try:
        c = std.Serialized[T](s)
        cb = c.bits()
    except Exception as e:
        bad.append(["serialized-copy", f"std.Serialized[{T.__name__}](std.Serialized[{T.__name__}](x)) raised {type(e).__name__}: {str(e)[:60]}"])
        continue
    accepted += 1
    if type(std.base_type(cb)) is type and not (std.base_type(cb) is BitVector[std.count_bits(T)] and str(cb) == str(s.bits())):
        bad.append(["serialized-copy", f"std.Serialized[{T.__name__}] copy holds {cb!r}, the original {s.bits()!r}"])
# a Serialized[A] / a BitField A only ever holds the serialised form of an A: objects of ANOTHER type with the same number of bits
# are rejected (their layout is a different one), objects of the same type accepted
from cohdl import Null
from cohdl._core._intrinsic_operations import AssignMode


class RecA(std.Record):
    x: BitVector[2]
    y: Unsigned[4]


class RecB(std.Record):
    p: Unsigned[4]
    q: BitVector[2]


BitField = std.bitfield.BitField


class Status(BitField[8]):
    busy: BitField.Field[0]
    code: BitField.Field[7:4]


class Control(BitField[8]):
    mode: BitField.Field[2:0]
    level: BitField.Field[7:3]


def attempt(fn):
    try:
        fn()
        return True
    except Exception:
        return False


for name, same, other in (
    ("serialized-assign", lambda: std.Serialized[RecA](Null, _qualifier_=Signal)._assign_(std.Serialized[RecA](Null, _qualifier_=Signal), AssignMode.NEXT),
     lambda: std.Serialized[RecA](Null, _qualifier_=Signal)._assign_(std.Serialized[RecB](Null, _qualifier_=Signal), AssignMode.NEXT)),
    ("serialized-copy-other-type", lambda: std.Serialized[RecA](std.Serialized[RecA](Null)), lambda: std.Serialized[RecA](std.Serialized[RecB](Null))),
    ("bitfield-from-bitfield", lambda: std.Value[Control](Control(BitVector[8]("10100101"))), lambda: std.Value[Control](Status(BitVector[8]("10100101")))),
):
    n += 2
    if not attempt(same):
        bad.append([name, f"{name}: an object of the SAME type is rejected"])
    else:
        accepted += 1
    if attempt(other):
        bad.append([name, f"{name}: an object of another type with the same number of bits is accepted; its bits are read with the layout of the target type"])
first = {}
for b in bad:
    first.setdefault(b[0], b)
print("RESULT" + json.dumps({"evaluations": n, "accepted": accepted, "bad": list(first.values())}))
'''


def ref_width_sweep(tier="quick", seed=0):
    """BOUNDED: std.Ref[K[w]](vector object) for all pairs of vector kinds and widths 1..4, and a record built with std.Ref from
    members of widths 1..5: a reference never changes the number of bits -- `to_bits(x)` has exactly `count_bits(T)` bits"""
    import json

    from contracts.c06_extra import _run_design

    rc, text = _run_design(_REF_SCRIPT)
    if "RESULT" not in text:
        return {"problems": [f"ref_width_sweep: the script failed: {text[-300:]}"]}
    data = json.loads(text[text.index("RESULT") + 6:].splitlines()[0])
    if data["accepted"] == 0:
        return {"problems": ["ref_width_sweep: every reference was rejected: nothing was checked"]}
    fails = {}
    for b in data["bad"]:
        fails.setdefault(b[0], f"{b[0]}: {b[1]}")
    violations = []
    for key, what in sorted(fails.items()):
        oid = f"C17/ref-width-sweep[{key}]#bounded"
        violations.append({"kind": "custom", "qual": "<std.Ref of vector types>", "case": key, "oid": oid, "check": "ref_width_sweep", "key": key, "assignment": {"deviation": key}, "solver": {"what": what}, "reproduced": True,
                           "replay_payload": {"property": "C17", "custom": "contracts.c17_extra.replay_ref_width", "key": key, "obligation": oid, "verifier_output": what}})
    return {"evaluations": data["evaluations"], "distinct": data["evaluations"], "violations": violations, "samples": [{"evaluations": data["evaluations"], "accepted": data["accepted"]}],
            "bounded": [{"function": "cohdl.std._core_utility:_Ref.__call__ (vector types), std.Record.__init__ through std.Ref", "case": "ref_width_sweep", "evaluations": data["evaluations"], "exhaustive_within_bound": True,
                         "bound": "3 vector kinds x widths 1..4 for the requested type and for the argument; one record with a 3 bit member built from members of widths 1..5"}]}


def replay_ref_width(payload):
    r = ref_width_sweep()
    hit = [v for v in r.get("violations", []) if v["key"] == payload["key"]]
    return {"reproduced": bool(hit), "detail": hit[0]["solver"]["what"] if hit else "references keep the number of bits of the requested type"}


def replay_nested_bitfield(payload):
    r = nested_bitfield_sweep()
    hit = [v for v in r.get("violations", []) if v["key"] == payload["key"]]
    return {"reproduced": bool(hit), "detail": hit[0]["solver"]["what"] if hit else "every nested field reads its own range"}


def replay_template_keys(payload):
    r = template_key_sweep(payload.get("tier", "quick"), 0)
    hit = [v for v in r.get("violations", []) if v["key"] == payload["key"]]
    return {"reproduced": bool(hit), "detail": hit[0]["solver"]["what"] if hit else "keys are equal exactly for equal formats"}
