"""C06 (same object, same name) / C12 (interface = declared ports): the entity
header.  Entity._port_declarations must emit, for every declared port in
declaration order, a line that starts with the declared name, carries the
declared direction, and -- since the architecture refers to the port by its
scope name -- may only return if declared name == scope name (else reject)."""

from __future__ import annotations

import z3

from cohdl import Port, Signal, Unsigned, Bit
from cohdl._compiler.backend.vhdl import _vhdl_repr as VR
from cohdl._compiler.backend.vhdl._vhdl_repr import VhdlScope

from pyvc import contracts as C
from pyvc import interp as I
from pyvc import ops, sym
from pyvc.contracts import Case, contract
from pyvc.values import SCls, SObj, SStr, SFmt, TextOf, Opaque
from contracts import core_models as M
from contracts import c13_types  # class attribute models of qualified types
from contracts.c05_format_cast import Built

PROPS = ("C06", "C12")
QUAL = "cohdl._compiler.backend.vhdl._vhdl_repr:Entity._port_declarations"

for q in ("cohdl._core._type_qualifier:Port.direction", "cohdl._core._type_qualifier:TypeQualifier.get",
          "cohdl._core._type_qualifier:Port.Direction.is_input", "cohdl._core._type_qualifier:Port.Direction.is_output",
          "cohdl._core._type_qualifier:Port.Direction.is_inout"):
    C.inline(q)

I.register_model(VhdlScope.__dict__["format_type"], lambda it, self, obj: Opaque("type-text", obj))
C.inline("cohdl._core._type_qualifier:TypeQualifier.has_default")
C.inline("cohdl._core._type_qualifier:TypeQualifier.default")

DIRS = {"in": Port.Direction.INPUT, "out": Port.Direction.OUTPUT, "inout": Port.Direction.INOUT}


def entity_shape(dirs, depth, defaults=False):
    """entity with len(dirs) ports; the ports are declared `depth` scopes above the entity's scope; defaults: every port
    has a default value"""

    def make(env):
        ports = {}
        decls = {}
        for i, d in enumerate(dirs):
            p = SObj(SCls(Port, wrapped=Bit, direction=DIRS[d]), _value=SObj(Bit), _root=None, _ref_spec=[], _default=SObj(Bit, f_tag=f"default of port {i}") if defaults else None)
            key = SStr(z3.Const(f"declared_name{i}", sym.StrS))
            ports[key] = p
            decls[p] = SObj(VhdlScope.Declaration, obj=p, active=True, name=SStr(z3.Const(f"scope_name{i}", sym.StrS)), name_hint=None)
        top = SObj(VhdlScope, _declarations=decls, _parent=None)
        scope = top
        for _ in range(depth):
            scope = SObj(VhdlScope, _declarations={}, _parent=scope)
        return SObj(VR.Entity, _ports=ports, _scope=scope)

    return Built([], make, lambda asg: "None", lambda asg: None)


def spec_ports(dirs):
    def spec(sx, self):
        real = sx.real_args[0]
        keys = list(real.fields["_ports"].keys())
        decls = None
        s = real.fields["_scope"]
        while s is not None and not s.fields["_declarations"]:
            s = s.fields["_parent"]
        decls = s.fields["_declarations"]

        def holds(res):
            if not isinstance(res, list) or len(res) != len(keys):
                return False
            conds = []
            for i, (line, key, d) in enumerate(zip(res, keys, dirs)):
                parts = line.parts if isinstance(line, SFmt) else None
                if not parts or not isinstance(parts[0], TextOf) or parts[0].value is not key:
                    return False
                want = f" : {d} "
                if not (isinstance(parts[1], str) and parts[1] == want):
                    return False
                last = parts[-1] if isinstance(parts[-1], str) else ""
                if (i < len(keys) - 1) != last.endswith(";"):
                    return False
                port = real.fields["_ports"][key]
                # C04 ("after reset is released the context behaves exactly as it does after power-up"): an inout port is not
                # buffered -- its reset value, the declared default, is the power-up value only if the port declaration carries
                # it as the initial value of the port's driver; the other directions declare no default (in: driven from
                # outside; out: the buffer signal carries it)
                dflt = port.fields.get("_default")
                inits = [j for j, p in enumerate(parts) if isinstance(p, str) and ":=" in p]
                if d == "inout" and dflt is not None:
                    if len(inits) != 1 or inits[0] + 1 >= len(parts):
                        return False
                    lit = parts[inits[0] + 1]
                    lit = lit.value if isinstance(lit, TextOf) else lit
                    if not (isinstance(lit, Opaque) and lit.tag == "literal-text" and lit.deps[0] is dflt):
                        return False
                elif inits:
                    return False
                conds.append(decls[port].fields["name"].term == key.term)
            return sym.And(*conds)

        return C.Pred(holds, "one line per declared port, declared name == name used in the architecture")

    return spec


# ---- the entity's own name: declaration, architecture and instantiations must agree -----------------------------------------
# The entity name is part of the interface (instantiations say `entity work.<declared name>`), while the architecture is
# written `of <scope name>` -- the name the module scope assigned, which differs from the declared one when that is a
# reserved word (`Buffer` -> `Buffer1`) or when ANOTHER entity class of the same name was declared first (`Leaf`,
# `Leaf1`: both would be emitted as `entity Leaf`).  Like a port name it cannot be changed: declared == scope name, or reject.
class _Arch:
    """vhdl.Architecture stand-in: entity_name() = the name the module scope assigned to the entity"""


_Arch.entity_name = lambda self: None
I.register_model(_Arch.entity_name, lambda it, self: self.fields["f_scope_name"])
I.register_model(VR.Entity.__dict__["_port_map"], lambda it, self: "PORTS")
C.inline("cohdl.utility.code_writer:TextBlock.__init__")
C.inline("cohdl.utility.code_writer:IndentBlock.__init__")
C.inline("cohdl.utility.code_writer:TextBlock.add")


def entity_name_spec(declared, scope_name):
    def spec(sx, self):
        if declared != scope_name:
            raise C.SpecRaise(AssertionError)

        def holds(res):
            content = res.fields.get("_content") if isinstance(res, SObj) else None
            return isinstance(content, list) and content[0] == f"entity {declared} is" and content[-1] == f"end {declared};"

        return C.Pred(holds, "entity <declared name> is ... end <declared name>;")

    return spec


con = contract("cohdl._compiler.backend.vhdl._vhdl_repr:Entity._entity_declaration", PROPS)
for declared, scope_name in (("Leaf", "Leaf"), ("Buffer", "Buffer1"), ("Leaf", "Leaf1"), ("top", "top")):
    c = Case(f"declared-{declared},scope-name-{scope_name}", [Built([], (lambda d, s: lambda env: SObj(VR.Entity, _name=d, _arch=SObj(_Arch, f_scope_name=s)))(declared, scope_name), lambda asg: "None", lambda asg: None)],
             entity_name_spec(declared, scope_name))
    c.native = False
    c.custom_replay = "contracts.c06_ports.replay_entity_names"
    con.cases.append(c)

_NAMES_DESIGN = '''
from __future__ import annotations
import re
from cohdl import Entity, Port, Bit, std

def make(invert):
    class Leaf(Entity):
        a = Port.input(Bit)
        y = Port.output(Bit)
        def architecture(self):
            @std.concurrent
            def logic():
                self.y <<= ~self.a if invert else self.a
    return Leaf

class Top(Entity):
    a = Port.input(Bit)
    y = Port.output(Bit)
    z = Port.output(Bit)
    def architecture(self):
        make(False)(a=self.a, y=self.y)
        make(True)(a=self.a, y=self.z)

try:
    t = std.VhdlCompiler.to_string(Top)
    print("ENTITY_DECLARATIONS", re.findall(r"^entity (\\w+) is", t, re.M))
except AssertionError:
    print("REJECTED")
'''


def replay_entity_names(payload):
    from contracts.c06_extra import _run_design

    rc, out = _run_design(_NAMES_DESIGN)
    return {"reproduced": "['Leaf', 'Leaf'" in out, "detail": out[-200:]}


con = contract(QUAL, PROPS)
for dirs in (("in",), ("out",), ("inout",), ("in", "out"), ("out", "in", "inout")):
    for depth in (0, 1, 2):
        c = Case(f"{'-'.join(dirs)}@{depth}", [entity_shape(dirs, depth)], spec_ports(dirs))
        c.native = False
        c.may_reject = AssertionError
        con.cases.append(c)
    contract(QUAL, ("C04",))
    c = Case(f"{'-'.join(dirs)}@0,with-defaults", [entity_shape(dirs, 0, defaults=True)], spec_ports(dirs))
    c.native = False
    c.may_reject = AssertionError
    c.props = ("C04", "C06")
    c.models = [(VhdlScope.__dict__["format_literal"], lambda it, self, obj, *a, **k: Opaque("literal-text", obj))]  # case-level: other contracts model it differently
    c.custom_replay = "contracts.c06_ports.replay_inout_default"
    con.cases.append(c)


_INOUT_DESIGN = '''
import re
from cohdl import Entity, Port, Bit, BitVector, std

class Top(Entity):
    clk = Port.input(Bit)
    rst = Port.input(Bit)
    d = Port.input(Bit)
    io = Port.inout(Bit, default=True)

    def architecture(self):
        @std.sequential(std.Clock(self.clk), std.Reset(self.rst))
        def proc():
            self.io <<= self.d

t = std.VhdlCompiler.to_string(Top)
reset_to_default = re.search(r"io <= '1';", t) is not None
initial = re.search(r"io : inout std_logic := '1'", t) is not None
print("RESET_TO_DEFAULT" if reset_to_default else "NO_RESET", "POWER_UP_DEFAULT" if initial else "POWER_UP_UNDEFINED")
'''


def replay_inout_default(payload):
    """an inout port with a default: reset returns it to the default, at power-up its driver holds 'U'"""
    from contracts.c06_extra import _run_design

    rc, out = _run_design(_INOUT_DESIGN)
    return {"reproduced": rc == 0 and "RESET_TO_DEFAULT" in out and "POWER_UP_UNDEFINED" in out, "detail": out[-200:]}
