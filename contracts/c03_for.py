"""C03: for-loops over compile-time iterables (PrepareAst.apply_impl, ast.For branch) -- "for-loops ending in break or return,
for-else: execute exactly the first branch whose condition holds, or the default".

A loop whose iterations are plain statements is unrolled: the iterations' blocks in order.  A loop whose iterations have the
form `if test_i: ...; break` (or `...; return x`) is a priority chain:
        CondSelect([(test_i, body_i without the trailing break)] in iteration order,  default = the loop's else block)
Everything that does not fit these two forms must be REJECTED, because the chain is built from the test and the body of the
if-statement only: an else-branch of that if-statement, statements next to it, a break that is not the last statement, a mixture
of plain and breaking iterations, a `continue` would all be dropped or executed on the wrong path.

The branch is interpreted from the real source; the statements of an iteration are ghost objects carrying exactly the summary
the real classes keep (contains_break, return paths, statements), the summaries' own correctness is c03_out.
"""

from __future__ import annotations

import ast

from cohdl._compiler.frontend import _prepare_ast as PA
from cohdl._compiler.frontend import _prepare_ast_out as OUT

from pyvc import contracts as C
from pyvc import interp as I
from pyvc.contracts import Case, contract
from pyvc.values import SObj
from contracts.c05_format_cast import Built
from contracts.c02_frontend import _Expr, _Prep
from contracts import c10_frontend as _F  # noqa: F401  (defines the _Prep.apply stand-in)
from contracts import c03_match as _M  # noqa: F401  (model of _Expr.bound_statements)

PROPS = ("C03",)
SEQ, CONC = PA.ContextType.SEQUENTIAL, PA.ContextType.CONCURRENT


class _Target:
    """PrepareAst.Target stand-in: binds the loop variable for one iteration"""

    def unpack(self, elt):
        return None

    def restore_locals(self):
        return None

    def lock_variables(self):
        return None


def summary(**kw):
    base = dict(_contains_break=False, _contains_continue=False, _return_paths=[], _returns_always=False, _bound_statements=[])
    base.update(kw)
    return base


def stmt(tag):
    return SObj(OUT.Statement, f_tag=tag, **summary())


def brk():
    return SObj(OUT.Break, **summary(_contains_break=True))


def cont():
    return SObj(OUT.Continue, **summary(_contains_continue=True))


def ret(tag):
    r = SObj(OUT.Return, f_tag=tag, **summary(_returns_always=True))
    r.fields["_return_paths"] = [r]
    return r


def blk(stmts, tag=None):
    paths = [p for s in stmts for p in s.fields["_return_paths"]]
    return SObj(OUT.CodeBlock, f_tag=tag, _stmts=list(stmts), **summary(_contains_break=any(s.fields["_contains_break"] for s in stmts), _contains_continue=any(s.fields["_contains_continue"] for s in stmts),
                                                                     _return_paths=paths, _returns_always=any(s.fields["_returns_always"] for s in stmts)))


def if_(i, body, orelse):
    return SObj(OUT.If, _test=f"TEST{i}", _body=body, _orelse=orelse, **summary(_contains_break=body.fields["_contains_break"] or orelse.fields["_contains_break"],
                                                                               _contains_continue=body.fields["_contains_continue"] or orelse.fields["_contains_continue"],
                                                                               _return_paths=body.fields["_return_paths"] + orelse.fields["_return_paths"],
                                                                               _returns_always=body.fields["_returns_always"] and orelse.fields["_returns_always"]))


def iteration(kind, i):
    s = stmt(f"work{i}")
    if kind == "plain":
        return blk([s], f"plain{i}")
    if kind == "empty":
        return blk([], f"empty{i}")
    if kind == "continue":
        return blk([s, cont()])
    if kind == "if-break":
        return blk([if_(i, blk([s, brk()]), blk([]))])
    if kind == "if-break-else":
        return blk([if_(i, blk([s, brk()]), blk([stmt(f"else{i}")]))])
    if kind == "if-return":
        return blk([if_(i, blk([s, ret(i)]), blk([]))])
    if kind == "if-return-else":
        return blk([if_(i, blk([s, ret(i)]), blk([stmt(f"else{i}")]))])
    if kind == "break-not-last":
        return blk([if_(i, blk([brk(), s]), blk([]))])
    if kind == "if-break-then-statement":
        return blk([if_(i, blk([s, brk()]), blk([])), stmt(f"after{i}")])
    if kind == "bare-break":
        return blk([s, brk()])
    if kind == "two-breaks":
        return blk([if_(i, blk([if_(f"{i}b", blk([brk()]), blk([])), s, brk()]), blk([]))])
    raise AssertionError(kind)


# scenario: (iteration kinds, loop has an else block, context, expected)
SCENARIOS = {
    "unrolled:2": (["plain", "plain"], False, SEQ, "unrolled"),
    "unrolled:empty-iteration-skipped": (["empty", "plain", "empty"], False, CONC, "unrolled"),
    "unrolled:0-iterations,else": ([], True, SEQ, "else-only"),
    "unrolled:0-iterations": ([], False, SEQ, "else-only"),  # the translation of the (empty) else block
    "unrolled:1-iteration,else": (["plain"], True, SEQ, "reject"),
    "chain:break,2": (["if-break", "if-break"], False, SEQ, "chain"),
    "chain:break,2,else": (["if-break", "if-break"], True, SEQ, "chain"),
    "chain:break,empty-iterations-skipped": (["empty", "if-break", "empty"], True, SEQ, "chain"),
    "chain:return,2": (["if-return", "if-return"], False, SEQ, "chain"),
    "chain:return,1,else": (["if-return"], True, SEQ, "chain"),
    "chain:concurrent-context": (["if-break"], False, CONC, "reject"),
    "if-has-else:break": (["if-break-else"], False, SEQ, "reject"),
    "if-has-else:break,second-iteration": (["if-break", "if-break-else"], True, SEQ, "reject"),
    "if-has-else:return": (["if-return-else"], False, SEQ, "reject"),
    "mixed:break-then-plain": (["if-break", "plain"], False, SEQ, "reject"),
    "mixed:plain-then-break": (["plain", "if-break"], False, SEQ, "reject"),
    "mixed:break-then-return": (["if-break", "if-return"], False, SEQ, "reject"),
    "malformed:break-not-last": (["break-not-last"], False, SEQ, "reject"),
    "malformed:statement-after-if": (["if-break-then-statement"], False, SEQ, "reject"),
    "malformed:break-outside-if": (["bare-break"], False, SEQ, "reject"),
    "malformed:second-break-inside": (["two-breaks"], False, SEQ, "reject"),
    "continue": (["continue"], False, SEQ, "reject"),
    # the ITERABLE expression has bound statements (`for x in [a, nxt()]` with a helper that has a side effect): they are
    # evaluated once, in front of the unrolled loop / the chain / the else block
    "iterable-effects:unrolled:2": (["plain", "plain"], False, SEQ, "unrolled"),
    "iterable-effects:0-iterations,else": ([], True, SEQ, "else-only"),
    "iterable-effects:chain:break,2,else": (["if-break", "if-break"], True, SEQ, "chain"),
    "iterable-effects:chain:return,2": (["if-return", "if-return"], False, SEQ, "chain"),
}
FOR_NODE = ast.parse("for i in it:\n    BODY\nelse:\n    ELSE\n").body[0]
FOR_NODE_NOELSE = ast.parse("for i in it:\n    BODY\n").body[0]


def for_spec(kinds, has_else, context, verdict):
    def spec(sx, self, inp):
        it = sx.it
        if verdict == "reject":
            sx.reject(AssertionError)
        bodies = it.bodies

        def holds(res):
            if it.iter_bound:
                if not (isinstance(res, SObj) and res.kind is OUT.CodeBlock and len(res.fields.get("f_list", [])) == 2 and res.fields["f_list"][0] is it.iter_expr):
                    return False
                res = res.fields["f_list"][1]
            if verdict == "else-only":
                return res is it.else_block
            live = [b for b in bodies if len(b.fields["_stmts"]) != 0]
            if verdict == "unrolled":
                return isinstance(res, SObj) and res.kind is OUT.CodeBlock and "f_list" in res.fields and len(res.fields["f_list"]) == len(live) and all(a is b for a, b in zip(res.fields["f_list"], live))
            # chain
            if not (isinstance(res, SObj) and res.kind is OUT.CondSelect):
                return False
            cases, default = res.fields["f_cases"], res.fields["f_default"]
            if default is not (it.else_block if has_else else None) or len(cases) != len(live):
                return False
            for (test, body), b in zip(cases, live):
                if_stmt = b.fields["_stmts"][0]
                if test != if_stmt.fields["_test"] or body is not if_stmt.fields["_body"]:
                    return False
                inner = body.fields["_stmts"]
                # the marker break is gone (and no longer reported), the work and a trailing return are kept
                if any(isinstance(s, SObj) and s.kind is OUT.Break for s in inner) or body.fields["_contains_break"]:
                    return False
                if not (isinstance(inner[0], SObj) and str(inner[0].fields.get("f_tag", "")).startswith("work")):
                    return False
            return True

        return C.Pred(holds, "iterations unrolled in order / priority chain CondSelect([(test_i, body_i)], else block)")

    return spec


def _apply(it, self, node):
    if node is it.node.iter:
        it.iter_expr = SObj(_Expr, f_result=list(range(len(it.bodies))), f_bound=["<statements bound to the iterable>"] if it.iter_bound else [])
        return it.iter_expr
    if node is it.node.body:
        return it.bodies[it.current]
    if node is it.node.orelse:
        return it.else_block
    raise AssertionError("unexpected node")


def _unpack(it, self, elt):
    it.current = elt
    return None


I.register_model(_Target.unpack, _unpack)
I.register_model(_Target.restore_locals, lambda it, self: None)
I.register_model(_Target.lock_variables, lambda it, self: None)

SUMMARY_MODELS = [
    (OUT.Statement.__dict__["contains_break"], lambda it, self: self.fields["_contains_break"]),
    (OUT.Statement.__dict__["contains_continue"], lambda it, self: self.fields["_contains_continue"]),
    (OUT.Statement.__dict__["returns"], lambda it, self: len(self.fields["_return_paths"]) != 0),
    (OUT.Statement.__dict__["returns_always"], lambda it, self: self.fields["_returns_always"]),
    (OUT.CodeBlock.__dict__["statements"], lambda it, self: self.fields["_stmts"]),
    (OUT.CodeBlock.__dict__["empty"], lambda it, self: len(self.fields["_stmts"]) == 0),
]

con = contract("cohdl._compiler.frontend._prepare_ast:PrepareAst.apply_impl", PROPS)
for name, (kinds, has_else, context, verdict) in SCENARIOS.items():
    node = FOR_NODE if has_else else FOR_NODE_NOELSE
    c = Case(f"for:{name}", [Built([], (lambda ctx_: lambda env: SObj(_Prep, _last_apply_inp=None, _context=ctx_))(context), lambda a: "<self>", lambda a: None),
                             Built([], (lambda n: lambda env: n)(node), lambda a: "<for>", lambda a: None)], for_spec(kinds, has_else, context, verdict))
    c.native = False
    c.models = [(_Prep.apply, _apply)] + SUMMARY_MODELS
    c.interp_flags = {"class_call_models": {
        PA.PrepareAst.Target: lambda it, args, kw: SObj(_Target),
        OUT.CondSelect: lambda it, args, kw: SObj(OUT.CondSelect, f_cases=list(args[0]), f_default=args[1]),
        OUT.CodeBlock: lambda it, args, kw: SObj(OUT.CodeBlock, f_list=list(args[0])),
    }}

    def _setup(it, ctx, args, env, kinds=kinds, node=node, name=name):
        it.node = node
        it.bodies = [iteration(k, i) for i, k in enumerate(kinds)]
        it.else_block = blk([stmt("else-of-loop")], "ELSE")
        it.current = None
        it.iter_bound = name.startswith("iterable-effects")

    c.setup = _setup
    c.custom_replay = "contracts.c03_for.replay_iterable_effects" if name.startswith("iterable-effects") else "contracts.c03_for.replay_for_else_dropped"
    con.cases.append(c)


_FOR_ELSE_DESIGN = '''
from cohdl import Entity, Port, Bit, Unsigned, std
class E(Entity):
    clk = Port.input(Bit)
    sel = Port.input(Unsigned[2])
    o = Port.output(Unsigned[4])
    p = Port.output(Unsigned[4])
    def architecture(self):
        @std.sequential(std.Clock(self.clk))
        def proc():
            for i in range(2):
                if self.sel == i:
                    self.o <<= i
                    break
                else:
                    self.p <<= i        # runs for every iteration that does not match
try:
    t = std.VhdlCompiler.to_string(E)
    print("ELSE-DROPPED" if "buffer_p <=" not in t[t.index("proc:"):] else "ELSE-KEPT")
except AssertionError as e:
    print("REJECTED", str(e)[:80])
'''


def replay_for_else_dropped(payload):
    from contracts.c06_extra import _run_design

    rc, out = _run_design(_FOR_ELSE_DESIGN)
    return {"reproduced": rc == 0 and "ELSE-DROPPED" in out, "detail": out[-300:]}


_ITER_DESIGN = '''
from cohdl import Entity, Port, Bit, Unsigned, Variable, std
class ForIterable(Entity):
    clk = Port.input(Bit)
    b = Port.input(Unsigned[4])
    q = Port.output(Unsigned[4], default=0)
    cnt = Port.output(Unsigned[4], default=0)
    def architecture(self):
        v = Variable[Unsigned[4]](0)
        def nxt():
            nonlocal v
            v @= v + 1
            return v
        @std.sequential(std.Clock(self.clk))
        def proc():
            for x in [self.b, nxt()]:
                if x == 3:
                    self.q <<= x
                    break
            else:
                self.q <<= 0
            self.cnt <<= v
t = std.VhdlCompiler.to_string(ForIterable)
print("INCREMENTS", t.count("(v) + (1)"))
'''


def replay_iterable_effects(payload):
    from contracts.c06_extra import _run_design

    rc, out = _run_design(_ITER_DESIGN)
    return {"reproduced": rc == 0 and "INCREMENTS 1" not in out,
            "detail": "`for x in [self.b, nxt()]` with a helper that increments a variable: the statements of the iterable must be emitted once: " + out[-100:]}


# ---- comprehensions: `[f(x) for x in ITER]` / `{k(x): v(x) for x in ITER}` -- the statements bound to ITER come first ------------
COMP_NODES = {"list": ast.parse("[E for i in it]", mode="eval").body, "dict": ast.parse("{K: V for i in it}", mode="eval").body}


def comp_spec(kind, n):
    def spec(sx, self, inp):
        it = sx.it

        def holds(res):
            if not (isinstance(res, SObj) and res.kind is _Expr):
                return False
            bound = res.fields["f_bound"]
            per = 1 if kind == "list" else 2
            if len(bound) != 1 + per * n or bound[0] is not it.iter_expr:
                return False
            if kind == "list":
                return res.fields["f_result"] == [("elt", i) for i in range(n)] and all(b.fields["f_result"] == ("elt", i) for i, b in enumerate(bound[1:]))
            return res.fields["f_result"] == {("key", i): ("val", i) for i in range(n)}

        return C.Pred(holds, "value of the comprehension; bound statements = [iterable, element expressions in order]")

    return spec


def _comp_apply(it, self, node):
    gen = it.node.generators[0]
    if node is gen.iter:
        it.iter_expr = SObj(_Expr, f_result=list(range(it.n_iter)), f_bound=["<statements bound to the iterable>"])
        return it.iter_expr
    tag = {"E": "elt", "K": "key", "V": "val"}[node.id]
    return SObj(_Expr, f_result=(tag, it.current), f_bound=[])


from cohdl._compiler.frontend._value_branch import ObjTraits as _OT  # noqa: E402

for kind, node in COMP_NODES.items():
    for n in (0, 2):
        c = Case(f"comprehension:{kind}:{n}-elements", [Built([], lambda env: SObj(_Prep, _last_apply_inp=None, _context=SEQ), lambda a: "<self>", lambda a: None),
                                                       Built([], (lambda nd: lambda env: nd)(node), lambda a: "<comprehension>", lambda a: None)], comp_spec(kind, n))
        c.native = False
        c.models = [(_Prep.apply, _comp_apply), (_OT.__dict__["get"].__func__ if isinstance(_OT.__dict__["get"], staticmethod) else _OT.__dict__["get"], lambda it, v: v)]
        c.interp_flags = {"class_call_models": {
            PA.PrepareAst.Target: lambda it, args, kw: SObj(_Target),
            OUT.Value: lambda it, args, kw: SObj(_Expr, f_result=args[0], f_bound=list(args[1])),
        }}

        def _csetup(it, ctx, args, env, node=node, n=n):
            it.node, it.n_iter, it.current = node, n, None

        c.setup = _csetup
        c.custom_replay = "contracts.c03_for.replay_iterable_effects"
        con.cases.append(c)


# C10 ("constant if/for ... evaluates to exactly the values CPython produces, or is rejected"): a for-else whose loop ran without
# break executes the else block in CPython -- the unrolled loop has no place for it, so the loop must be rejected
contract("cohdl._compiler.frontend._prepare_ast:PrepareAst.apply_impl", ("C10",))
