"""C06: statement-level legality clauses.

  CaseWhen.write      : every emitted case statement ends with exactly one
                        `when others =>` branch, after all value branches
  SelectWith.write    : every selected assignment ends with `... when others;`
                        (known finding: without default no others branch is emitted)
  Process._write_header : `name: process(<non-empty list>)`
                        (known finding: a process that reads nothing gets `process()`)
  PrepareAst.add_sensitivity : the sensitivity of a context is the join of all
                        requests: all > list; list + list = concatenation
"""

from __future__ import annotations

import z3

import cohdl
from cohdl import Bit, Signal
from cohdl._core._intrinsic import _SensitivityAll, _SensitivityList
from cohdl._compiler.backend.vhdl import _vhdl_repr as VR
from cohdl._compiler.backend.vhdl._vhdl_repr import VhdlScope
from cohdl._compiler.frontend._prepare_ast import PrepareAst
from cohdl.utility.code_writer import TextBlock, IndentBlock

from pyvc import contracts as C
from pyvc import interp as I
from pyvc import sym
from pyvc.contracts import Case, contract, Const
from pyvc.values import SCls, SObj, SStr, SFmt, TextOf, Opaque
from contracts import core_models as M
from contracts import c05_format_cast as FC  # decay inline, Built
from contracts.c05_format_cast import Built

PROPS = ("C06",)
VRM = "cohdl._compiler.backend.vhdl._vhdl_repr:"

for q in ("cohdl.utility.code_writer:TextBlock.__init__", "cohdl.utility.code_writer:TextBlock.add", "cohdl.utility.code_writer:IndentBlock.__init__"):
    C.inline(q)


# expression / block writers are separate units: here they only produce text
def _write_model(it, self, *a, **k):
    # write(scope, target_hint=None, ...): the hint decides which conversion the text carries
    hint = a[1] if len(a) > 1 else k.get("target_hint")
    return SFmt([Opaque("text-of", self, hint)])


for cls in (VR.Value, VR.Target, VR.CodeBlock, VR.Constant, VR.Literal):
    if "write" in cls.__dict__:
        I.register_model(cls.__dict__["write"], _write_model)
I.register_model(VR.CodeBlock.__dict__["empty"], lambda it, self: self.fields.get("__empty__", False))
I.register_model(VhdlScope.__dict__["format_value"], lambda it, self, obj, *a, **k: Opaque("value-text", obj))
I.register_model(VhdlScope.__dict__["lookup_name"], lambda it, self, obj: obj.fields.get("__scope_name__", SStr(z3.Const("proc_name", sym.StrS))))


def flat(tb):
    """flattened content of a (symbolic) TextBlock tree: list of (depth, text)"""
    out = []

    def rec(x, d):
        if isinstance(x, SObj) and issubclass(x.kind, TextBlock):
            if x.fields.get("_title") is not None:
                out.append((d, x.fields["_title"]))
            for e in x.fields["_content"]:
                rec(e, d + 1)
        else:
            out.append((d, x))

    rec(tb, 0)
    return out


def text_is(x, s):
    return isinstance(x, str) and x == s


# ---- CaseWhen ------------------------------------------------------------------------------------
def case_shape(n_branches, others, empty_blocks):
    def make(env):
        cond = SObj(VR.Value, result=SObj(Signal, _value=SObj(Bit, _val=None), _ref_spec=[]))
        cond.fields["result"].fields["_root"] = cond.fields["result"]
        br = [(SObj(VR.Constant, result=i), SObj(VR.CodeBlock, _stmts=[], __empty__=empty_blocks)) for i in range(n_branches)]
        oth = SObj(VR.CodeBlock, _stmts=[], __empty__=False) if others else None
        return SObj(VR.CaseWhen, _cond=cond, _branches=br, _others=oth)

    return Built([], make, lambda asg: "None", lambda asg: None)


def case_spec(n):
    def spec(sx, self, scope):
        def holds(res):
            lines = flat(res)
            texts = [t for _, t in lines]
            whens = [i for i, t in enumerate(texts) if isinstance(t, SFmt) and isinstance(t.parts[0], str) and t.parts[0].startswith("when ")]
            others = [i for i, t in enumerate(texts) if text_is(t, "when others =>")]
            if len(whens) != n or len(others) != 1:
                return False
            if not text_is(texts[-1], "end case;"):
                return False
            if not (isinstance(texts[0], SFmt) and texts[0].parts[0] == "case "):
                return False
            # others comes after every value branch and has a body
            return all(w < others[0] for w in whens) and others[0] < len(texts) - 2 + 1 and others[0] + 1 < len(texts) - 1 + 1

        return C.Pred(holds, "case ... when others => ... end case;")

    return spec


SCOPE = Built([], lambda env: SObj(VhdlScope), lambda asg: "None", lambda asg: None)
con = contract(VRM + "CaseWhen.write", PROPS)
for n in (0, 1, 2, 3):
    for others in (True, False):
        for empty in (True, False):
            c = Case(f"{n}-branches{'-others' if others else ''}{'-empty' if empty else ''}", [case_shape(n, others, empty), SCOPE], case_spec(n))
            c.native = False
            # the choices of this shape are the constants 0..n-1: different constants have different literals (the case of
            # equal choice texts is the subject of the `distinct-choices` cases below, with symbolic texts)
            c.interp_flags = {"opaque_texts_distinct": True}
            con.cases.append(c)


# vector-typed selectors: the case expression is written in the DECLARED type of the root object (so that it needs
# no conversion function and has a locally static subtype), and every choice is formatted against that same
# expression -- a selector in one vector type with choices qualified in another is ill-typed VHDL
from cohdl import Unsigned, Signed, BitVector  # noqa: E402
from contracts.core_models import vec  # noqa: E402


def typed_case_shape(root_kind, view_kind, sliced):
    def make(env):
        root = FC.tq(vec(root_kind, env["sel_rw"], env["sel_bits"]))
        if sliced:
            res = FC.tq(vec(view_kind, env["sel_tw"], 0), root, [FC.Slice(0, 0, None)])
        elif view_kind is root_kind:
            res = root
        else:
            res = FC.tq(vec(view_kind, env["sel_rw"], env["sel_bits"]), root)
        cond = SObj(VR.Value, result=res)
        br = [(SObj(VR.Constant, result=i), SObj(VR.CodeBlock, _stmts=[], __empty__=False)) for i in range(2)]
        return SObj(VR.CaseWhen, _cond=cond, _branches=br, _others=None)

    b = Built(["sel_rw", "sel_tw", "sel_bits"], make, lambda asg: "None", lambda asg: None,
              assume=lambda env: sym.And(env["sel_rw"] >= 1, env["sel_tw"] >= 1, env["sel_tw"] <= env["sel_rw"], env["sel_bits"] >= 0))
    return b


def typed_case_spec(root_kind):
    def spec(sx, self, scope):
        def holds(res):
            texts = [t for _, t in flat(res)]
            head = texts[0]
            if not (isinstance(head, SFmt) and head.parts[0] == "case " and isinstance(head.parts[1], Opaque) and head.parts[1].tag == "text-of"):
                return False
            sel = head.parts[1].deps[0]
            if not (isinstance(sel, SObj) and sel.kind is VR.Value):
                return False
            r = sel.fields["result"]
            prim = r.fields.get("_value") if isinstance(r, SObj) else None
            if not (isinstance(prim, SObj) and prim.kind is root_kind):
                return False
            whens = [t for t in texts if isinstance(t, SFmt) and isinstance(t.parts[0], str) and t.parts[0].startswith("when ") and len(t.parts) > 1]
            if len(whens) != 2:
                return False
            # every choice is formatted against the selector expression actually written
            return all(isinstance(w.parts[1], Opaque) and len(w.parts[1].deps) == 2 and w.parts[1].deps[1] is r for w in whens)

        return C.Pred(holds, "case <selector in the declared type of its root> is; choices formatted against that selector")

    return spec


def _value_ctor(it, args, kw):
    return SObj(VR.Value, result=args[0])


if hasattr(VR, "_declared_vector_type"):
    I.register_inline(VR._declared_vector_type)  # helper of CaseWhen.write / SelectWith.write: part of the writers


for root_kind in (Unsigned, Signed, BitVector):
    for view_kind in (Unsigned, Signed, BitVector):
        for sliced in (False, True):
            if sliced and view_kind is not BitVector:
                continue  # a slice is a BitVector view; typed views of slices are covered by the cast contracts
            c = Case(f"selector:{view_kind.__name__}{'-slice' if sliced else ''}-of-{root_kind.__name__}", [typed_case_shape(root_kind, view_kind, sliced), SCOPE], typed_case_spec(root_kind))
            c.native = False
            c.interp_flags = {"class_call_models": {VR.Value: _value_ctor}, "opaque_texts_distinct": True}
            con.cases.append(c)


# the selector is an ELEMENT OF AN ARRAY of vectors (`match arr[1]:` / select_with(arr[1], ...)): the root object is the array, the
# declared type of the written text `arr(1)` is the array's ELEMENT type -- the selector must be written in that type, the choices
# are formatted against it (until fix the root "is neither Unsigned nor Signed" rule wrote std_logic_vector(arr(1)) with
# unsigned'(...) choices)
from cohdl import Array as _Array  # noqa: E402
from cohdl._core._type_qualifier import Offset as _ElemOffset  # noqa: E402


def array_case_shape(elem_kind):
    def make(env):
        root = FC.tq(_Array[elem_kind[3], 4]())
        res = FC.tq(vec(elem_kind, 3, env["sel_bits"]), root, [_ElemOffset(1, [])])
        cond = SObj(VR.Value, result=res)
        br = [(SObj(VR.Constant, result=i), SObj(VR.CodeBlock, _stmts=[], __empty__=False)) for i in range(2)]
        return SObj(VR.CaseWhen, _cond=cond, _branches=br, _others=None)

    return Built(["sel_bits"], make, lambda asg: "None", lambda asg: None, assume=lambda env: sym.And(env["sel_bits"] >= 0, env["sel_bits"] < 8))


for elem_kind in (Unsigned, Signed, BitVector):
    c = Case(f"selector:element-of-Array[{elem_kind.__name__}]", [array_case_shape(elem_kind), SCOPE], typed_case_spec(elem_kind))
    c.native = False
    c.interp_flags = {"class_call_models": {VR.Value: _value_ctor}, "opaque_texts_distinct": True}
    c.custom_replay = "contracts.c06_stmts.replay_array_selector"
    con.cases.append(c)

_ARRAY_SELECTOR_DESIGN = '''
import re
import cohdl
from cohdl import Array, Bit, Port, Signal, Unsigned, std, select_with
class SelArrayElem(cohdl.Entity):
    clk = Port.input(Bit)
    a = Port.input(Unsigned[3])
    o_conc = Port.output(Unsigned[3])
    o_seq = Port.output(Unsigned[3])
    def architecture(self):
        arr = Signal[Array[Unsigned[3], 4]](name="arr")
        @std.concurrent
        def logic():
            self.o_conc <<= select_with(arr[1], {0: self.a, 1: arr[2]}, default=arr[0])
        @std.sequential(std.Clock(self.clk))
        def proc():
            self.o_seq <<= select_with(arr[1], {0: self.a, 1: arr[2]}, default=arr[0])
t = std.VhdlCompiler.to_string(SelArrayElem)
print("WITH", re.search(r"with (.*?) select", t).group(1), "| CASE", re.search(r"case (.*?) is", t).group(1), "| CHOICE", re.search(r"when (\\S+)", t).group(1))
'''


def replay_array_selector(payload):
    from contracts.c06_extra import _run_design

    rc, out = _run_design(_ARRAY_SELECTOR_DESIGN)
    return {"reproduced": rc == 0 and "std_logic_vector(arr" in out and "unsigned'" in out,
            "detail": "select_with / case on an element of an array of Unsigned: selector and choices must have one type: " + out[-120:]}


# ---- SelectWith -----------------------------------------------------------------------------------
def select_shape(n_branches, default):
    def make(env):
        arg = SObj(VR.Value, result=SObj(Signal, _value=SObj(Bit, _val=None), _ref_spec=[]))
        arg.fields["result"].fields["_root"] = arg.fields["result"]
        br = [(SObj(VR.Constant, result=i), SObj(VR.Value, result=None, f_tag=f"value{i}")) for i in range(n_branches)]
        return SObj(VR.SelectWith, _arg=arg, _branches=br, _default=SObj(VR.Value, result=None, f_tag="default") if default else None, _target=SObj(VR.Target, result=Opaque("type of the target")))

    return Built([], make, lambda asg: "None", lambda asg: None)


def select_spec(n, default):
    def spec(sx, self, scope):
        if not default:
            sx.require(n != 0)

        def holds(res):
            texts = [t for _, t in flat(res)]
            if len(texts) < 2 or not isinstance(texts[-1], SFmt):
                return False
            last = texts[-1].parts[-1]
            # the selected assignment must cover every value of the selector
            if not (isinstance(last, str) and last.endswith(" when others;")):
                return False
            # every alternative -- the default too -- is written AGAINST THE TARGET (the hint makes the text carry the
            # conversion to the target's type: resize, cohdl_bool_to_std_logic ...), every choice against the selector
            real = sx.real_args[0].fields
            target_type, selector = real["_target"].fields["result"], real["_arg"].fields["result"]
            values = [v for _, v in real["_branches"]] + ([real["_default"]] if real["_default"] is not None else [])
            lines = [t for t in texts[1:] if isinstance(t, SFmt)]
            if len(lines) != len(values):
                return False
            for line, value in zip(lines, values):
                first = line.parts[0]
                if not (isinstance(first, Opaque) and first.tag == "text-of" and first.deps[0] is value and first.deps[1] is target_type):
                    return False
            for line, (choice, _) in zip(lines, real["_branches"]):
                ch = [p for p in line.parts[1:] if isinstance(p, Opaque)]
                if not (len(ch) == 1 and ch[0].deps[0] is choice and ch[0].deps[1] is selector):
                    return False
            return True

        return C.Pred(holds, "with ... select ... when others;")

    return spec


con = contract(VRM + "SelectWith.write", PROPS)
# C05 ("branch merge ... preserves the represented value"): in a concurrent context the alternatives of an unjoined merge are
# converted to the target's type by THIS writer (the hint it passes to Value.write); the module is loaded for C05 for this contract
contract(VRM + "SelectWith.write", ("C05",))
for n in (0, 1, 2):
    for default in (True, False):
        c = Case(f"{n}-branches{'-default' if default else '-nodefault'}", [select_shape(n, default), SCOPE], select_spec(n, default))
        c.native = False
        c.interp_flags = {"opaque_texts_distinct": True}  # choices: the constants 0..n-1, see above
        c.custom_replay = "contracts.c06_extra.replay_select_no_default" if not default else "contracts.c06_extra.replay_select_default_hint"
        if not default:
            c.props = PROPS  # the missing `when others` is a legality clause (C06, known finding), not a conversion
        con.cases.append(c)


# ---- distinct choices ---------------------------------------------------------------------------------
# The choices of a case statement / selected assignment must be pairwise distinct (VHDL LRM: every value of the selector
# is represented once and only once).  The choice texts are symbolic strings here: the writer may only return on paths
# where they are pairwise different (a Python `match` with a repeated pattern, a select_with dictionary whose keys `1`
# and `Unsigned[2](1)` are different Python objects and the same VHDL literal).
def _choice_text(it, self, *a, **k):
    return self.fields["__text__"] if "__text__" in self.fields else _write_model(it, self, *a, **k)


def _sym_choices(n):
    return [(SObj(VR.Constant, result=i, __text__=SStr(z3.Const(f"choice_text{i}", sym.StrS))), i) for i in range(n)]


def distinct_spec(field, index):
    def spec(sx, self, scope):
        texts = [b[0].fields["__text__"] for b in sx.real_args[0].fields[field]]

        def holds(res):
            if not (isinstance(res, SObj) and issubclass(res.kind, TextBlock)):
                return False
            return sym.And(*[texts[i].term != texts[j].term for i in range(len(texts)) for j in range(i)]) if len(texts) > 1 else True

        return C.Pred(holds, "returns only when the emitted choices are pairwise distinct")

    return spec


def _distinct_case_shape(n):
    def make(env):
        cond = SObj(VR.Value, result=SObj(Signal, _value=SObj(Bit, _val=None), _ref_spec=[]))
        cond.fields["result"].fields["_root"] = cond.fields["result"]
        br = [(c, SObj(VR.CodeBlock, _stmts=[], __empty__=False)) for c, _ in _sym_choices(n)]
        return SObj(VR.CaseWhen, _cond=cond, _branches=br, _others=None)

    return Built([], make, lambda asg: "None", lambda asg: None)


def _distinct_select_shape(n):
    def make(env):
        arg = SObj(VR.Value, result=SObj(Signal, _value=SObj(Bit, _val=None), _ref_spec=[]))
        arg.fields["result"].fields["_root"] = arg.fields["result"]
        br = [(c, SObj(VR.Value, result=None)) for c, _ in _sym_choices(n)]
        return SObj(VR.SelectWith, _arg=arg, _branches=br, _default=SObj(VR.Value, result=None), _target=SObj(VR.Target, result=None))

    return Built([], make, lambda asg: "None", lambda asg: None)


for _cls, _shape, _field in ((VR.CaseWhen, _distinct_case_shape, "_branches"), (VR.SelectWith, _distinct_select_shape, "_branches")):
    con = contract(VRM + _cls.__name__ + ".write", PROPS)
    for n in (2, 3):
        c = Case(f"distinct-choices:{n}", [_shape(n), SCOPE], distinct_spec(_field, 0))
        c.native = False
        c.may_reject = AssertionError
        c.models = [(VR.Value.__dict__["write"], _choice_text)]  # Constant inherits Value.write
        c.custom_replay = "contracts.c06_extra.replay_duplicate_choices"
        c.props = PROPS
        con.cases.append(c)


# ---- Process._write_header --------------------------------------------------------------------------
I.register_model(VR.Process.__dict__["_write_declarations"], lambda it, self: [])


def header_shape(kind, n):
    def make(env):
        if kind == "all":
            sens = _SensitivityAll()
        else:
            sigs = [SObj(Signal, _value=SObj(Bit, _val=None), _ref_spec=[]) for _ in range(n)]
            for sg in sigs:
                sg.fields["_root"] = sg
            sens = _SensitivityList(sigs)
        return SObj(VR.Process, _sensitivity=sens, _scope=SObj(VhdlScope))

    return Built([], make, lambda asg: "None", lambda asg: None)


def header_spec(sx, self):
    def holds(res):
        texts = [t for _, t in flat(res)]
        if not texts or not isinstance(texts[0], SFmt):
            return False
        p = texts[0].parts
        # "<name>: process(" <items> ")"  with at least one item
        if not (len(p) >= 3 and isinstance(p[0], TextOf) and p[1] == ": process(" and p[-1] == ")"):
            if len(p) == 2 and p[1] == ": process(all)":
                return True
            return False
        return len(p) > 3  # something between "process(" and ")"

    return C.Pred(holds, "process with a non-empty sensitivity list")


con = contract(VRM + "Process._write_header", PROPS)
for kind, n in (("all", 0), ("list", 0), ("list", 1), ("list", 2)):
    c = Case(f"{kind}-{n}", [header_shape(kind, n)], header_spec)
    c.native = False
    c.custom_replay = "contracts.c06_extra.replay_empty_sensitivity"
    con.cases.append(c)


# entries of an explicit sensitivity list that are VIEWS (slice, .unsigned / .signed / .bitvector) of a signal: only signal names may
# appear in a sensitivity list -- the signal itself stands for its views, once
def header_views_shape():
    def make(env):
        r1 = SObj(Signal, _value=SObj(Bit, _val=None), _ref_spec=[], f_tag="r1")
        r1.fields["_root"] = r1
        r2 = SObj(Signal, _value=SObj(Bit, _val=None), _ref_spec=[], f_tag="r2")
        r2.fields["_root"] = r2
        v1 = SObj(Signal, _value=SObj(Bit, _val=None), _ref_spec=["<slice>"], _root=r1, f_tag="slice of r1")
        v2 = SObj(Signal, _value=SObj(Bit, _val=None), _ref_spec=[], _root=r1, f_tag="cast view of r1")
        return SObj(VR.Process, _sensitivity=_SensitivityList([v1, r2, v2]), _scope=SObj(VhdlScope))

    return Built([], make, lambda asg: "None", lambda asg: None)


def header_views_spec(sx, self):
    def holds(res):
        texts = [t for _, t in flat(res)]
        if not texts or not isinstance(texts[0], SFmt):
            return False
        named = []
        for part in texts[0].parts[2:]:
            v = part.value if isinstance(part, TextOf) else part
            deps = getattr(v, "deps", None)
            if deps:
                d0 = deps[0] if not isinstance(deps, SObj) else deps
                named.append(d0.fields.get("f_tag") if isinstance(d0, SObj) else None)
            elif isinstance(v, SObj):
                named.append(v.fields.get("f_tag"))
        return named == ["r1", "r2"]

    return C.Pred(holds, "process(<root of the first view>, <second signal>): roots, each once, in order")


c = Case("list-of-views", [header_views_shape()], header_views_spec)
c.native = False
c.custom_replay = "contracts.c06_stmts.replay_sensitivity_views"
con.cases.append(c)

_SENS_VIEWS_DESIGN = '''
import re
import cohdl
from cohdl import std, BitVector, Unsigned, Port
class SensViews(cohdl.Entity):
    b = Port.input(Unsigned[6])
    bv = Port.input(BitVector[4])
    y = Port.output(Unsigned[6])
    def architecture(self):
        @cohdl.sequential_context
        def p():
            cohdl.sensitivity.list(self.b[3:0], self.bv.unsigned)
            self.y <<= self.b + self.bv.unsigned
t = std.VhdlCompiler.to_string(SensViews)
print(re.findall(r"process\\((.*)\\)\\s*$", t, flags=re.M))
'''


def replay_sensitivity_views(payload):
    import re
    from contracts.c06_extra import _run_design

    rc, out = _run_design(_SENS_VIEWS_DESIGN)
    return {"reproduced": rc == 0 and bool(re.search(r"[(]|downto", out.split("[", 1)[-1].replace("['", "").replace("']", ""))), "detail": "explicit sensitivity list with a slice and a cast view: " + out[-100:]}


# ---- PrepareAst.add_sensitivity -----------------------------------------------------------------------
def sens_value(kind, tag):
    if kind == "none":
        return None
    if kind == "all":
        return _SensitivityAll()
    return _SensitivityList([Opaque(f"{tag}0"), Opaque(f"{tag}1")])


def sens_shape(cur, depth):
    def make(env):
        top = SObj(PrepareAst, _parent=None, _sensitivity=sens_value(cur, "cur"))
        o = top
        for _ in range(depth):
            o = SObj(PrepareAst, _parent=o, _sensitivity=None)
        return o

    return Built([], make, lambda asg: "None", lambda asg: None)


def sens_spec(cur, new):
    def spec(sx, self, sens):
        real, rsens = sx.real_args
        top = real
        while top.fields["_parent"] is not None:
            top = top.fields["_parent"]

        def holds(res):
            now = top.fields["_sensitivity"]
            if cur == "all" or new == "all":
                return isinstance(now, _SensitivityAll)
            if cur == "none":
                return now is rsens
            # list + list: all requested signals, earlier ones first
            return isinstance(now, _SensitivityList) and [x.tag for x in now.signals] == ["cur0", "cur1", "new0", "new1"]

        return C.Pred(holds, "join of sensitivity requests")

    return spec


# ---- assignment statements and if: the text of the statement kind (C03: `<=` signal, `:=` variable) ---------------
from cohdl._core._type_qualifier import Signal as _Sig, Temporary as _Tmp  # noqa: E402


def _cast_model(it, self, target, value, value_str):
    return SFmt(["CAST(", Opaque("cast-of", target, value), ":", value_str, ")"])


def assign_shape(vcls):
    def make(env):
        tres = SObj(_Sig, _value=SObj(Bit, _val=None), _ref_spec=[])
        tres.fields["_root"] = tres
        return SObj(vcls, _target=SObj(VR.Target, result=tres), _source=SObj(VR.Value, result=Opaque("source-result")))

    return Built([], make, lambda asg: "None", lambda asg: None)


def assign_spec(symbol):
    def spec(sx, self, scope):
        real = sx.real_args[0]

        def holds(res):
            if not isinstance(res, SFmt):
                return False
            p = res.parts
            # <target text> <symbol> CAST(<cast of (target.result, source.result)>:<source text>);
            if len(p) != 6 or p[1] != f" {symbol} CAST(" or p[3] != ":" or p[5] != ");":
                return False
            t, c, s = p[0], p[2], p[4]
            ok_t = isinstance(t, Opaque) and t.deps and t.deps[0] is real.fields["_target"]
            ok_s = isinstance(s, Opaque) and s.deps and s.deps[0] is real.fields["_source"]
            ok_c = isinstance(c, Opaque) and c.deps[0] is real.fields["_target"].fields["result"] and c.deps[1] is real.fields["_source"].fields["result"]
            return ok_t and ok_s and ok_c and "".join(x for x in p if isinstance(x, str)).endswith(");")

        return C.Pred(holds, f"target {symbol} cast(source);")

    return spec


for vcls, symbol in ((VR.SignalAssignment, "<="), (VR.VariableAssignment, ":=")):
    con = contract(VRM + f"{vcls.__name__}.write", PROPS + ("C03",))
    c = Case("scalar", [assign_shape(vcls), SCOPE], assign_spec(symbol))
    c.native = False
    c.models = [(VhdlScope.__dict__["format_cast"], _cast_model)]
    con.cases.append(c)


def if_shape(orelse_empty):
    def make(env):
        return SObj(VR.If, _test=SObj(VR.Value, result=Opaque("t")), _body=SObj(VR.CodeBlock, _stmts=[], __empty__=False), _orelse=SObj(VR.CodeBlock, _stmts=[], __empty__=orelse_empty))

    return Built([], make, lambda asg: "None", lambda asg: None)


def if_write_spec(orelse_empty):
    def spec(sx, self, scope):
        real = sx.real_args[0]

        def holds(res):
            texts = [t for _, t in flat(res)]

            def is_text_of(x, obj):
                return isinstance(x, SFmt) and len(x.parts) == 1 and isinstance(x.parts[0], Opaque) and x.parts[0].deps[0] is obj

            head = texts[0]
            if not (isinstance(head, SFmt) and head.parts[0] == "if " and head.parts[-1] == " then" and isinstance(head.parts[1], Opaque) and head.parts[1].deps[0] is real.fields["_test"]):
                return False
            if orelse_empty:
                return len(texts) == 3 and is_text_of(texts[1], real.fields["_body"]) and text_is(texts[2], "end if;")
            return len(texts) == 5 and is_text_of(texts[1], real.fields["_body"]) and text_is(texts[2], "else") and is_text_of(texts[3], real.fields["_orelse"]) and text_is(texts[4], "end if;")

        return C.Pred(holds, "if <test> then <body> [else <orelse>] end if;")

    return spec


con = contract(VRM + "If.write", PROPS + ("C03",))
for oe in (False, True):
    c = Case("no-else" if oe else "else", [if_shape(oe), SCOPE], if_write_spec(oe))
    c.native = False
    con.cases.append(c)


con = contract("cohdl._compiler.frontend._prepare_ast:PrepareAst.add_sensitivity", PROPS)
for cur in ("none", "all", "list"):
    for new in ("all", "list"):
        for depth in (0, 1, 2):
            arg = Built([], lambda env, new=new: sens_value(new, "new"), lambda asg: "None", lambda asg: None)
            c = Case(f"{cur}+{new}@{depth}", [sens_shape(cur, depth), arg], sens_spec(cur, new))
            c.native = False
            con.cases.append(c)


# SelectWith with a vector-typed selector: written in the declared type of its root -- for an element of an array, the element type
def select_typed_shape(elem_kind, array_root):
    def make(env):
        if array_root:
            root = FC.tq(_Array[elem_kind[3], 4]())
            res = FC.tq(vec(elem_kind, 3, env["sel_bits"]), root, [_ElemOffset(1, [])])
        else:
            res = FC.tq(vec(elem_kind, 3, env["sel_bits"]))
        arg = SObj(VR.Value, result=res)
        br = [(SObj(VR.Constant, result=i), SObj(VR.Value, result=None, f_tag=f"value{i}")) for i in range(2)]
        return SObj(VR.SelectWith, _arg=arg, _branches=br, _default=SObj(VR.Value, result=None, f_tag="default"), _target=SObj(VR.Target, result=Opaque("type of the target")))

    return Built(["sel_bits"], make, lambda asg: "None", lambda asg: None, assume=lambda env: sym.And(env["sel_bits"] >= 0, env["sel_bits"] < 8))


def select_typed_spec(elem_kind):
    def spec(sx, self, scope):
        def holds(res):
            texts = [t for _, t in flat(res)]
            head = texts[0]
            if not (isinstance(head, SFmt) and head.parts[0] == "with " and isinstance(head.parts[1], Opaque) and head.parts[1].tag == "text-of"):
                return False
            sel = head.parts[1].deps[0]
            r = sel.fields["result"] if isinstance(sel, SObj) and sel.kind is VR.Value else None
            prim = r.fields.get("_value") if isinstance(r, SObj) else None
            return isinstance(prim, SObj) and prim.kind is elem_kind  # the selector is written as a value of the declared (element) type

        return C.Pred(holds, "with <selector in the declared type of its root / of the array element> select")

    return spec


for elem_kind in (Unsigned, Signed, BitVector):
    for array_root in (False, True):
        c = Case(f"selector:{'element-of-Array[' + elem_kind.__name__ + ']' if array_root else elem_kind.__name__}", [select_typed_shape(elem_kind, array_root), SCOPE], select_typed_spec(elem_kind))
        c.native = False
        c.interp_flags = {"class_call_models": {VR.Value: _value_ctor}, "opaque_texts_distinct": True}
        c.custom_replay = "contracts.c06_stmts.replay_array_selector"
        c.props = PROPS
        C.CONTRACTS[VRM + "SelectWith.write"].cases.append(c)
