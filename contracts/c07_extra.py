"""C07 / C06 / C12, bounded native check (stand-in, labelled bounded): vhdl.AliasScope -- the map that redirects the output ports of
ONE architecture to their buffer signals.

AliasScope re-classes an existing scope object at run time (`self.__class__ = type(...)`), which the symbolic interpreter does
not model; the real class is exercised instead, exhaustively over short operation sequences:
    new(k)            wrap a fresh VhdlScope (with its own declared objects) in an AliasScope
    alias(k, o, r)    scope k redirects object o to object r
    lookup(k, o)      name scope k uses for o
against the specification "every scope has its OWN alias map": lookup(k, o) is the name of r if scope k itself redirected o to r
(latest redirection), else the name of o; creating another scope or redirecting in another scope changes nothing.  A shared map
lets a sub-entity assembled later wipe the aliases of its parent: the parent then reads and drives the output PORT next to the
`port <= buffer;` assignment (two drivers).
"""

from __future__ import annotations

import itertools


def _fresh_scope(VR, names):
    scope = VR.VhdlScope(None) if _takes_parent(VR) else VR.VhdlScope()
    objs = []
    for n in names:
        o = object.__new__(_Obj)
        o.tag = n
        objs.append(o)
        scope._declarations[o] = VR.VhdlScope.Declaration(o, True, None)
        scope._declarations[o].name = n
    return scope, objs


class _Obj:
    pass


def _takes_parent(VR):
    import inspect

    return len(inspect.signature(VR.VhdlScope.__init__).parameters) > 1


def alias_scopes(tier="quick", seed=0):
    import importlib

    VR = importlib.import_module("cohdl._compiler.backend.vhdl._vhdl_repr")
    n_scopes = 2 if tier == "quick" else 3
    max_ops = 4 if tier == "quick" else 5
    evaluations = 0
    fails = {}
    # operations after the first scope exists: ("new",) | ("alias", k, o, r) | ("lookup" is performed for every (k, o) after every step)
    ops_pool = [("new",)] + [("alias", k, o, r) for k in range(n_scopes) for o in range(2) for r in range(2) if o != r]
    for length in range(1, max_ops + 1):
        for seq in itertools.product(ops_pool, repeat=length):
            scopes, objs, spec = [], [], []

            def new():
                k = len(scopes)
                sc, ob = _fresh_scope(VR, [f"s{k}_port", f"s{k}_buffer"])
                scopes.append(VR.AliasScope(sc))
                objs.append(ob)
                spec.append({})

            new()
            ok = True
            for op in seq:
                if op[0] == "new":
                    if len(scopes) >= n_scopes:
                        ok = False
                        break
                    new()
                else:
                    _, k, o, r = op
                    if k >= len(scopes):
                        ok = False
                        break
                    scopes[k].set_alias(objs[k][o], objs[k][r])
                    spec[k][o] = r
                # observe every scope
                for k, sc in enumerate(scopes):
                    for o in range(2):
                        evaluations += 1
                        want = objs[k][spec[k].get(o, o)].tag
                        try:
                            got = sc.lookup_name(objs[k][o])
                        except Exception as e:  # noqa: BLE001
                            got = f"{type(e).__name__}"
                        if got != want:
                            fails.setdefault("alias-map-is-per-scope", f"after {list(seq[: seq.index(op) + 1])}: scope {k} names object {o} {got!r}, expected {want!r}")
            if not ok:
                continue
    violations = []
    for key, what in sorted(fails.items()):
        oid = f"C07/alias-scopes[{key}]#bounded"
        violations.append({"kind": "custom", "qual": "<AliasScope operation sequences>", "case": key, "oid": oid, "check": "alias_scopes", "key": key, "assignment": {"deviation": key}, "solver": {"what": what}, "reproduced": True,
                           "replay_payload": {"property": "C07", "custom": "contracts.c07_extra.replay_alias_scopes", "key": key, "tier": tier, "obligation": oid, "verifier_output": what}})
    return {"evaluations": evaluations, "distinct": evaluations, "violations": violations, "samples": [{"scopes": n_scopes, "max_operations": max_ops}],
            "bounded": [{"function": "cohdl._compiler.backend.vhdl._vhdl_repr:AliasScope", "case": "operation sequences new / set_alias / lookup_name", "evaluations": evaluations, "exhaustive_within_bound": True,
                         "bound": f"all sequences of at most {max_ops} operations over at most {n_scopes} scopes with two objects each"}]}


_DESIGN = '''
import re
from cohdl import Entity, Port, Bit, std
class Leaf(Entity):
    a = Port.input(Bit)
    y = Port.output(Bit)
    def architecture(self):
        @std.concurrent
        def logic():
            self.y <<= ~self.a
class Parent(Entity):
    a = Port.input(Bit)
    x = Port.output(Bit)
    y = Port.output(Bit)
    def architecture(self):
        Leaf(a=self.a, y=self.y)
        @std.concurrent
        def logic():
            self.x <<= self.a
t = std.VhdlCompiler.to_string(Parent)
arch = t[t.index("architecture arch_Parent"):]
print("DRIVERS-OF-x", len(re.findall(r"^\\s*x <= ", arch, flags=re.M)), "PORT-MAP-USES-PORT", bool(re.search(r"y => y\\b", arch)))
'''


def replay_alias_scopes(payload):
    from contracts.c06_extra import _run_design

    rc, out = _run_design(_DESIGN)
    return {"reproduced": rc == 0 and ("DRIVERS-OF-x 1 " not in out or "PORT-MAP-USES-PORT True" in out),
            "detail": "hierarchical design whose parent drives one of its own output ports: " + out[-100:]}
