"""C03: match statements (PrepareAst.apply_impl, ast.Match branch) -- "conditional constructs execute exactly the first
branch whose condition holds, or the default".

The branch is interpreted from the real source on parsed match statements.  For value patterns the produced selection is
    CondSelect([(subject == pattern_i, body_i) in source order], default body)
so that, with the CondSelect / CaseWhen contracts (c03_condselect, c03_out, c06_stmts), exactly the first matching branch
runs.  Everything that makes the CONDITION of a branch more than `subject == value` must not be dropped silently:
  * a guard (`case 0 if en:`) is part of the condition -- ignoring it runs a branch whose condition does not hold;
  * `case 1 as z:` is a value pattern with a binding, not a wildcard -- treating it as the default runs it for every value
    and drops the cases after it;
  * a capture pattern (`case other:`) binds the subject to a name the body may use.
Such statements are rejected (the statement allows a rejection; translating them correctly would be accepted by these cases
only after the postcondition is extended -- recorded here so that it is a decision, not an accident).
"""

from __future__ import annotations

import ast

from cohdl import Temporary
from cohdl._compiler.frontend import _prepare_ast as PA
from cohdl._compiler.frontend import _prepare_ast_out as OUT

from pyvc import contracts as C
from pyvc import interp as I
from pyvc.contracts import Case, contract
from pyvc.values import SObj
from contracts.c05_format_cast import Built
from contracts.c02_frontend import _Expr, _Prep
from contracts import c10_frontend as _F  # noqa: F401  (defines the _Prep.apply stand-in)

PROPS = ("C03",)

PROGRAMS = {
    "values+default": ("match s:\n    case 0:\n        A\n    case 1:\n        B\n    case _:\n        D\n", "ok"),
    "values-only": ("match s:\n    case 0:\n        A\n    case 1:\n        B\n", "ok"),
    "default-only": ("match s:\n    case _:\n        D\n", "ok"),
    "guarded-value": ("match s:\n    case 0 if en:\n        A\n    case 1:\n        B\n    case _:\n        D\n", "reject"),
    "guarded-second-value": ("match s:\n    case 0:\n        A\n    case 1 if en:\n        B\n", "reject"),
    "guarded-wildcard": ("match s:\n    case 0:\n        A\n    case _ if en:\n        D\n", "reject"),
    "value-as-name": ("match s:\n    case 0:\n        A\n    case 1 as z:\n        B\n    case 2:\n        E\n", "reject"),
    "capture-name": ("match s:\n    case 0:\n        A\n    case other:\n        D\n", "reject"),
}


def _apply(it, self, node):
    if isinstance(node, list):
        # a case body: identified by the name its single expression statement mentions
        return SObj(OUT.CodeBlock, f_label=node[0].value.id)
    if isinstance(node, ast.MatchValue):
        return SObj(_Expr, f_result=("pattern", node.value.value), _result=None)
    if isinstance(node, ast.Name):
        # the subject: an expression WITH bound statements (e.g. the inlined body of a helper with a side effect)
        return SObj(_Expr, f_result=("name", node.id), _result=None, f_bound=["<statements bound to the subject>"])
    raise AssertionError(f"unexpected node {ast.dump(node)[:60]}")


def match_spec(name, src, verdict):
    tree = ast.parse(src).body[0]

    def spec(sx, self, inp):
        if verdict == "reject":
            sx.reject(AssertionError)
        want_cases, want_default = [], None
        for case in tree.cases:
            label = case.body[0].value.id
            if isinstance(case.pattern, ast.MatchAs):
                want_default = label
            else:
                want_cases.append((case.pattern.value.value, label))

        def holds(res):
            if not want_cases:
                # no comparison evaluates the subject: it is evaluated (once) in front of the selection
                if not (isinstance(res, SObj) and res.kind is OUT.CodeBlock and len(res.fields["f_content"]) == 2):
                    return False
                subj, res = res.fields["f_content"]
                if not (isinstance(subj, SObj) and subj.kind is _Expr and subj.fields.get("f_bound") == ["<statements bound to the subject>"]):
                    return False
            if not (isinstance(res, SObj) and res.kind is OUT.CondSelect):
                return False
            cases, default = res.fields["f_cases"], res.fields["f_default"]
            if (default.fields["f_label"] if default is not None else None) != want_default:
                return False
            if len(cases) != len(want_cases):
                return False
            for (cond, body), (value, label) in zip(cases, want_cases):
                if not (isinstance(cond, SObj) and cond.kind is OUT.Compare and cond.fields["f_op"] is OUT.Compare.Operator.EQ):
                    return False
                lhs, rhs = cond.fields["f_lhs"], cond.fields["f_rhs"]
                if lhs.fields["f_result"] != ("name", "s") or rhs.fields["f_result"] != ("pattern", value) or body.fields["f_label"] != label:
                    return False
            # the subject is evaluated ONCE: the statements bound to it belong to the first comparison only (a chain of
            # if / elsif re-evaluates whatever is bound to each condition)
            for i, (cond, body) in enumerate(cases):
                bound = cond.fields["f_lhs"].fields.get("f_bound")
                if bound != (["<statements bound to the subject>"] if i == 0 else []):
                    return False
            return True

        return C.Pred(holds, "CondSelect([(subject == pattern_i, body_i)] in source order, default body), subject evaluated once")

    return spec


con = contract("cohdl._compiler.frontend._prepare_ast:PrepareAst.apply_impl", PROPS)
# A match statement is a control statement: it selects which ASSIGNMENTS run.  A concurrent context "continuously drives its
# targets"; a case statement is not a concurrent statement (and a target assigned in one case only would not be driven in the
# others), so in a concurrent context every match statement is rejected -- like `if` with a run-time test and for-break chains.
from cohdl._core._context import ContextType  # noqa: E402

SELF = Built([], lambda env: SObj(_Prep, _last_apply_inp=None, _context=ContextType.SEQUENTIAL), lambda a: "<self>", lambda a: None)
SELF_CONCURRENT = Built([], lambda env: SObj(_Prep, _last_apply_inp=None, _context=ContextType.CONCURRENT), lambda a: "<self in a concurrent context>", lambda a: None)
for name, src, verdict, self_shape in [(n, s, v, SELF) for n, (s, v) in PROGRAMS.items()] + [(n + ",concurrent-context", s, "reject", SELF_CONCURRENT) for n, (s, v) in PROGRAMS.items() if v == "ok"]:
    node = ast.parse(src).body[0]
    c = Case(f"match:{name}", [self_shape, Built([], (lambda n: lambda env: n)(node), lambda a: "<match>", lambda a: None)], match_spec(name, src, verdict))
    c.native = False
    c.models = [(_Prep.apply, _apply), (PA._make_static_comparable, lambda it, a, b: (a, b))]
    c.interp_flags = {"class_call_models": {
        OUT.Compare: lambda it, args, kw: SObj(OUT.Compare, f_op=args[0], f_lhs=args[1], f_rhs=args[2], f_target=args[3]),
        OUT.CondSelect: lambda it, args, kw: SObj(OUT.CondSelect, f_cases=list(args[0]), f_default=args[1]),
        OUT.Value: lambda it, args, kw: SObj(_Expr, f_result=args[0], _result=None, f_bound=list(args[1])),
        OUT.CodeBlock: lambda it, args, kw: SObj(OUT.CodeBlock, f_content=list(args[0])),
        Temporary[bool]: lambda it, args, kw: SObj(Temporary, f_tag="compare-result"),
        Temporary: lambda it, args, kw: SObj(Temporary, f_tag="compare-result"),  # when a subscript model of another module is loaded
    }}
    c.custom_replay = "contracts.c03_match.replay_match_concurrent" if self_shape is SELF_CONCURRENT else "contracts.c03_match.replay_match_guard" if verdict == "reject" else "contracts.c03_match.replay_match_subject"
    con.cases.append(c)


_Expr.bound_statements = lambda self: None
I.register_model(_Expr.bound_statements, lambda it, self: self.fields.get("f_bound", []))

_SUBJECT_DESIGN = '''
from cohdl import Entity, Port, Bit, Unsigned, Variable
from cohdl import std
class MatchSubject(Entity):
    clk = Port.input(Bit)
    a = Port.input(Unsigned[4])
    b = Port.input(Unsigned[4])
    q = Port.output(Unsigned[4], default=0)
    r = Port.output(Unsigned[4], default=0)
    def architecture(self):
        v = Variable[Unsigned[4]](0)
        w = Variable[Unsigned[4]](0)
        def nxt():
            nonlocal v
            v @= v + 1
            return v
        def nxw():
            nonlocal w
            w @= w + 1
            return w
        def f():
            match nxt():
                case 1:
                    return self.a
                case 2:
                    return self.b
                case _:
                    return Unsigned[4](9)
        @std.sequential(std.Clock(self.clk))
        def proc():
            self.q <<= f()
        @std.sequential(std.Clock(self.clk))
        def proc2():
            match nxw():
                case _:
                    self.r <<= w
t = std.VhdlCompiler.to_string(MatchSubject)
p1 = t[t.index("proc: process"):t.index("proc2: process")]
# the chain is nested if / else: the subject is evaluated once iff the increment is emitted once in the whole process
print("INCREMENTS-V", p1.count("(v) + (1)"), "INCREMENTS-W", t.count("(w) + (1)"))
'''


def replay_match_subject(payload):
    from contracts.c06_extra import _run_design

    rc, out = _run_design(_SUBJECT_DESIGN)
    return {"reproduced": rc == 0 and "INCREMENTS-V 1 INCREMENTS-W 1" not in out,
            "detail": "`match nxt():` with a helper that increments a variable; the subject must be evaluated exactly once: " + out[-120:]}


_MATCH_DESIGN = '''
from cohdl import Entity, Port, Bit, Unsigned, std
class E(Entity):
    clk = Port.input(Bit)
    en = Port.input(Bit)
    sel = Port.input(Unsigned[2])
    q = Port.output(Unsigned[4])
    r = Port.output(Unsigned[4])
    def architecture(self):
        @std.sequential(std.Clock(self.clk))
        def guarded():
            match self.sel:
                case 0 if self.en:
                    self.q <<= 1
                case 1:
                    self.q <<= 2
                case _:
                    self.q <<= 3
        @std.sequential(std.Clock(self.clk))
        def named():
            match self.sel:
                case 0:
                    self.r <<= 1
                case 1 as z:
                    self.r <<= 2
                case 2:
                    self.r <<= 3
t = std.VhdlCompiler.to_string(E)
body = t[t.index("begin"):]
print("GUARD-DROPPED" if "en" not in body.replace("end", "") else "GUARD-USED", "CASE-DROPPED" if '"0011"' not in body.split("named")[1] else "CASE-KEPT")
'''


def replay_match_guard(payload):
    from contracts.c06_extra import _run_design

    rc, out = _run_design(_MATCH_DESIGN)
    return {"reproduced": rc == 0 and ("GUARD-DROPPED" in out or "CASE-DROPPED" in out), "detail": out[-300:]}


_CONCURRENT_DESIGN = '''
from cohdl import Entity, Port, Bit, BitVector, std

class Top(Entity):
    a = Port.input(BitVector[2])
    b = Port.input(Bit)
    c = Port.input(Bit)
    x = Port.output(Bit)

    def architecture(self):
        @std.concurrent
        def logic():
            match self.a:
                case "00":
                    self.x <<= self.b & self.c
                case "01":
                    pass

try:
    t = std.VhdlCompiler.to_string(Top)
    arch = t[t.index("begin"):]
    print("ACCEPTED", "CASE-STATEMENT-AT-CONCURRENT-LEVEL" if "case a is" in arch and "process" not in arch else "")
except AssertionError as e:
    print("REJECTED")
'''


def replay_match_concurrent(payload):
    """a match statement in a concurrent context: a case statement between the concurrent statements of the architecture"""
    from contracts.c06_extra import _run_design

    rc, out = _run_design(_CONCURRENT_DESIGN)
    return {"reproduced": rc == 0 and "CASE-STATEMENT-AT-CONCURRENT-LEVEL" in out, "detail": out[-300:]}
