"""statically declared types for the C17 sweep (templated records, flag enums,
bit fields): these need real class statements with string annotations"""

from __future__ import annotations

from cohdl import Bit, BitVector, Unsigned, Signed, std
from cohdl.std.bitfield import BitField


class WidthArg(int):
    pass


class TInner(std.Record[WidthArg]):
    a: Bit
    b: BitVector[WidthArg]
    c: Signed[WidthArg]


class TOuter(std.Record[WidthArg]):
    i1: TInner[WidthArg]
    i2: TInner[1]
    k: Bit
    v: Unsigned[WidthArg]


class TDerived(TInner):
    """templated record deriving from a templated record: base fields first (least significant)"""

    d: Unsigned[WidthArg]
    e: Bit


class TDerived2(TDerived):
    f: BitVector[WidthArg]


class PlainBase(std.Record):
    a: BitVector[3]
    b: Bit


class PlainDerived(PlainBase):
    """adds a field: a PlainDerived value has more bits than a PlainBase value"""

    c: Unsigned[2]


class Flags(std.FlagEnum[BitVector[3]]):
    f0 = "001"
    f1 = "010"
    f2 = "100"


class SparseEnum(std.Enum[Unsigned[3]]):
    a = 1
    b = 4
    c = 6


class SubField(BitField[3]):
    lo: BitField.Field[0]
    up: BitField.Field[2:1]


class Reg(BitField[8]):
    flag: BitField.Field[0]
    raw: BitField.Field[3:1]
    num: BitField.Field[5:2, Unsigned]
    sgn: BitField.Field[7:5, Signed]
    sub: SubField[4]
    top: BitField.Field[7]


class RegSliceSyntax(BitField[8]):
    """a nested sub-BitField placed with the slice spelling: SubField[4:2] occupies bits 4..2, i.e. offset 2 (== SubField[2])"""

    low: BitField.Field[1:0]
    sub: SubField[4:2]
    high: BitField.Field[7:5]


REG_SLICE_LAYOUT = {"low": (1, 0, "bv"), "sub.lo": (2, 2, "bit"), "sub.up": (4, 3, "bv"), "high": (7, 5, "bv")}

REG_LAYOUT = {
    # name: (hi, lo, kind)
    "flag": (0, 0, "bit"),
    "raw": (3, 1, "bv"),
    "num": (5, 2, "u"),
    "sgn": (7, 5, "s"),
    "top": (7, 7, "bit"),
    "sub.lo": (4, 4, "bit"),
    "sub.up": (6, 5, "bv"),
}
