"""C19: the result formats of fixed point + - * are large enough -- proved from
the real source of SFixed/UFixed.__add__/__sub__/__mul__ (and the raw branch of
__init__) for SYMBOLIC formats [left:right] and raw values.

Ghost view: a fixed point value is (width w >= 1, exponent e, raw integer r in
the raw range of Signed[w] / Unsigned[w]); it represents r * 2**e.

Postcondition (from the statement of C19, no format is prescribed):
   the result is an SFixed/UFixed of SOME format [l':r'] with r' <= min(ea, eb)
   whose raw value r' satisfies   raw' * 2**r' == ra * 2**ea  (op)  rb * 2**eb
   stated over integers after scaling by 2**-r':
        add/sub:  raw' == ra * 2**(ea-r')  (+/-)  rb * 2**(eb-r')
        mul:      raw' == ra * rb   and  r' == ea + eb
   UFixed a - b with a negative difference wraps modulo 2**(width').
The arithmetic on the raw vectors (resize, +, -, *) is the proved C09 contract of
Signed/Unsigned; the raw range of the result type is what makes the value exact.
"""

from __future__ import annotations

import z3

from cohdl import Signed, Unsigned
from cohdl.std._fixed import SFixed, UFixed
from cohdl.std import _core_utility as CU
from cohdl._core import _primitive_type as PT
from cohdl._core._type_qualifier import TypeQualifierBase

from pyvc import contracts as C
from pyvc import interp as I
from pyvc import sym
from pyvc.values import SObj, SCls, BoundMethod
from pyvc.contracts import Case, contract

from contracts.core_models import vec, S, U, width, bits, ival, is_kind, P2

PROPS = ("C19",)
M = I._MISSING
PRIM = {SFixed: Signed, UFixed: Unsigned}


def fx(kind, w, e, rawbits):
    return SObj(SCls(kind, width=w, exp=e), _val=vec(PRIM[kind], w, rawbits))


def fx_raw(x):
    return ival(x.fields["_val"])


def _fx_attr(it, obj, name):
    if name == "_width":
        return obj.cls.params["width"]
    if name == "_exp":
        return obj.cls.params["exp"]
    return M


def _fx_cls_attr(it, cls, name):
    if isinstance(cls, SCls):
        if name == "_width":
            return cls.params["width"]
        if name == "_exp":
            return cls.params["exp"]
        if name == "__params__":
            return cls.params
        if name == "__base_kind__":
            return cls.kind
    return M


def _fx_subscript(it, cls, key):
    """SFixed[l:r]: _FixedTemplateArg asserts plain ints, no step, l >= r"""
    kind = it.base_kind(cls)
    if not isinstance(key, slice) or key.step is not None:
        it.raise_(AssertionError)
    l, r = key.start, key.stop
    if not (sym.is_intlike(l) and sym.is_intlike(r)):
        it.raise_(AssertionError)
    if not it.truth(sym.to_z3(sym.to_int(l)) >= sym.to_z3(sym.to_int(r))):
        it.raise_(AssertionError)
    return SCls(kind, width=sym.to_int(l) - sym.to_int(r) + 1, exp=sym.to_int(r))


def _fx_ctor(it, cls, *args, **kw):
    """T(...) runs the REAL __init__ on a fresh instance (Template.__new__ only allocates)"""
    kind = it.base_kind(cls)
    obj = SObj(cls if isinstance(cls, SCls) else SCls(kind, width=cls._width, exp=cls._exp))
    it.call(BoundMethod(kind.__dict__["__init__"], obj), list(args), kw, None)
    return obj


for K in (SFixed, UFixed):
    I.ATTR_MODELS[K] = _fx_attr
    I.CLS_ATTR_MODELS[K] = _fx_cls_attr
    I.SUBSCRIPT_MODELS[K] = _fx_subscript
    I.CTOR_MODELS[K] = _fx_ctor
    for nm in ("left", "right"):
        I.register_inline(K.__dict__[nm].__func__)
    I.register_inline(K.__dict__["__init__"])

# the std.Value qualifier on an unqualified primitive: the real code is interpreted
I.register_inline(CU._Value.__dict__["__call__"])
I.register_inline(CU._Value.__dict__["__getitem__"])
I.register_inline(CU._Value.__dict__["__init__"])
I.register_inline(PT.is_primitive_type)
I.register_inline(TypeQualifierBase.__dict__["decay"])
I.register_inline(CU.instance_check)
I.register_inline(CU._check_type_qualifier_params)


class FxShape(C.Shape):
    def __init__(self, kind, p):
        self.kind, self.p = kind, p
        self.names = [p + "w", p + "e", p + "r"]

    def make(self, ctx, env):
        return fx(self.kind, env[self.p + "w"], env[self.p + "e"], env[self.p + "r"])

    def assume(self, env):
        w, r = env[self.p + "w"], env[self.p + "r"]
        return sym.And(w >= 1, r >= 0, r < P2(w))

    def concrete_src(self, asg):
        w, e, r = asg[self.p + "w"], asg[self.p + "e"], asg[self.p + "r"]
        k = "SFixed" if self.kind is SFixed else "UFixed"
        prim = "Signed" if self.kind is SFixed else "Unsigned"
        return f'cohdl.std.{k}[{e + w - 1}:{e}](raw=cohdl.BitVector[{w}]("{r:0{w}b}").{prim.lower()})'

    def concrete_spec(self, asg):
        return fx(self.kind, asg[self.p + "w"], asg[self.p + "e"], asg[self.p + "r"])

    def sample(self, rng, asg):
        w = rng.randint(1, 6)
        asg[self.p + "w"] = w
        asg[self.p + "e"] = rng.randint(-5, 4)
        asg[self.p + "r"] = rng.randrange(0, 2**w)


def is_fx(real, kind):
    return isinstance(real, SObj) and isinstance(real.cls, SCls) and real.cls.kind is kind and isinstance(real.fields.get("_val"), SObj)


def arith_spec(kind, op):
    def spec(sx, a, b):
        ea, eb = a.cls.params["exp"], b.cls.params["exp"]
        ra, rb = fx_raw(a), fx_raw(b)

        def post(real):
            if not is_fx(real, kind):
                return False
            v = real.fields["_val"]
            if not is_kind(v, PRIM[kind]):
                return False
            wr, er = real.cls.params["width"], real.cls.params["exp"]
            well_formed = sym.And(wr >= 1, sym.eq(width(v), wr), bits(v) >= 0, bits(v) < P2(wr))
            rr = ival(v)
            if op == "mul":
                exact = sym.And(sym.eq(er, ea + eb), sym.eq(rr, ra * rb))
            else:
                # proof hints (sound facts): a raw value scaled by 2**z stays within 2**(w-1+z)
                for x, w_, z_ in ((ra, a.cls.params["width"], ea - er), (rb, b.cls.params["width"], eb - er)):
                    if kind is SFixed:
                        sx.pow2_facts(w_ - 1 + z_, wr - 2, wr - 1, wr)
                    else:
                        sx.pow2_facts(w_ + z_, wr - 1, wr)
                sa, sb = ra * P2(ea - er), rb * P2(eb - er)
                want = sa + sb if op == "add" else sa - sb
                if kind is UFixed and op == "sub":
                    want = sym.Ite(sym.to_z3(want) < 0, want + P2(wr), want)
                exact = sym.And(er <= ea, er <= eb, sym.eq(rr, want))
            return sym.And(well_formed, exact)

        return C.Pred(post)

    return spec


for K, mod in ((SFixed, "cohdl.std._fixed:SFixed."), (UFixed, "cohdl.std._fixed:UFixed.")):
    for nm, op in (("__add__", "add"), ("__sub__", "sub"), ("__mul__", "mul")):
        con = contract(mod + nm, PROPS)
        # the four orderings of the formats are separate cases (together: all formats); keeps each query small
        splits = [("formats", None)] if op == "mul" else [
            (f"{fr}-finer,{hi}-higher", (lambda fr, hi: lambda env: sym.And(
                (env["ae"] <= env["be"]) if fr == "a" else (env["ae"] > env["be"]),
                (env["ae"] + env["aw"] >= env["be"] + env["bw"]) if hi == "a" else (env["ae"] + env["aw"] < env["be"] + env["bw"])))(fr, hi))
            for fr in ("a", "b") for hi in ("a", "b")
        ]
        for cname, req in splits:
            c = Case(cname, [FxShape(K, "a"), FxShape(K, "b")], arith_spec(K, op), requires=req)
            c.native = False
            c.interp_flags = {"branch_minmax": True, "arith_hints": True}
            c.timeout_factor = 6  # nonlinear (products with 2**z): 7-16 s alone, up to a minute with 16 busy cores
            con.cases.append(c)


# ---- equality: same format required; then equal raw values <=> equal represented numbers -----------------------
def eq_spec(kind):
    def spec(sx, a, b):
        same = sym.And(sym.eq(a.cls.params["width"], b.cls.params["width"]), sym.eq(a.cls.params["exp"], b.cls.params["exp"]))
        sx.require(same)
        # value(a) == value(b)  <=>  ra * 2**e == rb * 2**e  <=>  ra == rb
        return sym.eq(fx_raw(a), fx_raw(b))

    return spec


for K, mod in ((SFixed, "cohdl.std._fixed:SFixed."), (UFixed, "cohdl.std._fixed:UFixed.")):
    con = contract(mod + "__eq__", PROPS)
    c = Case("fixed-operand", [FxShape(K, "a"), FxShape(K, "b")], eq_spec(K))
    c.native = False
    con.cases.append(c)
