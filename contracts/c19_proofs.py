"""C19: the result formats of fixed point + - * are large enough -- proved from
the real source of SFixed/UFixed.__add__/__sub__/__mul__ (and the raw branch of
__init__) for SYMBOLIC formats [left:right] and raw values.

Ghost view: a fixed point value is (width w >= 1, exponent e, raw integer r in
the raw range of Signed[w] / Unsigned[w]); it represents r * 2**e.

Postcondition (from the statement of C19, no format is prescribed):
   the result is an SFixed/UFixed of SOME format [l':r'] with r' <= min(ea, eb)
   whose raw value r' satisfies   raw' * 2**r' == ra * 2**ea  (op)  rb * 2**eb
   stated over integers after scaling by 2**-r':
        add/sub:  raw' == ra * 2**(ea-r')  (+/-)  rb * 2**(eb-r')
        mul:      raw' == ra * rb   and  r' == ea + eb
   UFixed a - b with a negative difference wraps modulo 2**(width').
The arithmetic on the raw vectors (resize, +, -, *) is the proved C09 contract of
Signed/Unsigned; the raw range of the result type is what makes the value exact.
"""

from __future__ import annotations

import z3

from cohdl import Signed, Unsigned
from cohdl.std._fixed import SFixed, UFixed
from cohdl.std import _core_utility as CU
from cohdl._core import _primitive_type as PT
from cohdl._core._type_qualifier import TypeQualifierBase

from pyvc import contracts as C
from pyvc import interp as I
from pyvc import sym
from pyvc.values import SObj, SCls, BoundMethod
from pyvc.contracts import Case, contract

from contracts.core_models import vec, S, U, width, bits, ival, is_kind, P2

PROPS = ("C19",)
M = I._MISSING
PRIM = {SFixed: Signed, UFixed: Unsigned}


def fx(kind, w, e, rawbits):
    return SObj(SCls(kind, width=w, exp=e), _val=vec(PRIM[kind], w, rawbits))


def fx_raw(x):
    return ival(x.fields["_val"])


def _fx_attr(it, obj, name):
    if name == "_width":
        return obj.cls.params["width"]
    if name == "_exp":
        return obj.cls.params["exp"]
    return M


def _fx_cls_attr(it, cls, name):
    if isinstance(cls, SCls):
        if name == "_width":
            return cls.params["width"]
        if name == "_exp":
            return cls.params["exp"]
        if name == "__params__":
            return cls.params
        if name == "__base_kind__":
            return cls.kind
    return M


def _fx_subscript(it, cls, key):
    """SFixed[l:r]: _FixedTemplateArg asserts plain ints, no step, l >= r"""
    kind = it.base_kind(cls)
    if not isinstance(key, slice) or key.step is not None:
        it.raise_(AssertionError)
    l, r = key.start, key.stop
    if not (sym.is_intlike(l) and sym.is_intlike(r)):
        it.raise_(AssertionError)
    if not it.truth(sym.to_z3(sym.to_int(l)) >= sym.to_z3(sym.to_int(r))):
        it.raise_(AssertionError)
    return SCls(kind, width=sym.to_int(l) - sym.to_int(r) + 1, exp=sym.to_int(r))


def _fx_ctor(it, cls, *args, **kw):
    """T(...) runs the REAL __init__ on a fresh instance (Template.__new__ only allocates)"""
    kind = it.base_kind(cls)
    obj = SObj(cls if isinstance(cls, SCls) else SCls(kind, width=cls._width, exp=cls._exp))
    it.call(BoundMethod(kind.__dict__["__init__"], obj), list(args), kw, None)
    return obj


for K in (SFixed, UFixed):
    I.ATTR_MODELS[K] = _fx_attr
    I.CLS_ATTR_MODELS[K] = _fx_cls_attr
    I.SUBSCRIPT_MODELS[K] = _fx_subscript
    I.CTOR_MODELS[K] = _fx_ctor
    for nm in ("left", "right"):
        I.register_inline(K.__dict__[nm].__func__)
    I.register_inline(K.__dict__["__init__"])

# the std.Value qualifier on an unqualified primitive: the real code is interpreted
I.register_inline(CU._Value.__dict__["__call__"])
I.register_inline(CU._Value.__dict__["__getitem__"])
I.register_inline(CU._Value.__dict__["__init__"])
I.register_inline(PT.is_primitive_type)
I.register_inline(TypeQualifierBase.__dict__["decay"])
I.register_inline(CU.instance_check)
I.register_inline(CU._check_type_qualifier_params)


class FxShape(C.Shape):
    def __init__(self, kind, p):
        self.kind, self.p = kind, p
        self.names = [p + "w", p + "e", p + "r"]

    def make(self, ctx, env):
        return fx(self.kind, env[self.p + "w"], env[self.p + "e"], env[self.p + "r"])

    def assume(self, env):
        w, r = env[self.p + "w"], env[self.p + "r"]
        return sym.And(w >= 1, r >= 0, r < P2(w))

    def concrete_src(self, asg):
        w, e, r = asg[self.p + "w"], asg[self.p + "e"], asg[self.p + "r"]
        k = "SFixed" if self.kind is SFixed else "UFixed"
        prim = "Signed" if self.kind is SFixed else "Unsigned"
        return f'cohdl.std.{k}[{e + w - 1}:{e}](raw=cohdl.BitVector[{w}]("{r:0{w}b}").{prim.lower()})'

    def concrete_spec(self, asg):
        return fx(self.kind, asg[self.p + "w"], asg[self.p + "e"], asg[self.p + "r"])

    def sample(self, rng, asg):
        w = rng.randint(1, 6)
        asg[self.p + "w"] = w
        asg[self.p + "e"] = rng.randint(-5, 4)
        asg[self.p + "r"] = rng.randrange(0, 2**w)


def is_fx(real, kind):
    return isinstance(real, SObj) and isinstance(real.cls, SCls) and real.cls.kind is kind and isinstance(real.fields.get("_val"), SObj)


def arith_spec(kind, op):
    def spec(sx, a, b):
        ea, eb = a.cls.params["exp"], b.cls.params["exp"]
        ra, rb = fx_raw(a), fx_raw(b)

        def post(real):
            if not is_fx(real, kind):
                return False
            v = real.fields["_val"]
            if not is_kind(v, PRIM[kind]):
                return False
            wr, er = real.cls.params["width"], real.cls.params["exp"]
            well_formed = sym.And(wr >= 1, sym.eq(width(v), wr), bits(v) >= 0, bits(v) < P2(wr))
            rr = ival(v)
            if op == "mul":
                exact = sym.And(sym.eq(er, ea + eb), sym.eq(rr, ra * rb))
            else:
                # proof hints (sound facts): a raw value scaled by 2**z stays within 2**(w-1+z)
                for x, w_, z_ in ((ra, a.cls.params["width"], ea - er), (rb, b.cls.params["width"], eb - er)):
                    if kind is SFixed:
                        sx.pow2_facts(w_ - 1 + z_, wr - 2, wr - 1, wr)
                    else:
                        sx.pow2_facts(w_ + z_, wr - 1, wr)
                sa, sb = ra * P2(ea - er), rb * P2(eb - er)
                want = sa + sb if op == "add" else sa - sb
                if kind is UFixed and op == "sub":
                    want = sym.Ite(sym.to_z3(want) < 0, want + P2(wr), want)
                exact = sym.And(er <= ea, er <= eb, sym.eq(rr, want))
            return sym.And(well_formed, exact)

        return C.Pred(post)

    return spec


for K, mod in ((SFixed, "cohdl.std._fixed:SFixed."), (UFixed, "cohdl.std._fixed:UFixed.")):
    for nm, op in (("__add__", "add"), ("__sub__", "sub"), ("__mul__", "mul")):
        con = contract(mod + nm, PROPS)
        # the four orderings of the formats are separate cases (together: all formats); keeps each query small
        splits = [("formats", None)] if op == "mul" else [
            (f"{fr}-finer,{hi}-higher", (lambda fr, hi: lambda env: sym.And(
                (env["ae"] <= env["be"]) if fr == "a" else (env["ae"] > env["be"]),
                (env["ae"] + env["aw"] >= env["be"] + env["bw"]) if hi == "a" else (env["ae"] + env["aw"] < env["be"] + env["bw"])))(fr, hi))
            for fr in ("a", "b") for hi in ("a", "b")
        ]
        for cname, req in splits:
            c = Case(cname, [FxShape(K, "a"), FxShape(K, "b")], arith_spec(K, op), requires=req)
            c.native = False
            c.interp_flags = {"branch_minmax": True, "arith_hints": True}
            c.timeout_factor = 6  # nonlinear (products with 2**z): 7-16 s alone, up to a minute with 16 busy cores
            con.cases.append(c)


# ---- resize_fn, branches that keep the left index (target left >= source left): no overflow is possible ---------
# Reference (statement of C19):  q = raw * 2**(sr - r);  n = q (exact) when sr >= r,  n = floor(raw / 2**(r - sr)) for TRUNCATE;
# then wrapped / saturated into the raw range of [l:r] -- which is the identity here because l >= sl.
from cohdl.std._fixed import FixedRoundStyle as RS, FixedOverflowStyle as OS  # noqa: E402
from pyvc.contracts import PyInt  # noqa: E402


def target_raw_range(kind, W):
    if kind is SFixed:
        return -P2(sym.to_int(W) - 1), P2(sym.to_int(W) - 1) - 1
    return 0, P2(W) - 1


def resize_spec(kind, branch, rs, os_):
    def spec(sx, self, left, right, round_style=RS.TRUNCATE, overflow_style=OS.WRAP):
        w, e = self.cls.params["width"], self.cls.params["exp"]
        ra = fx_raw(self)
        W = left - right + 1
        if branch == "widen":
            n = ra * P2(e - right)
            sx.lemma("scale-bound", ra, *(( -P2(sym.to_int(w) - 1), P2(sym.to_int(w) - 1) - 1) if kind is SFixed else (0, P2(w) - 1)), P2(e - right))
            sx.pow2_facts(W, W - 1, sym.to_int(w) - 1 + (e - right), sym.to_int(w) + (e - right), products=[(sym.to_int(w) - 1, e - right), (w, e - right)])
        else:
            c = right - e  # bits dropped
            n = sym.pydiv(ra, P2(c))
            # floor of a signed value = arithmetic shift of its two's complement pattern
            bits_ = bits(self.fields["_val"])
            sx.lemma("div-sub-multiple", bits_, P2(c), P2(sym.to_int(w) - c))
            sx.lemma("div-threshold", bits_, P2(c), P2(sym.to_int(w) - 1 - c))
            sx.lemma("div-bounds", bits_, P2(c))
            sx.pow2_facts(w, sym.to_int(w) - 1, c, sym.to_int(w) - c, sym.to_int(w) - 1 - c, W, W - 1, products=[(c, sym.to_int(w) - c), (c, sym.to_int(w) - 1 - c)])
        lo, hi = target_raw_range(kind, W)

        def post(real):
            if not is_fx(real, kind):
                return False
            v = real.fields["_val"]
            wr, er = real.cls.params["width"], real.cls.params["exp"]
            return sym.And(sym.eq(wr, W), sym.eq(er, right), sym.eq(width(v), W), bits(v) >= 0, bits(v) < P2(W),
                           n >= lo, n <= hi,  # within the target range: wrap and saturate are the identity
                           sym.eq(ival(v), n))

        return C.Pred(post, "raw == exact / floored value, inside the target range")

    return spec


def wrap_spec(kind, sub):
    """target left < source left, WRAP, no fraction bits dropped (sr >= r): the result pattern is  raw * 2**z  mod 2**W"""

    def spec(sx, self, left, right, round_style=RS.TRUNCATE, overflow_style=OS.WRAP):
        w, e = sym.to_int(self.cls.params["width"]), self.cls.params["exp"]
        ra = fx_raw(self)
        ba = bits(self.fields["_val"])
        W = left - right + 1
        z = e - right
        ov = (e + w - 1) - left
        n = ra * P2(z)
        if sub == "all-above":
            # every source bit lies above the target: 2**z = 2**(z-W) * 2**W is a multiple of 2**W, so is raw * 2**z
            sx.pow2_facts(z, W, z - W, products=[(z - W, W)])
            sx.lemma("mod-multiple3", ra, P2(W), P2(z - W), P2(z))
        else:
            m = P2(w - ov)  # modulus of the kept source bits
            q = P2(z)
            u = sym.pymod(ba, m)  # the kept bits
            s = sym.Ite(sym.to_z3(u) >= P2(w - ov - 1), u - m, u) if kind is SFixed else u  # their signed reading
            sx.pow2_facts(w, w - ov, w - ov - 1, W, z, ov, products=[(ov, w - ov), (w - ov, z)])
            # step 1: the source value and the kept bits agree modulo m  (raw = pattern - c * 2**ov * m)
            sx.lemma("div-sub-multiple", ba, m, P2(ov))
            sx.lemma("div-bounds", ba, m)
            sx.have("raw-mod-m", sym.eq(sym.pymod(ra, m), u))
            sx.lemma("div-sub-multiple", u, m, 1)
            sx.lemma("div-range", u, m)
            sx.lemma("div-range", s, m)
            sx.have("kept-mod-m", sym.eq(sym.pymod(s, m), u))
            # step 2: scaling by q = 2**z scales the residue:  (x*q) mod (m*q) == q * (x mod m),  m*q == 2**W
            sx.lemma("mod-scale3", ra, m, q, P2(W))
            sx.lemma("mod-scale3", s, m, q, P2(W))
            sx.have("raw-scaled", sym.eq(sym.pymod(ra * q, P2(W)), q * u))
            sx.have("kept-scaled", sym.eq(sym.pymod(s * q, P2(W)), q * u))

        def post(real):
            if not is_fx(real, kind):
                return False
            v = real.fields["_val"]
            return sym.And(sym.eq(real.cls.params["width"], W), sym.eq(real.cls.params["exp"], right), sym.eq(width(v), W), bits(v) >= 0, bits(v) < P2(W),
                           sym.eq(bits(v), sym.pymod(n, P2(W))))

        return C.Pred(post, "pattern == raw * 2**z mod 2**W")

    return spec


def wrap_trunc_spec(kind):
    """target left < source left, WRAP, c = r - sr > 0 fraction bits dropped, TRUNCATE:
    the result pattern is  floor(raw / 2**c) mod 2**W   (W + c = w - ov kept-or-dropped source bits)"""

    def spec(sx, self, left, right, round_style=RS.TRUNCATE, overflow_style=OS.WRAP):
        w, e = sym.to_int(self.cls.params["width"]), self.cls.params["exp"]
        ra = fx_raw(self)
        ba = bits(self.fields["_val"])
        W = left - right + 1
        c = right - e
        ov = (e + w - 1) - left
        pc, pW, pWc = P2(c), P2(W), P2(W + c)
        sx.pow2_facts(w, w - 1, c, W, W + c, ov, w - c, products=[(c, W), (W + c, ov), (c, w - c), (W, ov)])
        # (1) the floor of the signed reading differs from the floor of the pattern by a multiple of 2**(w-c)
        k = (ba - ra) / P2(w)  # 0 or 1: raw = pattern - k * 2**w
        sx.lemma("div-multiple", k, P2(w))
        sx.lemma("div-sub-multiple", ba, pc, k * P2(w - c))
        sx.have("floor-of-raw", sym.eq(sym.pydiv(ra, pc), sym.pydiv(ba, pc) - k * P2(w - c)))
        # (2) 2**(w-c) = 2**ov * 2**W: that multiple vanishes modulo 2**W
        fb = sym.pydiv(ba, pc)
        sx.lemma("div-sub-multiple", fb, pW, k * P2(ov))
        sx.have("mod-of-raw-floor", sym.eq(sym.pymod(sym.pydiv(ra, pc), pW), sym.pymod(fb, pW)))
        # (3) (x div p) mod q == (x mod (p*q)) div p   with b = x div (p*q) = (x div p) div q
        b = sym.pydiv(ba, pWc)
        sx.lemma("div-div", ba, pc, pW)
        sx.lemma("div-sub-multiple", ba, pc, pW * b)
        sx.have("div-mod-swap", sym.eq(sym.pymod(fb, pW), sym.pydiv(sym.pymod(ba, pWc), pc)))
        n = sym.pydiv(ra, pc)

        def post(real):
            if not is_fx(real, kind):
                return False
            v = real.fields["_val"]
            return sym.And(sym.eq(real.cls.params["width"], W), sym.eq(real.cls.params["exp"], right), sym.eq(width(v), W), bits(v) >= 0, bits(v) < pW,
                           sym.eq(bits(v), sym.pymod(n, pW)))

        return C.Pred(post, "pattern == floor(raw / 2**c) mod 2**W")

    return spec


for K, mod in ((SFixed, "cohdl.std._fixed:SFixed."), (UFixed, "cohdl.std._fixed:UFixed.")):
    con = contract(mod + "resize_fn", PROPS)

    def req_wt(env):
        sl = env["ae"] + env["aw"] - 1
        return sym.And(sl > env["l"], env["l"] >= env["r"], env["ae"] < env["r"])

    c = Case("narrow-left,drop-fraction,TRUNCATE,WRAP", [FxShape(K, "a"), PyInt("l", None, None, -6, 8), PyInt("r", None, None, -8, 6)], wrap_trunc_spec(K), requires=req_wt,
             kwargs={"round_style": C.Const(RS.TRUNCATE, "rs"), "overflow_style": C.Const(OS.WRAP, "os")})
    c.native = False
    c.interp_flags = {"arith_hints": True}
    c.timeout_factor = 4
    con.cases.append(c)
    for sub in ("all-above", "overlap"):
        for rs in (RS.TRUNCATE, RS.ROUND):
            def req(env, sub=sub):
                sl = env["ae"] + env["aw"] - 1
                ov = sl - env["l"]
                return sym.And(sl > env["l"], env["l"] >= env["r"], env["ae"] >= env["r"], (ov >= env["aw"]) if sub == "all-above" else (ov < env["aw"]))

            c = Case(f"narrow-left,keep-fraction,{sub},{rs.name},WRAP", [FxShape(K, "a"), PyInt("l", None, None, -6, 8), PyInt("r", None, None, -8, 6)], wrap_spec(K, sub), requires=req,
                     kwargs={"round_style": C.Const(rs, "rs"), "overflow_style": C.Const(OS.WRAP, "os")})
            c.native = False
            c.interp_flags = {"arith_hints": True}
            c.timeout_factor = 4
            con.cases.append(c)
    for branch in ("widen", "keep-left-truncate"):
        for rs in ((RS.TRUNCATE, RS.ROUND) if branch == "widen" else (RS.TRUNCATE,)):
            for os_ in (OS.WRAP, OS.SATURATE):
                def req(env, branch=branch):
                    sl = env["ae"] + env["aw"] - 1
                    base = [env["l"] >= sl, env["l"] >= env["r"]]
                    if branch == "widen":
                        base += [env["ae"] >= env["r"], sym.Or(env["l"] > sl, env["ae"] > env["r"])]
                    else:
                        base += [env["ae"] < env["r"], env["r"] - env["ae"] < env["aw"]]
                    return sym.And(*base)

                c = Case(f"{branch},{rs.name},{os_.name}", [FxShape(K, "a"), PyInt("l", None, None, -6, 8), PyInt("r", None, None, -8, 6)], resize_spec(K, branch, rs, os_), requires=req,
                         kwargs={"round_style": C.Const(rs, "rs"), "overflow_style": C.Const(os_, "os")})
                c.native = False
                c.interp_flags = {"arith_hints": True}
                c.timeout_factor = 4
                con.cases.append(c)


# ---- the spellings of resize: x.resize(l, r, rs, os) and x.resize[l:r](rs, os) are resize_fn with exactly these arguments -------
from cohdl.std import _fixed as FX  # noqa: E402
from contracts.c05_format_cast import Built  # noqa: E402


class _Target:
    """the fixed-point object: resize_fn records its arguments"""


_Target.resize_fn = lambda self, *a, **k: None
I.register_model(_Target.resize_fn, lambda it, self, *a, **k: SObj(_Target, f_call=(a, k)))


def spelling_spec(slice_form):
    def spec(sx, self, *args, **kw):
        real = sx.real_args[0]

        def holds(res):
            if not (isinstance(res, SObj) and res.kind is _Target):
                return False
            a, k = res.fields["f_call"]
            got = dict(zip(("left", "right", "round_style", "overflow_style"), a))
            got.update(k)
            want = {"left": "L", "right": "R", "round_style": kw.get("round_style", RS.TRUNCATE), "overflow_style": kw.get("overflow_style", OS.WRAP)}
            return got == want

        return C.Pred(holds, "resize_fn(left, right, round_style, overflow_style) with the arguments given")

    return spec


for qual, slice_form in (("cohdl.std._fixed:_FixedResize.__call__", True), ("cohdl.std._fixed:_Resize.__call__", False)):
    con = contract(qual, PROPS)
    for rs in (None, RS.TRUNCATE, RS.ROUND):
        for os_ in (None, OS.WRAP, OS.SATURATE):
            kw = {}
            if rs is not None:
                kw["round_style"] = C.Const(rs, "rs")
            if os_ is not None:
                kw["overflow_style"] = C.Const(os_, "os")
            if slice_form:
                SELF_ = Built([], lambda env: SObj(FX._FixedResize, _obj=SObj(_Target), left="L", right="R"), lambda a: "None", lambda a: None)
                args = [SELF_]
            else:
                SELF_ = Built([], lambda env: SObj(FX._Resize, _obj=SObj(_Target)), lambda a: "None", lambda a: None)
                args = [SELF_, C.Const("L", "l"), C.Const("R", "r")]
            c = Case(f"round_style={'default' if rs is None else rs.name},overflow_style={'default' if os_ is None else os_.name}", args, spelling_spec(slice_form), kwargs=kw)
            c.native = False
            con.cases.append(c)


# ---- equality: same format required; then equal raw values <=> equal represented numbers -----------------------
def eq_spec(kind):
    def spec(sx, a, b):
        same = sym.And(sym.eq(a.cls.params["width"], b.cls.params["width"]), sym.eq(a.cls.params["exp"], b.cls.params["exp"]))
        sx.require(same)
        # value(a) == value(b)  <=>  ra * 2**e == rb * 2**e  <=>  ra == rb
        return sym.eq(fx_raw(a), fx_raw(b))

    return spec


for K, mod in ((SFixed, "cohdl.std._fixed:SFixed."), (UFixed, "cohdl.std._fixed:UFixed.")):
    con = contract(mod + "__eq__", PROPS)
    c = Case("fixed-operand", [FxShape(K, "a"), FxShape(K, "b")], eq_spec(K))
    c.native = False
    con.cases.append(c)
