"""C03: lowering of conditional chains (if/elif/else chains, match, for-break
chains arrive as out.CondSelect) in IrGenerator._apply_impl, proved from the
real source.

Semantics to preserve: exactly the FIRST branch whose condition holds is
executed, otherwise the default (if any).

 * If every condition is `v == c_j` for one and the same value v (on either side) and compile-time
   constants c_j, and no branch returns / breaks / continues / leaves its block, the chain becomes ONE
   case statement over v with the choices c_j and bodies in source order and the default as `others`
   (VHDL forbids duplicate choices, so at most one choice matches: first-match == the match).
 * Otherwise it becomes the nested chain  if e1: b1 else: (if e2: b2 else: ( ... default)),
   conditions and bodies in source order -- priority by construction.
 * No branch: just the default.
"""

from __future__ import annotations

import itertools

from cohdl._compiler.frontend import _generate_ir as GI
from cohdl._compiler.frontend import _prepare_ast_out as out
from cohdl._core._ir import _repr as ir
from cohdl._core._type_qualifier import Signal, TypeQualifier
from cohdl._core import _primitive_type as PT
from cohdl.utility.id_map import IdMap

from pyvc import contracts as C
from pyvc import interp as I
from pyvc.contracts import Case, contract
from pyvc.values import SObj, Opaque
from contracts.c05_format_cast import Built
from contracts.c03_lowering import block, _mk, BASE_MODELS, _Block

PROPS = ("C03",)
QUAL = "cohdl._compiler.frontend._generate_ir:IrGenerator._apply_impl"

I.register_inline(IdMap.__dict__["map_self"])


class _Const:
    """compile-time constant choice (a primitive that is not type qualified)"""


def value_obj(tag):
    return SObj(Signal, f_tag=tag, _value=Opaque("prim-of-" + tag))  # a run-time value (type qualified)


def const_obj(tag):
    return SObj(_Const, f_tag=tag)


def expr_of(obj, role):
    return SObj(out.Expression, f_role=role, _result=obj)


# condition kinds of one branch:  'L' v == c   'R' c == v   'N' not an equality   'O' equality on ANOTHER value   'V' v == run-time value
def make_branch(kind, j, v):
    body = SObj(out.CodeBlock, f_role=f"body{j}", f_returns=False, f_break=False)
    if kind == "N":
        return (SObj(out.Expression, f_role=f"cond{j}", _result=f"COND{j}"), body)
    lhs, rhs = {
        "L": (expr_of(v, f"lhs{j}"), expr_of(const_obj(f"c{j}"), f"rhs{j}")),
        "R": (expr_of(const_obj(f"c{j}"), f"lhs{j}"), expr_of(v, f"rhs{j}")),
        "O": (expr_of(value_obj(f"other{j}"), f"lhs{j}"), expr_of(const_obj(f"c{j}"), f"rhs{j}")),
        "V": (expr_of(v, f"lhs{j}"), expr_of(value_obj(f"w{j}"), f"rhs{j}")),
    }[kind]
    return (SObj(out.Compare, _op=out.Compare.Operator.EQ, _lhs=lhs, _rhs=rhs, f_role=f"cond{j}", _result=f"COND{j}"), body)


def cond_shape(kinds, with_default, special):
    def make(env):
        v = value_obj("v")
        branches = [make_branch(k, j, v) for j, k in enumerate(kinds)]
        if special == "break" and branches:
            branches[-1][1].fields["f_break"] = True
        default = SObj(out.CodeBlock, f_role="default", f_returns=False, f_break=False) if with_default else None
        return SObj(out.CondSelect, _branches=branches, _default=default, f_returns=(special == "returns"), f_v=v)

    return Built([], make, lambda a: "<condselect>", lambda a: None)


def _apply(it, self, inp, open_blocks=None):
    """conversion of sub-statements: bodies stay in their block unless the scenario says a body has a transition"""
    if isinstance(inp, SObj) and inp.kind in (out.If, out.CodeBlock) and "f_role" not in inp.fields:
        it.fallback.append(inp)  # the rewritten chain handed back to apply
        return open_blocks
    role = inp.fields.get("f_role", "?")
    it.events.append((role, [b for b in open_blocks]))
    if role.startswith("body") and it.transition_in == role:
        return [block("new-state")]
    return open_blocks


def chain_of(inp):
    """(conditions, bodies, default) of the nested if chain `rewritten`"""
    conds, bodies = [], []
    cur = inp
    while isinstance(cur, SObj) and cur.kind is out.If:
        conds.append(cur.fields["_test"])
        bodies.append(cur.fields["_body"])
        nxt = cur.fields["_orelse"]
        inner = nxt.fields["f_stmts"]
        cur = inner[0] if len(inner) == 1 else None
        if cur is None:
            return conds, bodies, None
    return conds, bodies, cur


def cond_spec(kinds, with_default, special, n_open):
    def spec(sx, self, inp, open_blocks):
        it = sx.it
        real_inp, real_blocks = sx.real_args[1], sx.real_args[2]
        branches = real_inp.fields["_branches"]
        default = real_inp.fields["_default"]
        # one common value compared with compile-time constants, on the same side in every branch
        eqs = bool(kinds) and all(br[0].kind is out.Compare for br in branches)
        lhs = [br[0].fields["_lhs"].fields["_result"] for br in branches] if eqs else []
        rhs = [br[0].fields["_rhs"].fields["_result"] for br in branches] if eqs else []
        is_const = lambda o: isinstance(o, SObj) and o.kind is _Const
        all_l = eqs and all(x is lhs[0] for x in lhs) and all(is_const(x) for x in rhs)
        all_r = eqs and not all_l and all(x is rhs[0] for x in rhs) and all(is_const(x) for x in lhs)
        common = lhs[0] if all_l else rhs[0] if all_r else None
        case_ok = (all_l or all_r) and special is None

        def holds(res):
            if not kinds:
                # no branch: only the default is converted
                return (it.events == ([("default", list(real_blocks))] if with_default else [])) and not it.fallback
            if case_ok:
                if it.fallback:
                    return False
                for b in real_blocks:
                    c = [s for s in b.fields["f_content"]]
                    if len(c) != 1 or c[0].kind is not ir.CaseWhen:
                        return False
                    f = c[0].fields
                    if f["f_value"] is not common:
                        return False
                    want_choices = [(br[0].fields["_rhs"] if all_l else br[0].fields["_lhs"]).fields["_result"] for br in branches]
                    got = f["f_branches"]
                    if len(got) != len(branches) or any(g[0] is not w for g, w in zip(got, want_choices)):
                        return False
                    # bodies in source order: body j was converted into the block that is branch j of the case
                    for j, g in enumerate(got):
                        ev = [e for e in it.events if e[0] == f"body{j}" and any(x is g[1] for x in e[1])]
                        if not ev:
                            return False
                    if with_default:
                        if f["f_default"] is None or not any(e[0] == "default" and any(x is f["f_default"] for x in e[1]) for e in it.events):
                            return False
                    elif f["f_default"] is not None:
                        return False
                return isinstance(res, list) and len(res) == len(real_blocks) and all(a is b for a, b in zip(res, real_blocks))
            # priority chain
            if len(it.fallback) != 1:
                return False
            conds, bodies, dflt = chain_of(it.fallback[0])
            if len(conds) != len(branches) or any(c is not br[0] for c, br in zip(conds, branches)) or any(b is not br[1] for b, br in zip(bodies, branches)):
                return False
            if with_default:
                return dflt is default
            return dflt is None or (isinstance(dflt, SObj) and dflt.kind is out.CodeBlock and dflt.fields.get("f_stmts") == [])

        return C.Pred(holds, "one case statement over the common value, or the if/elif chain in source order")

    return spec


def _mk_out_if(it, args, kwargs):
    return SObj(out.If, _test=args[0], _body=args[1], _orelse=args[2])


def _mk_out_block(it, args, kwargs):
    return SObj(out.CodeBlock, f_stmts=list(args[0]))


CLASS_MODELS = {
    ir.CodeBlock: lambda it, args, kwargs: block(f"new{len(it.new_blocks)}", kwargs.get("parent", args[1] if len(args) > 1 else None)) if not it.new_blocks.append(None) else None,
    ir.CaseWhen: _mk(ir.CaseWhen, ["f_value", "f_branches", "f_default"]),
    out.If: _mk_out_if,
    out.CodeBlock: _mk_out_block,
}

MODELS = BASE_MODELS + [
    (GI.IrGenerator.__dict__["apply"], _apply),
    (out.Expression.__dict__["result"], lambda it, self: self.fields["_result"]),
    (out.Statement.__dict__["returns"], lambda it, self: self.fields.get("f_returns", False)),
    (out.Statement.__dict__["returns_always"], lambda it, self: self.fields.get("f_returns", False)),
    (out.Statement.__dict__["contains_break"], lambda it, self: self.fields.get("f_break", False)),
    (out.Statement.__dict__["contains_continue"], lambda it, self: False),
    (PT.is_primitive, lambda it, x: True),
]

con = contract(QUAL, PROPS)
SCENARIOS = []
for n in (0, 1, 2, 3):
    for kinds in itertools.product("LRNOV", repeat=n):
        if n == 3 and len(set(kinds)) > 2:
            continue
        SCENARIOS.append(("".join(kinds), None))
for kinds in ("LL", "RR", "L"):
    for special in ("returns", "break", "transition"):
        SCENARIOS.append((kinds, special))

for kinds, special in SCENARIOS:
    for with_default in (False, True):
        for n_open in (1, 2):
            SELF = Built([], lambda env: SObj(GI.IrGenerator, _mode=GI.IrGenerator.Mode.SEQUENTIAL), lambda a: "<gen>", lambda a: None)
            OB = Built([], (lambda n: lambda env: [block(f"b{i}") for i in range(n)])(n_open), lambda a: "<blocks>", lambda a: None)
            sp = None if special == "transition" else special
            c = Case(f"condselect:[{kinds}]{',default' if with_default else ''}{',' + special if special else ''},{n_open}-open", [SELF, cond_shape(kinds, with_default, sp), OB],
                     cond_spec(kinds, with_default, special, n_open))
            c.native = False
            c.may_reject = AssertionError
            c.models = MODELS
            c.interp_flags = {"class_call_models": CLASS_MODELS}

            def setup(it, ctx, args, env, special=special, kinds=kinds):
                it.new_blocks, it.events, it.fallback = [], [], []
                it.transition_in = f"body{len(kinds) - 1}" if special == "transition" else None

            c.setup = setup
            con.cases.append(c)
