"""C17 bounded stand-in: serialisation round trips and bit layout of the REAL
std.to_bits / std.from_bits / std.count_bits on every type composition up to a
nesting bound and every bit pattern up to a width bound.

Reference layout (from the statement of C17): the first record field and array
element 0 occupy the least significant bits; fields are packed contiguously in
declaration order (base-class fields before derived ones); width(to_bits(x)) ==
count_bits(T).  Checked per type T and per bit pattern b of width count_bits(T):
   decode:     from_bits[T](b), read field by field, equals the reference decoding of b
   round trip: to_bits(from_bits[T](b)) == b     (=> from_bits(to_bits(x)) == x on decoded x)
   width:      a pattern one bit too wide or too narrow is rejected
and per record: construction with keyword arguments in ANY order serialises
like declaration order; a derived record serialised after its base has its own layout.
"""

from __future__ import annotations

import itertools
import sys
import types

import cohdl
from cohdl import Bit, BitVector, Unsigned, Signed, Array, std
from cohdl.std._exception import RefQualifierFail as _RefQualifierFail

_mod = types.ModuleType("c17_generated_types")
sys.modules["c17_generated_types"] = _mod
_mod.__dict__.update({"Bit": Bit, "BitVector": BitVector, "Unsigned": Unsigned, "Signed": Signed, "std": std, "Array": Array})
_cnt = [0]


def _dec(x):
    """value of a possibly type-qualified (Temporary/Variable/...) result"""
    return x._value if hasattr(x, "_value") and hasattr(x, "_root") else x


def _wi(x):
    """(width, unsigned integer) of a bit vector result"""
    x = _dec(x)
    return x.width, x.bitvector.unsigned.to_int()


def _reg(obj):
    _cnt[0] += 1
    name = f"T{_cnt[0]}"
    _mod.__dict__[name] = obj
    return name


# ---- type descriptors ------------------------------------------------------------------------------------------
class TD:
    def __init__(self, kind, *args):
        self.kind, self.args = kind, args
        self._real = None

    def bits(self):
        k, a = self.kind, self.args
        if k in ("bit", "bool"):
            return 1
        if k in ("bv", "u", "s", "enum"):
            return a[0]
        if k in ("sfixed", "ufixed"):
            return a[0] - a[1] + 1
        if k in ("carray", "sarray"):
            return a[0].bits() * a[1]
        if k == "rec":
            return sum(t.bits() for _, t in self.fields())
        raise AssertionError(k)

    def fields(self):
        """all fields of a record, base first"""
        base, own = self.args
        return (base.fields() if base is not None else []) + list(own)

    def real(self):
        if self._real is not None:
            return self._real
        k, a = self.kind, self.args
        if k == "bit":
            r = Bit
        elif k == "bool":
            r = bool
        elif k == "bv":
            r = BitVector[a[0]]
        elif k == "u":
            r = Unsigned[a[0]]
        elif k == "s":
            r = Signed[a[0]]
        elif k == "sfixed":
            r = std.SFixed[a[0]:a[1]]
        elif k == "ufixed":
            r = std.UFixed[a[0]:a[1]]
        elif k == "carray":
            r = Array[a[0].real(), a[1]]
        elif k == "sarray":
            r = std.Array[a[0].real(), a[1]]
        elif k == "enum":
            ns = {f"v{i}": i for i in range(2 ** a[0])}
            r = types.new_class(f"E{_cnt[0]}", (std.Enum[Unsigned[a[0]]],), exec_body=lambda d: d.update(ns))
        elif k == "rec":
            base, own = a
            ann = {n: _reg(t.real()) for n, t in own}
            bases = (base.real(),) if base is not None else (std.Record,)
            r = types.new_class(f"R{_cnt[0]}", bases, exec_body=lambda d: d.update({"__annotations__": ann, "__module__": "c17_generated_types"}))
        self._real = r
        return r

    def decode(self, v):
        """reference decoding of the integer v (count_bits wide) into a Python structure"""
        k, a = self.kind, self.args
        if k in ("bit", "bool", "bv", "u", "enum", "ufixed"):
            return v
        if k in ("s", "sfixed"):
            w = self.bits()
            return v - 2**w if v >= 2 ** (w - 1) else v
        if k in ("carray", "sarray"):
            w = a[0].bits()
            return [a[0].decode((v >> (i * w)) & (2**w - 1)) for i in range(a[1])]
        if k == "rec":
            out, off = {}, 0
            for n, t in self.fields():
                w = t.bits()
                out[n] = t.decode((v >> off) & (2**w - 1))
                off += w
            return out

    def observe(self, x):
        """the same structure read from the real deserialised object"""
        k, a = self.kind, self.args
        if k == "bit":
            return 1 if x else 0
        if k == "bool":
            return 1 if x else 0
        if k == "bv":
            return _wi(x)[1]
        if k in ("u", "s"):
            return _dec(x).to_int()
        if k == "enum":
            return _wi(x.raw)[1]
        if k in ("sfixed", "ufixed"):
            raw = _dec(std.to_bits(x))
            return raw.signed.to_int() if k == "sfixed" else raw.unsigned.to_int()
        if k == "carray":
            return [a[0].observe(x[i]) for i in range(a[1])]
        if k == "sarray":
            return [a[0].observe(x.get_elem(i, std.Value)) for i in range(a[1])]
        if k == "rec":
            return {n: t.observe(getattr(x, n)) for n, t in self.fields()}

    def name(self):
        k, a = self.kind, self.args
        if k in ("bit", "bool"):
            return k
        if k in ("bv", "u", "s", "enum"):
            return f"{k}{a[0]}"
        if k in ("sfixed", "ufixed"):
            return f"{k}[{a[0]}:{a[1]}]"
        if k in ("carray", "sarray"):
            return f"{k}<{a[0].name()},{a[1]}>"
        base, own = a
        return "rec(" + (base.name() + "+" if base is not None else "") + ",".join(f"{n}:{t.name()}" for n, t in own) + ")"


def _preset(td, real):
    td._real = real
    return td


def static_pool(tier):
    """templated records (incl. nested templated members), FlagEnum and a sparse
    Enum from contracts/c17_types.py (real class statements)"""
    from contracts import c17_types as ST

    def inner(w):
        return _preset(TD("rec", None, (("a", TD("bit")), ("b", TD("bv", w)), ("c", TD("s", w)))), ST.TInner[w])

    def outer(w):
        return _preset(TD("rec", None, (("i1", inner(w)), ("i2", inner(1)), ("k", TD("bit")), ("v", TD("u", w)))), ST.TOuter[w])

    def derived(w):
        return _preset(TD("rec", inner(w), (("d", TD("u", w)), ("e", TD("bit")))), ST.TDerived[w])

    def derived2(w):
        return _preset(TD("rec", derived(w), (("f", TD("bv", w)),)), ST.TDerived2[w])

    out = [inner(1), inner(2), outer(1), outer(2), _preset(TD("enum", 3), ST.Flags), _preset(TD("enum", 3), ST.SparseEnum)]
    out += [derived(1), derived(2), derived2(1)]
    out.append(TD("sarray", inner(2), 2))
    if tier != "quick":
        out += [inner(3), outer(3)]
    return out


def enumerator_checks():
    """declared enumerators serialise to their declared value and deserialise to an equal enumerator"""
    from contracts import c17_types as ST

    fails = []
    n = 0
    for E, decl in ((ST.Flags, {"f0": 1, "f1": 2, "f2": 4}), (ST.SparseEnum, {"a": 1, "b": 4, "c": 6})):
        for nm, val in decl.items():
            n += 2
            e = getattr(E, nm)
            b = std.to_bits(e)
            if _wi(b) != (3, val):
                fails.append({"type": E.__name__, "what": f"to_bits({E.__name__}.{nm}) = {b}, declared {val}"})
            back = std.from_bits[E](BitVector[3](format(val, "03b")))
            if not (back == e):
                fails.append({"type": E.__name__, "what": f"from_bits[{E.__name__}]({val:03b}) != {E.__name__}.{nm}"})
    n += 1
    comb = std.to_bits(ST.Flags.f0 | ST.Flags.f2)
    if _wi(comb) != (3, 5):
        fails.append({"type": "Flags", "what": f"to_bits(f0|f2) = {comb}"})
    return n, fails


def serialized_checks(t, T, w):
    """std.Serialized[T]: from_raw(b).value() decodes b, .bits() is b, Serialized[T](x).bits() == to_bits(x)"""
    fails = []
    n = 0
    S = std.Serialized[T]
    for v in range(2**w):
        b = BitVector[w](format(v, f"0{w}b"))
        s = S.from_raw(b)
        n += 3
        if t.observe(s.value()) != t.decode(v):
            fails.append(f"Serialized.from_raw({v:0{w}b}).value() decodes to {t.observe(s.value())}")
            break
        if _wi(s.bits()) != (w, v):
            fails.append(f"Serialized.from_raw({v:0{w}b}).bits() = {s.bits()}")
            break
        s2 = S(s.value())
        if _wi(s2.bits()) != (w, v):
            fails.append(f"Serialized(x).bits() = {s2.bits()} for x = from_bits({v:0{w}b})")
            break
    for dw in (1, -1):
        if w + dw >= 1:
            n += 1
            try:
                S.from_raw(BitVector[w + dw](format(0, f"0{w + dw}b")))
                fails.append(f"Serialized.from_raw accepts {w + dw} bits for a {w} bit type")
            except AssertionError:
                pass
    return n, fails


def bitfield_sweep():
    """BitField fields read and write exactly their declared bit ranges (contracts/c17_types.py Reg,
    incl. overlapping fields, typed fields and a nested sub-BitField at an offset)"""
    from cohdl import Variable
    from contracts import c17_types as ST

    fails = []
    n = 0
    W = 8

    def field(r, path):
        for p in path.split("."):
            r = getattr(r, p)
        return r

    def rd(x, kind, width):
        if kind == "bit":
            return 1 if x else 0
        if kind == "s":
            return _dec(x).to_int() % (2**width)
        if kind == "u":
            return _dec(x).to_int()
        return _wi(x)[1]

    def mk(kind, width, val):
        if kind == "bit":
            return Bit(val)
        s = format(val, f"0{width}b")
        return {"bv": BitVector, "u": Unsigned, "s": Signed}[kind][width](BitVector[width](s)) if kind == "bv" else (BitVector[width](s).unsigned if kind == "u" else BitVector[width](s).signed)

    n += 1
    if std.count_bits(ST.Reg) != W:
        fails.append(f"count_bits(Reg) = {std.count_bits(ST.Reg)}")
    for v in range(2**W):
        b = BitVector[W](format(v, f"0{W}b"))
        r = std.from_bits[ST.Reg](b)
        n += 1
        back = std.to_bits(r)
        if _wi(back) != (W, v):
            fails.append(f"to_bits(from_bits[Reg]({v:08b})) = {back}")
            break
        for path, (hi, lo, kind) in ST.REG_LAYOUT.items():
            width = hi - lo + 1
            want = (v >> lo) & (2**width - 1)
            got = rd(field(r, path), kind, width)
            n += 1
            if got != want:
                fails.append(f"Reg({v:08b}).{path} reads {got}, bits [{hi}:{lo}] are {want}")
                return n, fails
    # the slice spelling of a nested sub-BitField (SubField[4:2]) denotes the same placement as its offset spelling (SubField[2])
    n += 1
    if ST.SubField[4:2] is not ST.SubField[2]:
        fails.append("SubField[4:2] is not SubField[2]: the slice spelling places the sub-field at another offset")
    for v in range(2**W):
        r = std.from_bits[ST.RegSliceSyntax](BitVector[W](format(v, f"0{W}b")))
        n += 1
        if _wi(std.to_bits(r)) != (W, v):
            fails.append(f"to_bits(from_bits[RegSliceSyntax]({v:08b})) = {std.to_bits(r)}")
            break
        for path, (hi, lo, kind) in ST.REG_SLICE_LAYOUT.items():
            width = hi - lo + 1
            want = (v >> lo) & (2**width - 1)
            got = rd(field(r, path), kind, width)
            n += 1
            if got != want:
                fails.append(f"RegSliceSyntax({v:08b}).{path} reads {got}, bits [{hi}:{lo}] are {want}")
                return n, fails
    # writes: through a Variable-backed bitfield, every field, every value, two backgrounds
    for bg in (0, 255, 0b10110101, 0b01001010):
        for path, (hi, lo, kind) in ST.REG_LAYOUT.items():
            width = hi - lo + 1
            for val in range(2**width):
                var = Variable[BitVector[W]](format(bg, f"0{W}b"))
                r = ST.Reg(var)
                field(r, path).value = mk(kind, width, val)
                n += 1
                want = (bg & ~(((2**width) - 1) << lo)) | (val << lo)
                got = _wi(var)[1]
                if got != want:
                    fails.append(f"Reg({bg:08b}).{path} = {val}: vector becomes {got:08b}, expected {want:08b}")
                    return n, fails
    # the same when the bitfield OWNS its storage (std.Variable / std.Signal qualifier): nested sub-BitFields are
    # views of the owner's vector, a write through them must reach it (and to_bits of the owner must show it)
    for qual in (std.Variable, std.Signal):
        for bg in (0, 255, 0b10110101):
            for path, (hi, lo, kind) in ST.REG_LAYOUT.items():
                width = hi - lo + 1
                for val in (0, 2**width - 1, (2**width - 1) // 3):
                    r = ST.Reg(BitVector[W](format(bg, f"0{W}b")), _qualifier_=qual)
                    tgt = field(r, path)
                    if qual is std.Signal:
                        tgt.next = mk(kind, width, val)
                    else:
                        tgt.value = mk(kind, width, val)
                    n += 1
                    want = (bg & ~(((2**width) - 1) << lo)) | (val << lo)
                    got = _wi(std.to_bits(r))[1]
                    if got != want:
                        fails.append(f"{qual}-owned Reg({bg:08b}).{path} = {val}: to_bits gives {got:08b}, expected {want:08b}")
                        return n, fails
    # a bitfield built directly on a vector of another width would serialise to more / fewer than count_bits bits
    for dw in (1, 4, -1):
        n += 1
        try:
            r = ST.Reg(BitVector[W + dw](format(0, f"0{W + dw}b")))
            fails.append(f"Reg(vector of {W + dw} bits) is accepted: to_bits has {_wi(std.to_bits(r))[0]} bits, count_bits(Reg) = {W}")
        except AssertionError:
            pass
    n += 2
    for dw in (1, -1):
        try:
            std.from_bits[ST.Reg](BitVector[W + dw](format(0, f"0{W + dw}b")))
            fails.append(f"from_bits[Reg] accepts {W + dw} bits")
        except AssertionError:
            pass
    return n, fails


def cross_type_checks():
    """(1) a bit pattern is a bit pattern whatever vector type carries it: from_bits[T] of an Unsigned- / Signed- / BitVector-typed
    source of the right width REINTERPRETS the bits (no numeric conversion, no rejection) and to_bits gives them back;
    (2) std.Serialized[Base] holds exactly count_bits(Base) bits: an instance of a derived record that adds fields is not a
    Base value -- rejected, never stored with the derived layout"""
    from contracts import c17_types as ST

    fails = []
    n = 0
    for w in (1, 3, 4):
        for v in range(2**w):
            pattern = BitVector[w](format(v, f"0{w}b"))
            for sname, src in (("BitVector", pattern), ("Unsigned", pattern.unsigned), ("Signed", pattern.signed)):
                for T in (BitVector[w], Unsigned[w], Signed[w]):
                    n += 1
                    try:
                        x = std.from_bits[T](src)
                    except Exception as e:  # noqa: BLE001
                        fails.append(f"from_bits[{T.__name__}]({sname}-typed {v:0{w}b}) raises {type(e).__name__}: the pattern is not reinterpreted")
                        return n, fails
                    if _wi(std.to_bits(x)) != (w, v) or type(_dec(x)) is not T:
                        fails.append(f"from_bits[{T.__name__}]({sname}-typed {v:0{w}b}) = {x}: to_bits gives {std.to_bits(x)}")
                        return n, fails
    for base, derived in ((ST.PlainBase, ST.PlainDerived), (ST.TInner[2], ST.TDerived[2])):
        wb, wd = std.count_bits(base), std.count_bits(derived)
        for v in (0, 2**wd - 1, (2**wd - 1) // 3):
            n += 1
            x = std.from_bits[derived](BitVector[wd](format(v, f"0{wd}b")))
            try:
                s = std.Serialized[base](x)
            except AssertionError:
                continue
            got = _wi(s.bits())[0]
            if got != wb:
                fails.append(f"Serialized[{base.__name__}](instance of the derived record {derived.__name__}) is accepted and holds {got} bits, count_bits({base.__name__}) = {wb}")
                break
    return n, fails


def type_pool(tier):
    prim = [TD("bit"), TD("bool"), TD("bv", 1), TD("bv", 3), TD("u", 2), TD("s", 2), TD("s", 3), TD("enum", 1), TD("enum", 2), TD("sfixed", 1, -1), TD("ufixed", 0, -2)]
    pool = list(prim)
    arrays = [TD("sarray", t, n) for t in (TD("bit"), TD("u", 2), TD("s", 2), TD("bv", 3)) for n in (1, 2, 3)] + [TD("carray", t, n) for t in (TD("bit"), TD("bv", 2), TD("u", 2)) for n in (1, 2)]
    pool += arrays
    r1 = TD("rec", None, (("a", TD("bit")), ("b", TD("bv", 3)), ("c", TD("u", 2))))
    r2 = TD("rec", None, (("x", TD("s", 2)), ("y", TD("bool"))))
    d1 = TD("rec", r1, (("d", TD("s", 2)),))
    d2 = TD("rec", d1, (("e", TD("bit")),))
    empty_derived = TD("rec", r2, ())
    nested = TD("rec", None, (("r", r2), ("k", TD("bit")), ("arr", TD("sarray", TD("u", 2), 2))))
    arr_of_rec = TD("sarray", r2, 2)
    arr_of_arr = TD("sarray", TD("sarray", TD("bit"), 2), 2)
    rec_enum = TD("rec", None, (("e", TD("enum", 2)), ("f", TD("sfixed", 1, -1))))
    pool += [r1, r2, d1, d2, empty_derived, nested, arr_of_rec, arr_of_arr, rec_enum]
    pool += static_pool(tier)
    if tier != "quick":
        pool += [TD("sarray", nested, 1), TD("rec", nested, (("z", TD("u", 2)),)), TD("sarray", TD("sarray", TD("s", 2), 2), 2), TD("rec", None, (("p", arr_of_rec), ("q", TD("bv", 2))))]
    return pool


def serial_sweep(tier="quick", seed=0):
    maxbits = 10 if tier == "quick" else 13
    n = 0
    fail = []
    samples = []
    per_type = []
    pool = type_pool(tier)
    # realise base records BEFORE derived ones are touched (layout caches must not leak to subclasses)
    for t in pool:
        try:
            T = t.real()
            w = t.bits()
            if w > maxbits:
                continue
            cb = std.count_bits(T)
            n += 1
            if cb != w:
                fail.append({"type": t.name(), "what": f"count_bits = {cb}, expected {w}"})
                continue
            cnt = 0
            for v in range(2**w):
                b = BitVector[w](format(v, f"0{w}b"))
                x = std.from_bits[T](b)
                got = t.observe(x)
                want = t.decode(v)
                back = std.to_bits(x)
                n += 2
                cnt += 1
                if got != want:
                    fail.append({"type": t.name(), "what": f"from_bits({v:0{w}b}) decodes to {got}, layout gives {want}"})
                    break
                if _wi(back) != (w, v):
                    fail.append({"type": t.name(), "what": f"to_bits(from_bits({v:0{w}b})) = {back}"})
                    break
            per_type.append((t.name(), cnt))
            if t.kind in ("bv", "u", "s"):
                # to_bits yields a VALUE (a new constant / temporary), not a view of its argument: bits taken
                # before the argument changes keep the old value
                for v in (0, 2**w - 1, (2**w - 1) // 3):
                    y = T(BitVector[w](format(v, f"0{w}b")))
                    taken = std.to_bits(y)
                    y._assign(T(BitVector[w](format(v ^ (2**w - 1), f"0{w}b"))))
                    n += 1
                    if _wi(taken) != (w, v):
                        fail.append({"type": t.name(), "what": f"to_bits(x) aliases x: taken at {v:0{w}b}, reads {taken} after x was assigned"})
                        break
            if len(samples) < 4 and t.kind == "rec":
                samples.append({"type": t.name(), "bits": w, "example": {"pattern": format(2**w - 2, f"0{w}b"), "decoded": t.decode(2**w - 2)}})
            # wrong widths are rejected
            for dw in (1, -1):
                if w + dw < 1:
                    continue
                n += 1
                try:
                    std.from_bits[T](BitVector[w + dw](format(0, f"0{w + dw}b")))
                    fail.append({"type": t.name(), "what": f"from_bits accepts a {w + dw} bit vector for a {w} bit type"})
                except AssertionError:
                    pass
                except Exception as e:
                    pass
            if t.kind == "rec" and w <= 8:
                k, fl = serialized_checks(t, T, w)
                n += k
                for f in fl:
                    fail.append({"type": t.name(), "what": f})
            # records: keyword construction in every order serialises in declaration order
            if t.kind == "rec" and 2 <= len(t.fields()) <= 4:
                fl = t.fields()
                v = (2**w - 1) // 3  # 0101.. pattern
                ref = t.decode(v)
                x0 = std.from_bits[T](BitVector[w](format(v, f"0{w}b")))
                for perm in itertools.permutations([nm for nm, _ in fl]):
                    kw = {nm: getattr(x0, nm) for nm in perm}
                    n += 1
                    try:
                        y = T(**kw)
                    except _RefQualifierFail:
                        # documented limitation: arrays of non trivially serialisable elements cannot be
                        # copied element-wise; a rejection is not a wrong layout
                        break
                    bb = std.to_bits(y)
                    if _wi(bb) != (w, v):
                        fail.append({"type": t.name(), "what": f"constructed with keywords in order {perm}: to_bits = {bb}, expected {v:0{w}b}"})
                        break
        except Exception as e:
            fail.append({"type": t.name(), "what": f"unexpected {type(e).__name__}: {str(e)[:120]}"})
    for label, fn in (("<enumerators>", enumerator_checks), ("<BitField Reg>", bitfield_sweep), ("<typed sources / Serialized of a derived record>", cross_type_checks)):
        try:
            k, fl = fn()
            n += k
            per_type.append((label, k))
            for f in fl:
                fail.append({"type": label, "what": f if isinstance(f, str) else f["what"]})
        except Exception as e:
            fail.append({"type": label, "what": f"unexpected {type(e).__name__}: {str(e)[:120]}"})
    violations = []
    seen = set()
    for f in fail:
        if f["type"] in seen:
            continue
        seen.add(f["type"])
        violations.append({
            "kind": "custom", "qual": "<C17 serialisation sweep>", "case": f["type"], "oid": f"C17/serial-sweep[{f['type']}]#bounded", "check": "serial_sweep", "key": f["type"],
            "assignment": {"type": f["type"]}, "solver": {"what": f["what"]}, "reproduced": True,
            "replay_payload": {"property": "C17", "custom": "contracts.c17_serial.replay", "type": f["type"], "tier": tier, "obligation": f"C17/serial-sweep[{f['type']}]#bounded", "verifier_output": f["what"]},
        })
    return {
        "evaluations": n, "distinct": n, "violations": violations[:6], "samples": samples,
        "bounded": [{"function": "std.to_bits / std.from_bits / std.count_bits", "case": nm, "evaluations": c, "exhaustive_within_bound": True, "bound": f"all bit patterns (<= {maxbits} bits)"} for nm, c in per_type],
    }


def replay(payload):
    r = serial_sweep(payload.get("tier", "quick"), 0)
    hit = [v for v in r["violations"] if v["case"] == payload["type"]]
    return {"reproduced": bool(hit), "detail": hit[0]["solver"] if hit else "type round-trips with the documented layout on the whole bound"}
