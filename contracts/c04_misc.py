"""C04: three small pieces the reset behaviour depends on, proved from the real source.

 * Port.input / Port.output / Port.inout: the factory forwards direction, default, name and `noreset`
   (a noreset inout / output port must stay out of the reset block).
 * SequentialContext.or_reset: the derived context's reset is asynchronous exactly when requested, and
   inherits the parent's mode only when none is requested; the combined reset is active when either
   source is (active-high: or of the active-high readings; active-low: and of the active-low readings).
 * ir.Sequential.__init__: state machines are translated (their state register becomes an ordinary
   written signal) BEFORE the resettable roots are collected, aliases are fixed afterwards -- otherwise
   an embedded coroutine would not return to its first state on reset.
"""

from __future__ import annotations

import cohdl
from cohdl import Port, Signal, Bit
from cohdl._core._ir import _repr as ir
from cohdl.std import _context as SC
from cohdl._core._type_qualifier import TypeQualifier
from cohdl._core._intrinsic import _SensitivityAll

from pyvc import contracts as C
from pyvc import interp as I
from pyvc import sym
from pyvc.contracts import Case, contract
from pyvc.values import SObj, SCls, Opaque


class Built(C.Shape):
    """a fixed (non-symbolic) argument built per run"""

    def __init__(self, names, make, src, spec):
        self.names = names
        self._make, self._src = make, src

    def make(self, ctx, env):
        return self._make(env)

    def assume(self, env):
        return True

    def concrete_src(self, asg):
        return self._src(asg)

    def concrete_spec(self, asg):
        return None

    def sample(self, rng, asg):
        pass

PROPS = ("C04",)


# ---- Port factories -------------------------------------------------------------------------------------------------
def _port_subscript(it, cls, key):
    return SCls(Port, wrapped=key[0], direction=key[1])


def _port_ctor(it, cls, *args, **kw):
    return SObj(cls, f_args=list(args), f_kw=dict(kw))


WRAPPED = Built([], lambda env: Opaque("Wrapped"), lambda a: "W", lambda a: None)
VAL = lambda v, tag: Built([], (lambda x: lambda env: x)(v), lambda a: tag, lambda a: None)


def port_spec(direction, has_default):
    def spec(sx, Wrapped, **kw):
        def holds(res):
            if not (isinstance(res, SObj) and isinstance(res.cls, SCls) and res.cls.kind is Port):
                return False
            if res.cls.params["direction"] is not direction or res.cls.params["wrapped"] is not sx.real_args[0]:
                return False
            args, k = res.fields["f_args"], res.fields["f_kw"]
            if k.get("name") != kw.get("name"):
                return False
            if not has_default:
                return args == [] and "noreset" not in k
            dflt = args[0] if args else k.get("default")
            return dflt == kw.get("default") and k.get("noreset", False) == kw.get("noreset", False)

        return C.Pred(holds, "Port[Wrapped, direction](default, name, noreset) with the given values")

    return spec


for fname, direction, has_default in (("input", Port.Direction.INPUT, False), ("output", Port.Direction.OUTPUT, True), ("inout", Port.Direction.INOUT, True)):
    con = contract(f"cohdl._core._type_qualifier:Port.{fname}", PROPS)
    variants = [{"name": "p"}] if not has_default else [{"name": "p", "default": "DEFAULT", "noreset": True}, {"name": None, "default": None, "noreset": False}, {"default": "DEFAULT"}]
    for i, kw in enumerate(variants):
        c = Case(f"kwargs-{i}", [WRAPPED], port_spec(direction, has_default), kwargs={k: VAL(v, repr(v)) for k, v in kw.items()})
        c.native = False
        con.cases.append(c)

I.SUBSCRIPT_MODELS[Port] = _port_subscript
I.CTOR_MODELS[Port] = _port_ctor


# ---- Sequential.__init__: order of the passes --------------------------------------------------------------------------
class _Code:
    """the context's code block: visit / _fix_alias are recorded"""


_Code.visit = lambda self, fn: None
_Code._fix_alias = lambda self: None


def _code_visit(it, self, fn):
    it.order.append(("visit", getattr(fn, "qualname", "?").split(".")[-1]))
    return self


I.register_model(_Code.visit, _code_visit)
I.register_model(_Code._fix_alias, lambda it, self: it.order.append(("fix_alias",)))


def seq_spec(sx, self, name, code, always_expr, sensitivity, attributes, source_location):
    it = sx.it

    def holds(res):
        return it.order == [("visit", "translate_statemachine"), ("pushed_resettable",), ("fix_alias",)] and isinstance(sx.real_args[0].fields.get("_sensitivity"), (SObj, _SensitivityAll))

    return C.Pred(holds, "translate state machines, then collect resettable roots, then fix aliases")


con = contract("cohdl._core._ir._repr:Sequential.__init__", PROPS + ("C03",))
SELF = Built([], lambda env: SObj(ir.Sequential), lambda a: "<seq>", lambda a: None)
CODE = Built([], lambda env: SObj(_Code), lambda a: "<code>", lambda a: None)
for sens in ("none", "given"):
    SENS = Built([], (lambda s: lambda env: None if s == "none" else SObj(cohdl._core._intrinsic._SensitivityList, signals=[]))(sens), lambda a: "<sens>", lambda a: None)
    c = Case(f"sensitivity-{sens}", [SELF, VAL("ctx", "'ctx'"), CODE, VAL(None, "None"), SENS, VAL({}, "{}"), VAL(None, "None")], seq_spec)
    c.native = False
    c.models = [
        (ir.Context.__dict__["__init__"], lambda it, self, name, code, attributes, source_location: self.fields.update(_name=name, _code=code, attributes=attributes)),
        (ir.Sequential.__dict__["_pushed_resettable_signals"], lambda it, self: it.order.append(("pushed_resettable",))),
    ]

    c.interp_flags = {"class_call_models": {_SensitivityAll: lambda it, args, kw: SObj(_SensitivityAll)}}

    def setup(it, ctx, args, env):
        it.order = []

    c.setup = setup
    con.cases.append(c)


# ---- SequentialContext.or_reset ---------------------------------------------------------------------------------------------
class _Reset:
    """parent reset: is_async(), active_high_signal(), active_low_signal()"""


_Reset.is_async = lambda self: None
_Reset.active_high_signal = lambda self: None
_Reset.active_low_signal = lambda self: None
I.register_model(_Reset.is_async, lambda it, self: self.fields["f_async"])
I.register_model(_Reset.active_high_signal, lambda it, self: self.fields["f_high"])
I.register_model(_Reset.active_low_signal, lambda it, self: sym.Not(self.fields["f_high"]))
# std.Reset.__bool__ is the Python value the reset SIGNAL has at elaboration time (its default): arbitrary, and it must not
# decide anything -- whether a context HAS a reset is `reset is None`
_Reset.__bool__ = lambda self: None
I.register_model(_Reset.__bool__, lambda it, self: self.fields["f_elab"])
# the parent's own polarity is arbitrary and must not matter: the derived reset has the REQUESTED polarity
_Reset.is_active_low = lambda self: None
_Reset.is_active_high = lambda self: None
I.register_model(_Reset.is_active_low, lambda it, self: self.fields["f_low"])
I.register_model(_Reset.is_active_high, lambda it, self: sym.Not(self.fields["f_low"]))


class _CSig:
    """the combined reset signal: `<<=` records the driven value"""


_CSig.__ilshift__ = lambda self, v: None


def _csig_assign(it, self, v):
    self.fields["f_driven"] = v
    return self


I.register_model(_CSig.__ilshift__, _csig_assign)


def _concurrent(it, fn):
    # @std.concurrent: the body is the continuous assignment; evaluate it once
    it.call(fn, [], {})
    return fn


def _cond_fn():
    pass


def or_reset_spec(parent, requested, active_low, which="or"):
    def spec(sx, self, **kw):
        it = sx.it
        real = sx.real_args[0]

        def holds(res):
            if not (isinstance(res, SObj) and res.kind is SC.SequentialContext):
                return False
            r = res.fields["f_reset"]
            if not (isinstance(r, SObj) and r.kind is SC.Reset):
                return False
            want_async = requested if requested is not None else (real.fields["_reset"].fields["f_async"] if parent else None)
            got_async = r.fields["is_async"]
            if want_async is None:
                ok_async = got_async is None
            else:
                ok_async = it.ctx.entails(got_async == want_async) if sym.is_sym(got_async) or sym.is_sym(want_async) else got_async is want_async
            sig = r.fields["f_signal"]
            driven = sig.fields.get("f_driven")
            e = it.expr_value
            if not parent:
                ok_val = driven is e
            else:
                high = real.fields["_reset"].fields["f_high"]
                # in reset when either source is: active-high reading is (parent high) or expr; active-low: (not parent high) and expr
                if which == "or":
                    want = sym.And(sym.Not(high), e) if active_low else sym.Or(high, e)
                else:
                    # and_reset: in reset only when BOTH sources are: active-low reading (not parent) or expr, active-high parent and expr
                    want = sym.Or(sym.Not(high), e) if active_low else sym.And(high, e)
                ok_val = sym.is_sym(driven) and it.ctx.entails(driven == want)
            # "a copy of self with the reset condition set to ...": everything else the context was configured with stays
            # -- in particular a registered on_reset action (C04) and the step condition
            kept = res.fields["f_kw"].get("step_cond") == "STEP" and res.fields["f_kw"].get("on_reset") == "ON_RESET" and res.fields["f_attributes"] == {"a": 1}
            return bool(ok_async) and bool(ok_val) and r.fields["active_low"] == active_low and res.fields["f_clk"] == "CLK" and kept

        return C.Pred(holds, "reset mode as requested / inherited; combined reset active when either source is")

    return spec


for which, parent, requested, active_low in [(w, p, r, a) for w in ("or", "and") for p in (False, True) for r in (None, True, False) for a in (False, True)]:
    con = contract(f"cohdl.std._context:SequentialContext.{which}_reset", PROPS)
    if True:
        if True:
            def mk_self(env, parent=parent):
                r = SObj(_Reset, f_async=None, f_high=None, f_low=None, f_elab=None) if parent else None
                return SObj(SC.SequentialContext, _clk="CLK", _reset=r, _attributes={"a": 1}, _step_cond="STEP", _on_reset="ON_RESET", _comment=None, _capture_lazy=False)

            kw = {"expr": VAL(_cond_fn, "expr"), "active_low": VAL(active_low, repr(active_low))}
            if requested is not None:
                kw["is_async"] = VAL(requested, repr(requested))
            c = Case(f"{'parent-reset' if parent else 'no-parent-reset'},is_async={requested},active_low={active_low}", [Built([], mk_self, lambda a: "<ctx>", lambda a: None)], or_reset_spec(parent, requested, active_low, which), kwargs=kw)
            c.native = False
            c.models = [(SC.concurrent, _concurrent), (_cond_fn, lambda it: it.expr_value)]
            c.interp_flags = {"class_call_models": {
                SC.SequentialContext: lambda it, args, kw: SObj(SC.SequentialContext, f_clk=args[0], f_reset=args[1], f_attributes=kw.get("attributes"), f_kw=dict(kw)),
                SC.Reset: lambda it, args, kw: SObj(SC.Reset, f_signal=args[0], active_low=kw.get("active_low"), is_async=kw.get("is_async")),
            }}

            def setup(it, ctx, args, env, parent=parent):
                it.expr_value = ctx.fresh_bool("expr_active")
                if parent:
                    args[0].fields["_reset"].fields["f_async"] = ctx.fresh_bool("parent_async")
                    args[0].fields["_reset"].fields["f_high"] = ctx.fresh_bool("parent_active")
                    args[0].fields["_reset"].fields["f_low"] = ctx.fresh_bool("parent_declared_active_low")
                    args[0].fields["_reset"].fields["f_elab"] = ctx.fresh_bool("parent_reset_signal_value_at_elaboration")

            c.setup = setup
            con.cases.append(c)


def _signal_subscript(it, cls, key):
    return SCls(Signal, wrapped=key)


def _signal_ctor(it, cls, *args, **kw):
    return SObj(_CSig, f_args=list(args), f_kw=dict(kw))


I.SUBSCRIPT_MODELS.setdefault(TypeQualifier, _signal_subscript)
I.CTOR_MODELS.setdefault(TypeQualifier, _signal_ctor)


# ---- std.NoresetSignal / std.NoresetVariable: composite types pass the NORESET qualifier on to their members -----------------
from cohdl.std import _core_utility as CU  # noqa: E402
from cohdl._core import _primitive_type as PT  # noqa: E402

I.register_inline(PT.is_primitive_type)


class _Composite:
    """a Record / std.Array like type: its members are created with the qualifier it is given"""


def noreset_spec(qcls, composite):
    def spec(sx, self, *args, **kw):
        def holds(res):
            if composite:
                if not (isinstance(res, SObj) and res.kind is _Composite):
                    return False
                q = res.fields["f_kw"].get("_qualifier_")
                # the members must again be created through a noreset qualifier of the same kind (which marks
                # primitives noreset=True): handing on the plain Signal / Variable qualifier loses the mark
                return isinstance(q, SObj) and q.kind is qcls and res.fields["f_args"] == ["INIT"]
            return isinstance(res, SObj) and res.kind is _CSig and res.fields.get("f_kw", {}).get("noreset") is True

        return C.Pred(holds, "composite: members get the noreset qualifier; primitive: qualified object with noreset=True")

    return spec


con = contract("cohdl.std._core_utility:_Noreset.__call__", PROPS)
for qcls in (CU._NoresetSignal, CU._NoresetVariable):
    for composite in (True, False):
        T = _Composite if composite else cohdl.Bit
        c = Case(f"{qcls.__name__},{'composite' if composite else 'primitive'}", [Built([], (lambda qcls, T: lambda env: SObj(qcls, _T=T))(qcls, T), lambda a: "None", lambda a: None), VAL("INIT", "'INIT'")], noreset_spec(qcls, composite))
        c.native = False
        c.interp_flags = {"class_call_models": {
            _Composite: lambda it, args, kw: SObj(_Composite, f_args=list(args), f_kw=dict(kw)),
            CU._NoresetSignal: lambda it, args, kw: SObj(CU._NoresetSignal, _T=args[0] if args else None),
            CU._NoresetVariable: lambda it, args, kw: SObj(CU._NoresetVariable, _T=args[0] if args else None),
        }}

        con.cases.append(c)


# ---- SequentialContext.__call__ (and std.sequential, which goes through it): what the created process is built from ----------
# The process gets the context's clock, reset, step condition, comment, capture mode -- and its on_reset actions: "registered
# on_reset actions run", so EVERY action registered for the process: the ones REGISTERED on the context (constructor,
# with_params, std.sequential(..., on_reset=)) and the ones given at the call (`@ctx(on_reset=...)`), each once.  (Until
# session 6 this contract said "the one given at the call, otherwise the registered one" -- that was the code's behaviour, not
# the statement's; the library itself uses the call form in std.continuous_counter(start_at_limit=True), which dropped the
# user's action from the counter process.)
def _user_fn():
    pass


def _registered_action():
    pass


def _call_action():
    pass


def _second_registered_action():
    pass


def call_spec(registered, at_call):
    def spec(sx, self, fn=None, **kw):
        it = sx.it

        def holds(res):
            if res != "PROCESS" or len(it.impl_calls) != 1:
                return False
            a, k = it.impl_calls[0]
            want = ([_registered_action, _second_registered_action] if registered == "list" else [_registered_action] if registered else []) + ([_call_action] if at_call else [])
            got = k.get("on_reset")
            got = [] if got is None else list(got) if isinstance(got, (list, tuple)) else [got]
            same = len(got) == len(want) and all(any(g is w for g in got) for w in want)
            return (list(a) == ["CLK", "RESET"] and k.get("step_cond") == "STEP" and k.get("comment") == "COMMENT" and k.get("capture_lazy") == "LAZY"
                    and k.get("wrapped_fn") is _user_fn and same)

        return C.Pred(holds, "process built from the context's clock / reset / step condition and the effective on_reset action")

    return spec


def _seq_impl(it, *a, **k):
    it.impl_calls.append((a, k))
    return _decorate


def _decorate(fn):
    pass


I.register_model(_decorate, lambda it, fn: "PROCESS")

con = contract("cohdl.std._context:SequentialContext.__call__", PROPS)
for registered in (False, True, "list"):
    for at_call in (False, True):
        def mk_ctx(env, registered=registered):
            return SObj(SC.SequentialContext, _clk="CLK", _reset="RESET", _step_cond="STEP", _on_reset=[_registered_action, _second_registered_action] if registered == "list" else _registered_action if registered else None, _comment="COMMENT", _attributes=None, _capture_lazy="LAZY")

        kw = {"on_reset": VAL(_call_action, "action")} if at_call else {}
        c = Case(f"on_reset:{'list-registered' if registered == 'list' else 'registered' if registered else 'none-registered'},{'given-at-call' if at_call else 'not-given-at-call'}", [Built([], mk_ctx, lambda a: "<ctx>", lambda a: None), VAL(_user_fn, "fn")], call_spec(registered, at_call), kwargs=kw)
        c.native = False
        c.models = [(SC.SequentialContext.__dict__["copy"], lambda it, self: self), (SC._sequential_impl, _seq_impl)]
        c.interp_flags = {"class_call_models": {SC._ContextData: lambda it, args, kw: SObj(SC._ContextData, f_args=list(args), f_kw=dict(kw))}}

        def setup_call(it, ctx, args, env):
            it.impl_calls = []

        c.setup = setup_call
        c.custom_replay = "contracts.c04_misc.replay_registered_on_reset" if not (registered and at_call) else "contracts.c04_misc.replay_on_reset_replaced"
        con.cases.append(c)

_ON_RESET_DESIGN = '''
from __future__ import annotations
from cohdl import Entity, Port, Bit, std

class Top(Entity):
    clk = Port.input(Bit)
    rst = Port.input(Bit)
    a = Port.input(Bit)
    o = Port.output(Bit, default=False)
    flag = Port.output(Bit, default=False)

    def architecture(self):
        def action():
            self.flag <<= True

        @std.sequential(std.Clock(self.clk), std.Reset(self.rst), on_reset=action)
        def proc():
            self.o <<= self.a

t = std.VhdlCompiler.to_string(Top)
print("ACTION_IN_RESET_BRANCH" if "buffer_flag <= '1'" in t else "ACTION_DROPPED")
'''


def replay_registered_on_reset(payload):
    from contracts.c06_extra import _run_design

    rc, out = _run_design(_ON_RESET_DESIGN)
    return {"reproduced": rc == 0 and "ACTION_DROPPED" in out, "detail": out[-200:]}


# ---- SequentialContext.with_params: every parameter is the given one, otherwise the one of the context -------------------------
# (clock, reset, step condition and the registered on_reset action are independent of each other; the attributes are kept)
import itertools as _it  # noqa: E402


def with_params_spec(given):
    def spec(sx, self, **kw):
        def holds(res):
            if not (isinstance(res, SObj) and res.kind is SC.SequentialContext):
                return False
            got = res.fields["f_kw"]
            want = {k: (f"NEW_{k}" if k in given else f"OLD_{k}") for k in ("clk", "reset", "step_cond", "on_reset")}
            return all(got.get(k) == v for k, v in want.items()) and got.get("attributes") == {"a": 1} and not res.fields["f_args"]

        return C.Pred(holds, "each of clk / reset / step_cond / on_reset: the given value, else the context's own; attributes kept")

    return spec


con = contract("cohdl.std._context:SequentialContext.with_params", PROPS)
for r in range(0, 5):
    for given in _it.combinations(("clk", "reset", "step_cond", "on_reset"), r):
        c = Case("given:" + (",".join(given) or "nothing"), [Built([], lambda env: SObj(SC.SequentialContext, _clk="OLD_clk", _reset="OLD_reset", _step_cond="OLD_step_cond", _on_reset="OLD_on_reset", _attributes={"a": 1}, _comment=None, _capture_lazy=False),
                                                                    lambda a: "<ctx>", lambda a: None)], with_params_spec(given), kwargs={k: VAL(f"NEW_{k}", f"'NEW_{k}'") for k in given})
        c.native = False
        c.interp_flags = {"class_call_models": {SC.SequentialContext: lambda it, args, kw: SObj(SC.SequentialContext, f_args=list(args), f_kw=dict(kw))}}
        con.cases.append(c)


# ---- std.Reset: the object itself (truth value, active-high / active-low view) ----------------------------------------------
# For the wrapped signal s and the declared polarity: the reset is ACTIVE iff (s == '0' if active_low else s == '1'); `bool(reset)`
# is that, active_high_signal() is a signal that is '1' exactly while the reset is active, active_low_signal() one that is '0'
# exactly while it is active -- inside a synthesizable context (expression) and outside of one (a new signal driven concurrently).
class _RSig:
    """Bit signal with symbolic level f_b (True = '1')"""


_RSig.__bool__ = lambda self: True
_RSig.__invert__ = lambda self: None
I.register_model(_RSig.__bool__, lambda it, self: self.fields["f_b"])
I.register_model(_RSig.__invert__, lambda it, self: SObj(_RSig, f_b=sym.Not(self.fields["f_b"])))


def reset_obj_spec(method, active_low):
    def spec(sx, self):
        it = sx.it
        level = it.reset_level  # True = the wrapped signal is '1'
        active = sym.Not(level) if active_low else level

        def holds(res):
            if method == "__bool__":
                return sym.eq(active, res) if isinstance(res, bool) or sym.is_sym(res) else False  # decided under the path condition
            want = active if method == "active_high_signal" else sym.Not(active)
            if isinstance(res, SObj) and res.kind is _RSig:
                got = res.fields["f_b"]
            elif isinstance(res, SObj) and res.kind is _CSig and isinstance(res.fields.get("next"), SObj):
                got = res.fields["next"].fields["f_b"]  # a new signal, driven by a concurrent assignment
            else:
                return False
            return sym.eq(got, want)

        return C.Pred(holds, f"{method}: level of the result as a function of 'reset is active'")

    return spec


for method in ("__bool__", "active_high_signal", "active_low_signal"):
    con = contract(f"cohdl.std._context:Reset.{method}", PROPS)
    for active_low in (False, True):
        for in_context in ((True,) if method == "__bool__" else (True, False)):
            def mk(env, active_low=active_low):
                return SObj(SC.Reset, _signal=SObj(_RSig, f_b=None), _active_low=active_low, _is_async=False)

            c = Case(f"active_low={active_low},{'synthesizable-context' if in_context else 'outside'}", [Built([], mk, lambda a: "<reset>", lambda a: None)], reset_obj_spec(method, active_low))
            c.native = False
            c.models = [(SC.concurrent, _concurrent), (SC.evaluated, (lambda v: lambda it: v)(in_context))]

            def setup(it, ctx, args, env):
                it.reset_level = ctx.fresh_bool("reset_signal_is_1")
                args[0].fields["_signal"].fields["f_b"] = it.reset_level

            c.setup = setup
            con.cases.append(c)


_ON_RESET_BOTH_DESIGN = '''
from __future__ import annotations
from cohdl import Entity, Port, Bit, std

class Top(Entity):
    clk = Port.input(Bit)
    rst = Port.input(Bit)
    a = Port.input(Bit)
    o = Port.output(Bit, default=False)
    seen_a = Port.output(Bit, default=False)
    seen_b = Port.output(Bit, default=False)

    def architecture(self):
        def action_a():
            self.seen_a <<= True

        def action_b():
            self.seen_b <<= True

        ctx = std.SequentialContext(std.Clock(self.clk), std.Reset(self.rst), on_reset=action_a)

        @ctx(on_reset=action_b)
        def proc():
            self.o <<= self.a

t = std.VhdlCompiler.to_string(Top)
print("A_RUNS" if "buffer_seen_a <= '1'" in t else "A_DROPPED", "B_RUNS" if "buffer_seen_b <= '1'" in t else "B_DROPPED")
'''


def replay_on_reset_replaced(payload):
    """an action registered on the context AND one given at the decorator call: both run in the reset branch"""
    from contracts.c06_extra import _run_design

    rc, out = _run_design(_ON_RESET_BOTH_DESIGN)
    return {"reproduced": rc == 0 and "DROPPED" in out, "detail": out[-200:]}
