"""C04 / C03: the process bodies std._context._sequential_impl builds around a
user function (nested functions helper.wrapper, three variants), proved from
the real source for arbitrary truth values of trigger, reset and step condition.

Trace contract (the sequence of intrinsic actions one activation performs):
  asynchronous reset:  sensitivity (trigger signal, reset signal);
       reset                    -> reset_context, then every on_reset action in order; nothing else
       not reset, trigger, step -> reset_pushed, then the user step
       otherwise                -> nothing
  synchronous reset:   sensitivity (trigger signal);
       trigger and reset            -> reset_context, then the on_reset actions; nothing else (whatever step_cond says)
       trigger, not reset, step     -> reset_pushed, then the user step
       otherwise                    -> nothing
  no reset:            sensitivity (trigger signal);  trigger and step -> reset_pushed, user step;  else nothing
The user step is coroutine_step(coro) for a coroutine and fn() otherwise.
"""

from __future__ import annotations

import cohdl
from cohdl._core import _intrinsic as INTR
from cohdl.std import _context as SC

from pyvc import contracts as C
from pyvc import interp as I
from pyvc import sym
from pyvc.contracts import Case, contract, PyBool
from pyvc.values import SObj, Opaque
from contracts.c05_format_cast import Built

PROPS = ("C04", "C03")


class _Cond:
    """trigger / reset object: truth value f_b, signal() -> marker"""


_Cond.__bool__ = lambda self: True
_Cond.signal = lambda self: None
I.register_model(_Cond.__bool__, lambda it, self: self.fields["f_b"])
I.register_model(_Cond.signal, lambda it, self: self.fields["f_sig"])


def _step_cond():
    pass


def _user_fn():
    pass


def _on_reset_0():
    pass


def _on_reset_1():
    pass


def rec(tag):
    def model(it, *args):
        it.trace.append((tag,) + tuple(args))
        return None

    return model


def _sens_list(it, *args):
    it.trace.append(("sensitivity",) + tuple(args))


MODELS = [
    (_step_cond, lambda it: it.b_step),
    (_user_fn, rec("fn")),
    (_on_reset_0, rec("on_reset_0")),
    (_on_reset_1, rec("on_reset_1")),
    (INTR.reset_context, rec("reset_context")),
    (INTR.reset_pushed, rec("reset_pushed")),
    (INTR.coroutine_step, rec("coroutine_step")),
    (INTR.sensitivity.__dict__["list"].__func__ if isinstance(INTR.sensitivity.__dict__["list"], staticmethod) else INTR.sensitivity.__dict__["list"], _sens_list),
]


def trace_spec(variant, is_coro):
    def spec(sx):
        it = sx.it
        step = [("reset_pushed",), ("coroutine_step", "CORO") if is_coro else ("fn",)]
        resets = [("reset_context",), ("on_reset_0",), ("on_reset_1",)]
        t, r, s = it.b_trigger, it.b_reset, it.b_step
        if variant == "async":
            sens = ("sensitivity", "TRIG_SIG", "RESET_SIG")
            if sx.branch(r):
                want = resets
            elif sx.branch(sym.And(t, s)):
                want = step
            else:
                want = []
        elif variant == "sync":
            sens = ("sensitivity", "TRIG_SIG")
            if sx.branch(sym.And(t, r)):
                want = resets
            elif sx.branch(sym.And(t, sym.Not(r), s)):
                want = step
            else:
                want = []
        else:
            sens = ("sensitivity", "TRIG_SIG")
            want = step if sx.branch(sym.And(t, s)) else []
        want = [sens] + want
        return C.Pred(lambda res: res is None and it.trace == want, f"trace == {want}")

    return spec


for idx, variant in ((0, "none"), (1, "async"), (2, "sync")):
    con = contract(f"cohdl.std._context:_sequential_impl.<helper.wrapper#{idx} ({variant} reset)>", PROPS)
    con.custom_fn = SC._sequential_impl
    con.nested = ["helper", ("wrapper", idx)]
    for is_coro in (False, True):
        c = Case(f"{variant}-reset,{'coroutine' if is_coro else 'function'}", [], trace_spec(variant, is_coro))
        c.native = False
        c.models = MODELS
        c.shape_names = ["t", "r", "s"]

        def nested_env(it, is_coro=is_coro):
            bt, br, bs = (it.ctx.fresh_bool(n) for n in ("trigger", "reset", "step"))
            it.b_trigger, it.b_reset, it.b_step = bt, br, bs
            it.trace = []
            return {
                "trigger": SObj(_Cond, f_b=bt, f_sig="TRIG_SIG"),
                "reset": SObj(_Cond, f_b=br, f_sig="RESET_SIG"),
                "step_cond": _step_cond,
                "on_reset": [_on_reset_0, _on_reset_1],
                "is_coro": is_coro,
                "coro": "CORO" if is_coro else None,
                "fn": _user_fn,
                "cohdl": cohdl,
            }

        c.nested_env = nested_env
        c.variant_index = idx
        con.cases.append(c)


# ---- _sequential_impl itself: a process WITHOUT a clock has no reset branch ------------------------------------------------
# `std.sequential(fn)` / `std.sequential()(fn)` without a Clock builds `process(all)` around fn: there is no reset test in it.  A reset
# or an on_reset action given to such a context would be accepted and silently never run (C04: "whenever the reset ... is active
# ... registered on_reset actions run") -- it has to be rejected, also when the arguments arrive through the decorator form.
import inspect as _inspect  # noqa: E402

from cohdl.utility.source_location import SourceLocation as _SL  # noqa: E402


def _plain_process():
    pass


def _impl_spec(how, reset, on_reset):
    def spec(sx, *args, **kwargs):
        it = sx.it
        must_reject = reset or on_reset
        if how == "direct":
            if must_reject:
                sx.reject(AssertionError)
            return C.Pred(lambda res: res is _plain_process and [t[0] for t in it.trace] == ["sequential_context"], "one clockless process is created")

        def holds(res):
            # decorator form: the returned wrapper receives the function
            from pyvc.values import PyExc

            try:
                it.call(res, [_plain_process], {})
            except PyExc as e:
                return must_reject and e.cls is AssertionError
            return (not must_reject) and [t[0] for t in it.trace] == ["sequential_context"]

        return C.Pred(holds, "decorator form: same verdict as the direct call (reset / on_reset are forwarded)")

    return spec


con = contract("cohdl.std._context:_sequential_impl", PROPS)
for how in ("direct", "decorator"):
    for reset in (False, True):
        for on_reset in (False, True):
            shapes = [Built([], (lambda h: lambda env: _plain_process if h == "direct" else None)(how), lambda a: "<trigger>", lambda a: None)]
            kw = {"wrapped_fn": Built([], lambda env: None, lambda a: "None", lambda a: None)}
            if reset:
                kw["reset"] = Built([], lambda env: SObj(_Cond, f_b=True, f_sig="RESET_SIG"), lambda a: "<reset>", lambda a: None)
            if on_reset:
                kw["on_reset"] = Built([], lambda env: _on_reset_0, lambda a: "<on_reset>", lambda a: None)
            c = Case(f"clockless:{how}{',reset' if reset else ''}{',on_reset' if on_reset else ''}", shapes, _impl_spec(how, reset, on_reset), kwargs=kw)
            c.native = False
            if reset or on_reset:
                c.may_reject = AssertionError if how == "direct" else None
            c.models = MODELS + [
                (SC._Prefix.__dict__["_parent_prefix"].__func__ if isinstance(SC._Prefix.__dict__["_parent_prefix"], (staticmethod, classmethod)) else SC._Prefix.__dict__["_parent_prefix"], lambda it, *a: None),
                (SC._prefix_wrapper, lambda it, prefix, fn: fn),
                (_SL.__dict__["from_function"].__func__ if isinstance(_SL.__dict__["from_function"], (staticmethod, classmethod)) else _SL.__dict__["from_function"], lambda it, *a: "LOCATION"),
                (INTR.sequential_context if hasattr(INTR, "sequential_context") else cohdl.sequential_context, lambda it, *a, **k: it.trace.append(("sequential_context", a, sorted(k)))),
                (_inspect.iscoroutinefunction, lambda it, f: False),
                (_inspect.isfunction, lambda it, f: f is _plain_process),
            ]
            c.interp_flags = {"class_call_models": {SC._NopContextManager: lambda it, args, kw: SObj(SC._NopContextManager)}}

            def _setup(it, ctx, args, env):
                it.trace = []

            c.setup = _setup
            c.custom_replay = "contracts.c04_wrappers.replay_clockless_reset"
            con.cases.append(c)

_CLOCKLESS_DESIGN = '''
from cohdl import std, Entity, Port, Bit
class Clockless(Entity):
    rst = Port.input(Bit)
    inp = Port.input(Bit)
    q = Port.output(Bit, default=False)
    flag = Port.output(Bit, default=False)
    def architecture(self):
        def on_reset():
            self.flag <<= True
        @std.sequential(reset=std.Reset(self.rst), on_reset=on_reset)
        def proc():
            self.q <<= self.inp
try:
    t = std.VhdlCompiler.to_string(Clockless)
    p = t[t.index("proc: process"):]
    print("ACCEPTED reset-used", "rst" in p, "on_reset-used", "flag" in p)
except AssertionError as e:
    print("REJECTED")
'''


def replay_clockless_reset(payload):
    from contracts.c06_extra import _run_design

    rc, out = _run_design(_CLOCKLESS_DESIGN)
    return {"reproduced": "ACCEPTED" in out and "False" in out, "detail": "std.sequential(reset=..., on_reset=...) without a clock: " + out[-120:]}
