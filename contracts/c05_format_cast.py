"""C05 / C06 / C02: the backend half of every conversion -- VhdlScope.format_cast
and format_vhdl_cast.  Typing/value lemma (DESIGN.md section 6, C05):

  for every (target, value) pair the front end accepts, the text returned by
  format_cast, read with numeric_std / std_logic_1164 semantics
  (specs/vhdl_expr.py) under the assumption that `value_str` has the VHDL type
  of the value's CoHDL type,
     * is well typed,
     * has the VHDL type of the *declared object* the target refers to
       (root kind for views and slices, width of the target), and
     * carries the bits prescribed by the conversion matrix of C05.
  A backend AssertionError is a compile-time rejection (allowed), anything
  else must satisfy the lemma.
"""

from __future__ import annotations

import cohdl
from cohdl import Unsigned, Signed, BitVector, Integer, Bit, Null, Full, Signal
from cohdl._core._bit import BitState
from cohdl._core._boolean import _Boolean
from cohdl._core._type_qualifier import Slice, Offset, TypeQualifier
from cohdl._compiler.backend.vhdl._vhdl_repr import VhdlScope

from pyvc import contracts as C
from pyvc import interp as I
from pyvc import sym
from pyvc.contracts import Case, contract
from pyvc.values import Opaque, SCls, SFmt, SObj, TextOf
from contracts import core_models as M
from contracts.core_models import U, S, vec, width, bits, is_kind, INT
from contracts.c05_convert import convert
from specs import vhdl_expr as VX

PROPS = ("C05", "C06", "C02", "C09")
P2 = sym.pow2

C.inline("cohdl._core._type_qualifier:TypeQualifierBase.decay")

KNAME = {Unsigned: "Unsigned", Signed: "Signed", BitVector: "BitVector"}
VKIND = {Unsigned: "unsigned", Signed: "signed", BitVector: "slv"}
VIEWPROP = {Unsigned: "unsigned", Signed: "signed", BitVector: "bitvector"}


class Built(C.Shape):
    def __init__(self, names, make, src, spec, assume=None, sample=None):
        self.names = names
        self._make, self._src, self._spec, self._assume, self._sample = make, src, spec, assume, sample

    def make(self, ctx, env):
        return self._make(env)

    def assume(self, env):
        return self._assume(env) if self._assume else True

    def concrete_src(self, asg):
        return self._src(asg)

    def concrete_spec(self, asg):
        return self._spec(asg)

    def sample(self, rng, asg):
        if self._sample:
            self._sample(rng, asg)


def tq(prim, root=None, ref_spec=()):
    """symbolic type-qualified object around the primitive view `prim`"""
    o = SObj(Signal, _value=prim, _ref_spec=list(ref_spec), _attributes=[])
    o.fields["_root"] = root if root is not None else o
    return o


SCOPE = Built([], lambda env: SObj(VhdlScope), lambda asg: "VhdlScope()", lambda asg: SObj(VhdlScope))
OPND = Built([], lambda env: Opaque("OPND"), lambda asg: "'OPND'", lambda asg: "OPND")


def target_shape(root_kind, view_kind, ref):
    """ref: 'whole' (target is the object or a typed view of it) or 'slice'"""

    def make(env):
        rw, tw = env["rw"], env["tw"]
        root = tq(vec(root_kind, rw, env["rbits"]))
        if ref == "whole":
            if view_kind is root_kind:
                return root
            return tq(vec(view_kind, tw, env["rbits"]), root)
        return tq(vec(view_kind, tw, 0), root, [Slice(0, 0, None)])

    def assume(env):
        rw, tw = env["rw"], env["tw"]
        c = [rw >= 1, env["rbits"] >= 0, env["rbits"] < P2(rw)]
        if ref == "whole":
            c.append(tw == rw)
        else:
            c += [tw >= 1, env["lo"] >= 0, env["lo"] + tw <= rw]
        return sym.And(*c)

    def src(asg):
        rw, tw, lo = asg["rw"], asg["tw"], asg.get("lo", 0)
        s = f"cohdl.Signal[cohdl.{KNAME[root_kind]}[{rw}]]()"
        if ref == "whole":
            if view_kind is not root_kind:
                s += "." + VIEWPROP[view_kind]
            return s
        s += f"[{lo + tw - 1}:{lo}]"
        if view_kind is not BitVector:
            s += "." + VIEWPROP[view_kind]
        return s

    def spec(asg):
        return ("target", root_kind, view_kind, ref, asg["rw"], asg["tw"])

    def sample(rng, asg):
        rw = rng.randint(1, 9)
        asg["rw"] = rw
        asg["rbits"] = 0
        if ref == "whole":
            asg["tw"] = rw
            asg["lo"] = 0
        else:
            tw = rng.randint(1, rw)
            asg["tw"] = tw
            asg["lo"] = rng.randint(0, rw - tw)

    names = ["rw", "tw", "rbits"] + (["lo"] if ref == "slice" else [])
    return Built(names, make, src, spec, assume, sample)


def value_shape(kind, form):
    """form: 'tq' (run-time object) or 'lit' (compile-time constant)"""

    def make(env):
        p = vec(kind, env["vw"], env["vbits"])
        return tq(p) if form == "tq" else p

    def assume(env):
        return sym.And(env["vw"] >= 1, env["vbits"] >= 0, env["vbits"] < P2(env["vw"]))

    def src(asg):
        vw, vb = asg["vw"], asg["vbits"]
        lit = f'cohdl.{KNAME[kind]}[{vw}]("{vb:0{vw}b}")'
        return f"cohdl.Signal[cohdl.{KNAME[kind]}[{vw}]]({lit})" if form == "tq" else lit

    def spec(asg):
        return vec(kind, asg["vw"], asg["vbits"])

    def sample(rng, asg):
        vw = rng.randint(1, 9)
        asg["vw"] = vw
        asg["vbits"] = rng.randrange(2**vw)

    return Built(["vw", "vbits"], make, src, spec, assume, sample)


def integer_shape(form):
    def make(env):
        p = INT(env["k"])
        return tq(p) if form == "tq" else p

    return Built(
        ["k"],
        make,
        lambda asg: f"cohdl.Signal[cohdl.Integer]({asg['k']})" if form == "tq" else f"cohdl.Integer({asg['k']})",
        lambda asg: INT(asg["k"]),
        None,
        lambda rng, asg: asg.__setitem__("k", rng.randint(-40, 600)),
    )


NULLV = Built([], lambda env: Null, lambda asg: "cohdl.Null", lambda asg: Null)
FULLV = Built([], lambda env: Full, lambda asg: "cohdl.Full", lambda asg: Full)


def operand_vval(value):
    """VHDL value of `value_str` (assumption of the lemma: the operand text has
    the VHDL type of the value's CoHDL type)"""
    if is_kind(value, BitVector):
        k = Unsigned if is_kind(value, Unsigned) else Signed if is_kind(value, Signed) else BitVector
        return VX.VVal(VKIND[k], width(value), bits(value))
    if is_kind(value, Integer):
        return VX.VVal("integer", val=value.fields["_val"])
    if is_kind(value, Bit):
        st = value.fields["_val"]
        return VX.VVal("std_logic", 1, 1 if st is BitState.HIGH else 0)
    if is_kind(value, _Boolean):
        return VX.VVal("boolean", val=value.fields["_value"])
    return None


def literal_vval(obj):
    v = operand_vval(obj)
    if v is None:
        raise VX.TypeError_("literal")
    return v


# Tried and withdrawn: demanding that the backend rejects every pair the conversion matrix rejects fails on the
# unchanged tree for 40 cases (out-of-range integers, equal-width Signed/Unsigned ...): the backend relies on the front
# end for those.  The front end's guard for INITIALISATIONS was missing (fixed, see TypeQualifier._init_replacement in
# contracts/c05_setters.py); with every entry point guarded, the backend's behaviour on rejected pairs is unspecified.
STRICT_REJECT = False


def cast_spec(root_kind, view_kind, ref):
    def spec(sx, scope, target, value, value_str):
        # what the front end does with this pair (C05 matrix); rejected pairs never reach the backend
        tw = target[5] if isinstance(target, tuple) else width(target.fields["_value"])
        prim = value.fields["_value"] if isinstance(value, SObj) and value.kind is Signal else value
        try:
            expected = convert(sx, view_kind, tw, prim)
        except C.SpecRaise:
            if STRICT_REJECT:
                # declarations with an initial value reach the backend without passing a setter: for pairs the
                # conversion matrix rejects the backend is the only guard and must reject as well
                sx.reject(AssertionError)
            raise C.SpecUnspecified()
        operand = operand_vval(prim)
        want_kind = VKIND[root_kind]

        def holds(text):
            try:
                v = VX.evaluate(text, operand, sx, literal_vval)
            except VX.TypeError_:
                return False
            if v.kind != want_kind:
                return False
            return sym.And(sym.eq(v.width, tw), sym.eq(v.bits, bits(expected)))

        return C.Pred(holds, f"text : {want_kind}[tw] with the converted bits", native=holds)

    return spec


def spec_format_literal(sx, scope, obj):
    return SFmt([TextOf(obj)])


C.use_as_model("cohdl._compiler.backend.vhdl._vhdl_repr:VhdlScope.format_literal", spec_format_literal)

# ---- format_vhdl_cast: reading a whole object through a typed view (.unsigned / .signed / .bitvector) -------------------------
# The operand text names the root object, so it has the root's DECLARED VHDL type; the produced text must have the VHDL
# type of the VIEW with the same bits (numeric_std type conversions between closely related array types keep the bits).
def vhdl_cast_shape(root_kind, view_kind):
    def make(env):
        root = tq(vec(root_kind, env["cw"], env["cbits"]))
        root.fields["type"] = root.fields["_value"].cls
        if view_kind is root_kind:
            return root
        v = tq(vec(view_kind, env["cw"], env["cbits"]), root)
        v.fields["type"] = v.fields["_value"].cls
        return v

    return Built(["cw", "cbits"], make, lambda asg: "None", lambda asg: None, lambda env: sym.And(env["cw"] >= 1, env["cbits"] >= 0, env["cbits"] < P2(env["cw"])))


def vhdl_cast_spec(root_kind, view_kind):
    def spec(sx, scope, value, value_str):
        prim = value.fields["_value"]
        operand = VX.VVal(VKIND[root_kind], width(prim), bits(prim))  # the text of the root object

        def holds(text):
            try:
                v = VX.evaluate(text if isinstance(text, SFmt) else SFmt([text]), operand, sx, literal_vval)
            except VX.TypeError_:
                return False
            if v.kind != VKIND[view_kind]:
                return False
            return sym.And(sym.eq(v.width, width(prim)), sym.eq(v.bits, bits(prim)))

        return C.Pred(holds, f"text : {VKIND[view_kind]} with the bits of the object")

    return spec


con = contract("cohdl._compiler.backend.vhdl._vhdl_repr:VhdlScope.format_vhdl_cast", PROPS + ("C06", "C02"))
for root_kind in (Unsigned, Signed, BitVector):
    for view_kind in (Unsigned, Signed, BitVector):
        c = Case(f"{KNAME[view_kind]}-view-of-{KNAME[root_kind]}", [SCOPE, vhdl_cast_shape(root_kind, view_kind), OPND], vhdl_cast_spec(root_kind, view_kind))
        c.native = False
        con.cases.append(c)

con = contract("cohdl._compiler.backend.vhdl._vhdl_repr:VhdlScope.format_cast", PROPS)
ALLOW_REJECT = True

for root_kind in (Unsigned, Signed, BitVector):
    for view_kind in (Unsigned, Signed, BitVector):
        for ref in ("whole", "slice"):
            tname = f"{KNAME[root_kind]}.{VIEWPROP[view_kind]}.{ref}"
            spec = cast_spec(root_kind, view_kind, ref)
            T = target_shape(root_kind, view_kind, ref)
            for vk in (Unsigned, Signed, BitVector):
                if view_kind is Unsigned and vk is Signed:
                    continue  # rejected by the front end for every width: never reaches the backend
                for form in ("tq", "lit"):
                    c = Case(f"{tname}<-{KNAME[vk]}.{form}", [SCOPE, T, value_shape(vk, form), OPND], spec)
                    c.may_reject = AssertionError
                    con.cases.append(c)
            for nm, shp in (("Integer.tq", integer_shape("tq")), ("Integer.lit", integer_shape("lit")), ("null", NULLV), ("full", FULLV)):
                if view_kind is BitVector and nm.startswith("Integer"):
                    continue  # integers cannot be assigned to a plain BitVector (front end)
                c = Case(f"{tname}<-{nm}", [SCOPE, T, shp, OPND], spec)
                c.may_reject = AssertionError
                con.cases.append(c)

M.NS["VhdlScope"] = VhdlScope


# C13 ("views of an object (.unsigned / .signed / .bitvector ...) alias the same storage"): the emitted text of a cast view must have
# the VHDL kind of the view's Python class
contract("cohdl._compiler.backend.vhdl._vhdl_repr:VhdlScope.format_vhdl_cast", ("C13",))
