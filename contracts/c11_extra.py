"""C11 bounded stand-in and mechanical inventory.

history_sweep: every valid design of the pool (contracts/c11_designs.py) is
compiled in fresh interpreters after every history of up to two other designs
(accepted and rejected ones, repetitions included) and under several
PYTHONHASHSEED values; the output must be byte-identical (sha256) to the
output of the design compiled alone under PYTHONHASHSEED=0.

state_inventory: every module-level / class-level binding of cohdl/** that is
written from inside a function (global statement, Cls.attr = ..., in-place
mutation of a module-level container) must be classified in CLASSIFIED below;
an unclassified write site makes the check UNDECIDED (a new piece of global
state needs a decision, not silence).
"""

from __future__ import annotations

import ast
import itertools
import json
import os
import subprocess
import sys

from pyvc import REPO

HERE = os.path.dirname(os.path.abspath(__file__))
DESIGNS = os.path.join(HERE, "c11_designs.py")


def _run(history, targets, seed):
    env = dict(os.environ)
    env["PYTHONPATH"] = REPO
    env["PYTHONHASHSEED"] = str(seed)
    return subprocess.Popen(["/venv/bin/python", DESIGNS, ",".join(history), ",".join(targets)], env=env, stdout=subprocess.PIPE, stderr=subprocess.PIPE, text=True)


def _collect(procs):
    out = []
    for key, p in procs:
        o, e = p.communicate(timeout=600)
        try:
            out.append((key, json.loads(o.strip().split("\n")[-1])))
        except Exception:
            out.append((key, {"error": (e or o)[-300:]}))
    return out


def history_sweep(tier="quick", seed=0):
    sys.path.insert(0, HERE)
    import importlib

    D = importlib.import_module("contracts.c11_designs")
    valid, rejected = list(D.VALID), list(D.REJECTED)
    pool = valid + rejected
    # reference: each design alone, fresh interpreter, hash seed 0
    ref = {}
    procs = [((v,), _run([], [v], 0)) for v in valid]
    for (v,), r in _collect(procs):
        ref[v] = r.get("targets", {}).get(v, "ERROR " + str(r.get("error")))
    problems = [f"reference compile of {v} failed: {h}" for v, h in ref.items() if not h or h.startswith(("REJECTED", "ERROR"))]
    if problems:
        return {"problems": problems}
    histories = [[h] for h in pool] + [[a, b] for a in pool for b in pool]
    if tier == "quick":
        # all single histories, all pairs that contain a rejected design or a repetition
        histories = [h for h in histories if len(h) == 1 or any(x in rejected for x in h) or h[0] == h[1]]
    seeds = [0, 1, 2] if tier == "quick" else list(range(0, 12))
    jobs = []
    for i, h in enumerate(histories):
        rot = valid[i % len(valid):] + valid[: i % len(valid)]
        jobs.append((("history", tuple(h), 0), h, rot, 0))
    for s in seeds[1:]:
        jobs.append((("seed", (), s), [], valid, s))
    evaluations = 0
    violations = []
    samples = []
    batch = []
    results = []
    for key, h, targets, s in jobs:
        batch.append((key, _run(h, targets, s)))
        if len(batch) >= 16:
            results += _collect(batch)
            batch = []
    results += _collect(batch)
    distinct = set()
    seen_keys = set()
    for key, r in results:
        if "error" in r:
            return {"problems": [f"sweep job {key} crashed: {r['error']}"]}
        for t, hsh in r["targets"].items():
            evaluations += 1
            distinct.add((key[1], key[2], t))
            # the targets of one job are compiled one after the other in the same interpreter: earlier targets are history too
            before = list(key[1]) + list(r["targets"])[: list(r["targets"]).index(t)]
            if t == "v_base_port" and "v_derived_inst" in before:
                vkey = "after-a-derived-entity-connected-an-inherited-port-to-an-instance"
            elif "r_prefix" in key[1] and t == "v_prefix":
                vkey = "after-rejected-design-inside-std.prefix"  # repaired by b787d24 (no longer a known finding: reported if it returns)
            else:
                vkey = f"{t}|{','.join(key[1])}|seed{key[2]}"
            if hsh != ref[t] and vkey not in seen_keys and len(violations) < 6:
                seen_keys.add(vkey)
                what = f"{t} after history {list(key[1])} under PYTHONHASHSEED={key[2]}: {hsh} instead of {ref[t]}"
                violations.append({
                    "kind": "custom", "qual": "<C11 history sweep>", "case": f"{t}|{','.join(key[1])}|seed{key[2]}", "oid": "C11/history-sweep#bounded", "check": "history_sweep",
                    "key": vkey, "assignment": {"target": t, "history": list(key[1]), "hashseed": key[2]}, "solver": {"got": hsh, "reference": ref[t]}, "reproduced": True,
                    "replay_payload": {"property": "C11", "custom": "contracts.c11_extra.replay_history", "target": t, "history": list(key[1]), "hashseed": key[2], "reference": ref[t],
                                       "obligation": "C11/history-sweep#bounded", "verifier_output": what},
                })
        if len(samples) < 3:
            samples.append({"history": list(key[1]), "hashseed": key[2], "outputs": r["targets"]})
    return {
        "evaluations": evaluations,
        "distinct": len(distinct),
        "violations": violations,
        "samples": samples,
        "bounded": [{"function": "whole compiler (std.VhdlCompiler.to_string)", "case": "compile histories / hash seeds", "evaluations": evaluations, "exhaustive_within_bound": tier != "quick",
                     "bound": f"pool of {len(valid)} valid + {len(rejected)} rejected designs; histories of length <= 2 ({len(histories)} histories); PYTHONHASHSEED in {seeds}"}],
    }


def replay_history(payload):
    p = _run(payload["history"], [payload["target"]], payload["hashseed"])
    (_, r), = _collect([("x", p)])
    got = r.get("targets", {}).get(payload["target"])
    return {"reproduced": got != payload["reference"], "detail": {"got": got, "reference": payload["reference"], "history_outcomes": r.get("history")}}


# ---- inventory of global state written from functions ---------------------------------------------------
# classification: scratch = set and restored around a compilation step (needs an exception-safe frame);
# cache = insert-only, keyed by what determines the value; registry = filled at import / class creation;
# per-entity = reset when a new entity is compiled; counter = only used for assertions
CLASSIFIED = {
    "cohdl/_core/_ir/_repr.py:StatemachineContext._singleton": "scratch",
    "cohdl/_core/_ir/_repr.py:Statement._current_frame": "scratch",
    "cohdl/_core/_context.py:_block_stack": "scratch",
    "cohdl/_core/_context.py:_entity_instantiation_handler": "scratch",
    "cohdl/_core/_context.py:_on_register_inline_entity_handler": "scratch",
    "cohdl/_compiler/frontend/_prepare_ast.py:_active_converter_instance": "scratch",
    "cohdl/_compiler/frontend/_prepare_ast.py:_inline_declared_entities": "scratch",
    "cohdl/_compiler/frontend/_prepare_ast.py:_parent_frame": "scratch",
    "cohdl/_compiler/frontend/_prepare_ast.py:_block_stack": "scratch",
    "cohdl/_compiler/frontend/_prepare_ast_out.py:_return_stack": "scratch",
    "cohdl/std/_context.py:_current_context": "scratch",
    "cohdl/std/_context.py:_current_context_data": "scratch",
    "cohdl/std/_prefix.py:_Prefix._prefix_scope": "scratch",
    # save/restore without finally, but dead on entry: every read (Return / Break / Continue handlers)
    # is dominated by the write of the enclosing Call / While handler of the same compilation
    "cohdl/_compiler/frontend/_generate_ir.py:IrGenerator.returned_blocks": "scratch, dead on entry",
    "cohdl/_compiler/frontend/_generate_ir.py:IrGenerator._break_result": "scratch, dead on entry",
    "cohdl/_compiler/frontend/_generate_ir.py:IrGenerator._continue_result": "scratch, dead on entry",
    "cohdl/_compiler/frontend/_traceback.py:_pretty_traceback": "user configuration switch (error message format only)",
    "cohdl/std/bitfield.py:_bitfield_classes": "cache (insert-only, keyed by the parameters)",
    "cohdl/std/_prefix.py:_Prefix._existing_prefix": "per-entity",
    "cohdl/std/_prefix.py:_Prefix._current_entity": "per-entity",
}


def _module_level_names(tree):
    names = set()
    for n in tree.body:
        if isinstance(n, (ast.Assign, ast.AnnAssign)):
            tg = n.targets if isinstance(n, ast.Assign) else [n.target]
            for t in tg:
                if isinstance(t, ast.Name):
                    names.add(t.id)
    return names


MUTATORS = {"append", "extend", "insert", "pop", "remove", "clear", "add", "discard", "update", "setdefault", "popitem", "sort", "reverse", "difference_update", "intersection_update"}


def write_sites():
    """(file, qualified state name, function, line) for every write of module/class-level state inside a function"""
    sites = []
    root = os.path.join(REPO, "cohdl")
    for d, _, files in os.walk(root):
        for fn in files:
            if not fn.endswith(".py"):
                continue
            path = os.path.join(d, fn)
            rel = os.path.relpath(path, REPO)
            with open(path) as f:
                try:
                    tree = ast.parse(f.read())
                except SyntaxError:
                    continue
            mod_names = _module_level_names(tree)
            classes = {n.name for n in ast.walk(tree) if isinstance(n, ast.ClassDef)}
            imported = set()
            for n in tree.body:
                if isinstance(n, ast.ImportFrom):
                    for a in n.names:
                        imported.add(a.asname or a.name)

            def visit_func(fnode, qual):
                globs = set()
                for n in ast.walk(fnode):
                    if isinstance(n, ast.Global):
                        globs.update(n.names)
                local_assigned = set()
                for n in ast.walk(fnode):
                    if isinstance(n, ast.Name) and isinstance(n.ctx, ast.Store) and n.id not in globs:
                        local_assigned.add(n.id)
                params = {a.arg for a in fnode.args.args + fnode.args.kwonlyargs + fnode.args.posonlyargs}
                for n in ast.walk(fnode):
                    if isinstance(n, (ast.Assign, ast.AugAssign, ast.AnnAssign)):
                        tg = n.targets if isinstance(n, ast.Assign) else [n.target]
                        for t in tg:
                            if isinstance(t, ast.Name) and t.id in globs:
                                sites.append((rel, t.id, qual, n.lineno))
                            if isinstance(t, ast.Attribute) and isinstance(t.value, ast.Name) and t.value.id in classes and t.value.id not in local_assigned and t.value.id not in params:
                                sites.append((rel, f"{t.value.id}.{t.attr}", qual, n.lineno))
                            if isinstance(t, ast.Subscript) and isinstance(t.value, ast.Name) and t.value.id in (mod_names | imported) and t.value.id not in local_assigned and t.value.id not in params and t.value.id.startswith("_"):
                                sites.append((rel, t.value.id, qual, n.lineno))
                    if isinstance(n, ast.Call) and isinstance(n.func, ast.Attribute) and n.func.attr in MUTATORS:
                        v = n.func.value
                        if isinstance(v, ast.Name) and v.id in (mod_names | imported) and v.id not in local_assigned and v.id not in params and v.id.startswith("_"):
                            sites.append((rel, v.id, qual, n.lineno))
                        if isinstance(v, ast.Attribute) and isinstance(v.value, ast.Name) and v.value.id in classes and v.value.id not in local_assigned and v.value.id not in params:
                            sites.append((rel, f"{v.value.id}.{v.attr}", qual, n.lineno))

            def rec(node, prefix):
                for ch in ast.iter_child_nodes(node):
                    if isinstance(ch, (ast.FunctionDef, ast.AsyncFunctionDef)):
                        visit_func(ch, prefix + ch.name)
                    elif isinstance(ch, ast.ClassDef):
                        rec(ch, prefix + ch.name + ".")

            rec(tree, "")
    return sites


# state that is a cache / registry by construction (suffix match on the state name)
BENIGN_SUFFIX = {
    "_SubTypes": "cache (C13: insert-only, keyed by the parameters)",
    "_known_definitions": "cache of parsed function definitions INCLUDING the captured values of their globals: not keyed by what determines the value, "
                          "so it is discarded when a compilation ends (ConvertPythonInstance.__exit__ contract in c11_frames; designs v_global_* of the history sweep)",
    "_intrinsic_functions": "registry (import time)",
    "_intrinsic_replacements": "registry (import time)",
    "_expr_functions": "registry (import time)",
    "_init_cnt": "counter (assertion only)",
    "_cohdl_info": "per-class entity description (created at class creation)",
    "count": "debug counter",
}


def state_inventory(tier="quick", seed=0):
    sites = write_sites()
    unclassified = []
    by_state = {}
    for rel, name, func, line in sites:
        key = f"{rel}:{name}"
        by_state.setdefault(key, []).append(f"{func}:{line}")
    obligations = 0
    for key, where in sorted(by_state.items()):
        name = key.split(":")[1]
        cls = CLASSIFIED.get(key)
        if cls is None:
            for suf, why in BENIGN_SUFFIX.items():
                if name.split(".")[-1] == suf:
                    cls = why
        obligations += 1
        if cls is None:
            unclassified.append(f"{key} written in {where}")
    res = {"obligations": obligations, "discharged": obligations - len(unclassified),
           "samples": [{"state": k, "written_in": v[:4], "class": CLASSIFIED.get(k, "benign")} for k, v in list(sorted(by_state.items()))[:6]],
           "coverage": {"write_sites": len(sites), "distinct_state": len(by_state), "exhaustive": True}}
    if unclassified:
        res["undecided"] = ["global state written from a function without a classification (new state needs a frame / cache argument): " + u for u in unclassified]
    return res
