"""C04, bounded native checks (stand-ins, labelled bounded): what the reset of std components is CONFIGURED to be.

reset_config_sweep
  (a) axi4_light.base_entity / addr_map_entity: for every combination of no_reset x active_high_reset x clock edge the context
      the entity builds its processes with has exactly the requested reset (none / active high / active low) and clock edge --
      exhaustive over these parameters, through the real classes.
  (b) "after reset ... behaves exactly as after power-up" for the components of std that register their OWN on_reset actions or
      keep internal state (ClockDivider with / without tick_at_start, continuous_counter with start_at_limit, ToggleSignal): in
      the emitted process the LAST value a signal is assigned in the reset branch is the initial value of its declaration.
"""

from __future__ import annotations

import json

_SCRIPT = r'''
import itertools, json, re
import cohdl
from cohdl import std, Entity, Port, Bit, Unsigned, Signal
from cohdl.std.axi import axi4_light as axi
from cohdl.std.reg import reg32

out = {"axi": [], "powerup": []}

# (a) ------------------------------------------------------------------------------------------------------------
for maker_name in ("base_entity", "addr_map_entity"):
    maker = getattr(axi, maker_name)
    for no_reset, high, edge in itertools.product((False, True), (False, True), (std.ClockEdge.RISING, std.ClockEdge.FALLING)):
        E = maker(no_reset=no_reset, active_high_reset=high, clk_edge=edge, addr_width=8)
        inst = object.__new__(E)
        ctx = E.interface_context(inst)
        r = ctx.reset()
        got = {"reset": None if r is None else ("low" if r.is_active_low() else "high"), "edge": ctx.clk().edge().name, "reset_port": E.axi_reset is not None,
               "reset_signal_is_port": r is None or r.signal() is E.axi_reset}
        want = {"reset": None if no_reset else ("high" if high else "low"), "edge": edge.name, "reset_port": not no_reset, "reset_signal_is_port": True}
        out["axi"].append({"maker": maker_name, "no_reset": no_reset, "active_high_reset": high, "edge": edge.name, "got": got, "want": want})


# (b) ------------------------------------------------------------------------------------------------------------
def compile_component(build, is_async, active_low):
    class Comp(Entity):
        clk = Port.input(Bit)
        rst = Port.input(Bit)
        o = Port.output(Bit, default=False)

        def architecture(self):
            ctx = std.SequentialContext(std.Clock(self.clk), std.Reset(self.rst, active_low=active_low, is_async=is_async))
            build(self, ctx)

    return std.VhdlCompiler.to_string(Comp)


def b_divider(tick_at_start):
    def build(self, ctx):
        div = std.ClockDivider(ctx, 5, tick_at_start=tick_at_start)

        @ctx
        def proc():
            if div.rising():
                self.o <<= ~self.o

    return build


def b_counter(start_at_limit):
    def build(self, ctx):
        cnt = std.continuous_counter(ctx, 5, start_at_limit=start_at_limit)

        @std.concurrent
        def logic():
            self.o <<= cnt == 0

    return build


def b_toggle(self, ctx):
    t = std.ToggleSignal(ctx, 3, 2)

    @std.concurrent
    def logic():
        self.o <<= t.state()


COMPONENTS = {"ClockDivider": b_divider(False), "ClockDivider(tick_at_start)": b_divider(True), "continuous_counter": b_counter(False),
              "continuous_counter(start_at_limit)": b_counter(True), "ToggleSignal": b_toggle}


def reset_branches(vhdl):
    """per process with a reset: the statements of the branch taken while the reset is active.  Synchronous: the first `if`
    inside `if rising_edge(clk) then`; asynchronous: the first `if` of the process, whose else / elsif branch tests the clock edge."""
    res = []
    for m in re.finditer(r"process\s*\(([^)]*)\)(.*?)end process;", vhdl, flags=re.S):
        lines = [l.strip() for l in m.group(2).split("\n")]
        lines = lines[lines.index("begin") + 1:] if "begin" in lines else lines
        ifs = [i for i, l in enumerate(lines) if re.match(r"if\b", l)]
        if not ifs:
            continue
        if "rising_edge" in lines[ifs[0]] or "falling_edge" in lines[ifs[0]]:
            if len(ifs) < 2 or any(re.match(r"(\w+) <= ", l) for l in lines[ifs[0]:ifs[1]]):
                continue  # no reset test directly inside the clocked block
            start = ifs[1]
        else:
            start = ifs[0]
            if not any(re.match(r"(elsif|if)\b.*_edge", l) for l in lines[start + 1:]):
                continue  # (asynchronous: the clocked part is the else / elsif branch)
        depth, branch = 0, []
        for l in lines[start + 1:]:
            if re.match(r"if\b", l):
                depth += 1
            if depth == 0 and re.match(r"(else|elsif)\b", l):
                break
            if re.match(r"end if;", l):
                if depth == 0:
                    break
                depth -= 1
            branch.append(l)
        res.append(branch)
    return res


for name, build in COMPONENTS.items():
    for is_async, active_low in itertools.product((False, True), (False, True)):
        try:
            vhdl = compile_component(build, is_async, active_low)
        except Exception as e:  # noqa: BLE001
            out["powerup"].append({"component": name, "async": is_async, "active_low": active_low, "error": f"{type(e).__name__}: {str(e)[:120]}"})
            continue
        decl = {m.group(1): m.group(2).strip() for m in re.finditer(r"signal (\w+) : [^;:]+:= ([^;]+);", vhdl)}
        last = {}
        branches = reset_branches(vhdl)
        for br in branches:
            for l in br:
                mm = re.match(r"(\w+) <= (.+);$", l)
                if mm:
                    last[mm.group(1)] = mm.group(2).strip()
        bad = {t: {"reset": v, "power_up": decl[t]} for t, v in last.items() if t in decl and decl[t] != v}
        out["powerup"].append({"component": name, "async": is_async, "active_low": active_low, "reset_branches": len(branches), "reset_assignments": len(last), "mismatch": bad})


# (c) ------------------------------------------------------------------------------------------------------------
# a signal with a default that is connected to an INOUT port of an instance and driven by a context with reset: the instance does
# not take the default away -- the declaration keeps its initial value and the reset branch assigns it
class Pad(Entity, extern=True):
    i = Port.input(Bit)
    io = Port.inout(Bit)


class InoutUser(Entity):
    clk = Port.input(Bit)
    rst = Port.input(Bit)
    a = Port.input(Bit)
    o = Port.output(Bit, default=False)

    def architecture(self):
        padline = Signal[Bit](False, name="padline")
        Pad(i=self.a, io=padline)

        @std.sequential(std.Clock(self.clk), std.Reset(self.rst))
        def proc():
            padline.next = self.a
            self.o <<= padline


try:
    t = std.VhdlCompiler.to_string(InoutUser)
    in_reset = [l for br in reset_branches(t) for l in br]
    out["inout"] = {"declared_with_default": bool(re.search(r"signal padline : std_logic := '0';", t)), "reset_assigns_default": "padline <= '0';" in in_reset}
except Exception as e:  # noqa: BLE001
    out["inout"] = {"error": f"{type(e).__name__}: {str(e)[:120]}"}

# (d) ------------------------------------------------------------------------------------------------------------
# every clocked process of the AXI interconnect belongs to the reset domain of the master interface
from cohdl import Null
from cohdl.std.axi.axi4_light.interconnect import Interconnect


class IcTop(axi.base_entity(addr_width=16, active_high_reset=True)):
    def architecture(self):
        ic = Interconnect(self.interface_connection())
        slave = ic.reserve(0x100, 0x100, prefix="slv")

        @std.concurrent
        def slave_logic():
            slave.rdaddr.ready <<= True
            slave.rddata.valid <<= True
            slave.rddata.rdata <<= Null
            slave.rddata.rresp <<= Null
            slave.wraddr.ready <<= True
            slave.wrdata.ready <<= True
            slave.wrresp.valid <<= True
            slave.wrresp.bresp <<= Null


try:
    t = std.VhdlCompiler.to_string(IcTop)
    procs = re.findall(r"(\w+): process\s*\(([^)]*)\)(.*?)end process;", t, flags=re.S)
    clocked = [n for n, s, b in procs if "rising_edge" in b or "falling_edge" in b]
    with_reset = [n for n, s, b in procs if ("rising_edge" in b or "falling_edge" in b) and "axi_reset" in b]
    out["interconnect"] = {"clocked": clocked, "with_reset": with_reset}
except Exception as e:  # noqa: BLE001
    out["interconnect"] = {"error": f"{type(e).__name__}: {str(e)[:120]}"}

# (e) ------------------------------------------------------------------------------------------------------------
# "an embedded coroutine returns to its first state": the reset branch assigns the first state to the state signal, which is
# also the state signal's power-up value
out["coroutine"] = []
for is_async, active_low in itertools.product((False, True), (False, True)):
    class CoTop(Entity):
        clk = Port.input(Bit)
        rst = Port.input(Bit)
        go = Port.input(Bit)
        q = Port.output(Bit, default=False)

        def architecture(self):
            @std.sequential(std.Clock(self.clk), std.Reset(self.rst, active_low=active_low, is_async=is_async))
            async def worker():
                await self.go
                self.q <<= True
                await std.wait_for(2)
                self.q <<= False

    try:
        t = std.VhdlCompiler.to_string(CoTop)
        decl = re.search(r"signal (s_\w+) : (\w+)(?: := (\w+))?;", t)
        first = re.search(r"type " + decl.group(2) + r" is \((\w+)", t) if decl else None
        in_reset = [l for br in reset_branches(t) for l in br]
        # power-up value: the initial value of the declaration, otherwise (VHDL) the leftmost literal of the enumeration type
        out["coroutine"].append({"async": is_async, "active_low": active_low, "state_signal": decl.group(1) if decl else None, "initial": (decl.group(3) or (first.group(1) if first else None)) if decl else None,
                                 "reset_assigns": [l for l in in_reset if decl and l.startswith(decl.group(1) + " <=")]})
    except Exception as e:  # noqa: BLE001
        out["coroutine"].append({"async": is_async, "active_low": active_low, "error": f"{type(e).__name__}: {str(e)[:120]}"})
print("RESULT" + json.dumps(out))
'''


def reset_config_sweep(tier="quick", seed=0):
    from contracts.c06_extra import _run_design

    rc, text = _run_design(_SCRIPT)
    if "RESULT" not in text:
        return {"problems": [f"reset_config_sweep: the design script failed: {text[-400:]}"]}
    data = json.loads(text[text.index("RESULT") + 6:].splitlines()[0])
    fails = {}
    n = 0
    for e in data["axi"]:
        n += 1
        if e["got"] != e["want"]:
            key = f"axi:{e['maker']}(no_reset={e['no_reset']}, active_high_reset={e['active_high_reset']}, {e['edge']})"
            fails.setdefault(key, f"{key}: interface context has {e['got']}, requested {e['want']}")
    for e in data["powerup"]:
        n += 1
        key = f"powerup:{e['component']}"
        if "error" in e or e["reset_branches"] == 0 or e["reset_assignments"] == 0:
            # the harness could not look at the reset branch: undecided, never a violation
            return {"problems": [f"reset_config_sweep: {e['component']} (async={e['async']}, active_low={e['active_low']}): " + (e.get("error") or "no reset branch found in the emitted processes")]}
        elif e["mismatch"]:
            fails.setdefault(key, f"{e['component']} (async={e['async']}, active_low={e['active_low']}): after reset {e['mismatch']} (last assignment in the reset branch vs initial value of the declaration)")
    for part in ("inout", "interconnect"):
        n += 1
        e = data.get(part) or {"error": "not evaluated"}
        if "error" in e:
            return {"problems": [f"reset_config_sweep: {part}: {e['error']}"]}
    e = data["inout"]
    if not (e["declared_with_default"] and e["reset_assigns_default"]):
        fails.setdefault("inout-instance", f"a signal with a default connected to an inout port of an instance and driven by a context with reset: {e} (the instance must not take the default away)")
    e = data["interconnect"]
    if not e["clocked"]:
        return {"problems": ["reset_config_sweep: no clocked process found in the interconnect design"]}
    if sorted(e["clocked"]) != sorted(e["with_reset"]):
        fails.setdefault("interconnect", f"clocked processes of the AXI interconnect {e['clocked']}, of these in the reset domain of the master interface: {e['with_reset']}")
    for e in data.get("coroutine", []):
        n += 1
        if "error" in e or not e.get("state_signal"):
            return {"problems": [f"reset_config_sweep: coroutine (async={e['async']}, active_low={e['active_low']}): " + (e.get("error") or "no state signal declaration found")]}
        if e["reset_assigns"] != [f"{e['state_signal']} <= {e['initial']};"]:
            fails.setdefault("coroutine-state", f"coroutine under reset (async={e['async']}, active_low={e['active_low']}): state signal {e['state_signal']} powers up in {e['initial']}, the reset branch assigns {e['reset_assigns']}")
    violations = []
    for key, what in sorted(fails.items()):
        oid = f"C04/reset-config-sweep[{key}]#bounded"
        violations.append({"kind": "custom", "qual": "<C04 reset configuration sweep>", "case": key, "oid": oid, "check": "reset_config_sweep", "key": key, "assignment": {"case": key}, "solver": {"what": what}, "reproduced": True,
                           "replay_payload": {"property": "C04", "custom": "contracts.c04_extra.replay_reset_config", "key": key, "obligation": oid, "verifier_output": what}})
    return {"evaluations": n, "distinct": n, "violations": violations, "samples": [{"axi_configurations": len(data["axi"]), "component_configurations": len(data["powerup"])}],
            "bounded": [{"function": "cohdl.std.axi.axi4_light.base:base_entity / addr_map_entity", "case": "no_reset x active_high_reset x clock edge", "evaluations": len(data["axi"]), "exhaustive_within_bound": True,
                         "bound": "2 makers x 2 x 2 x 2 configurations (all values of the three parameters)"},
                        {"function": "cohdl.std.utility:ClockDivider / continuous_counter / ToggleSignal", "case": "reset equals power-up (emitted text)", "evaluations": len(data["powerup"]), "exhaustive_within_bound": False,
                         "bound": "5 component configurations x sync/async x active low/high, one parameter value each; textual comparison of the last reset assignment with the declaration's initial value"}]}


def replay_reset_config(payload):
    r = reset_config_sweep("quick", 0)
    hit = [v for v in r.get("violations", []) if v["key"] == payload["key"]]
    return {"reproduced": bool(hit), "detail": hit[0]["solver"]["what"] if hit else "configuration as requested / reset equals power-up"}
