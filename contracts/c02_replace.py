"""C02: the operator replacement table -- every `_intrinsic_replacement` of an
operator of TypeQualifier, proved from the real source.

For the replacement R of the Python operator method M (table below, taken from
the statement of C02: which IR operator each Python operator denotes):
   R(self, other) first evaluates M(self, other) itself (the Python-side result: type,
   width and constant value, C09) and, unless that is NotImplemented, returns the IR node
       _IntrinsicBinOp / _IntrinsicComparison / _IntrinsicUnaryOp
   with  op     == the table's operator,
         result == the value M returned,
         operands in SOURCE order: (self, other) for M, (other, self) for the reflected M.
A NotImplemented result is passed through (Python then tries the reflected method).
"""

from __future__ import annotations

from cohdl._core import _type_qualifier as TQM
from cohdl._core import _intrinsic_operations as intr_op
from cohdl._core._type_qualifier import TypeQualifier

from pyvc import contracts as C
from pyvc import interp as I
from pyvc import sym
from pyvc.contracts import Case, contract
from pyvc.values import SObj, Opaque
from contracts.c05_format_cast import Built

PROPS = ("C02", "C09")  # C09: the emitted operator and operand order is the run-time side of "fold == logic"
B, Cm, Un = intr_op.BinaryOperator, intr_op.ComparisonOperator, intr_op.UnaryOperator

# Python operator method -> (IR operator, reflected?)   [documented meaning of the Python operators in CoHDL]
BINARY = {
    "__or__": (B.BIT_OR, False), "__ror__": (B.BIT_OR, True),
    "__and__": (B.BIT_AND, False), "__rand__": (B.BIT_AND, True),
    "__xor__": (B.BIT_XOR, False), "__rxor__": (B.BIT_XOR, True),
    "__matmul__": (B.CONCAT, False), "__rmatmul__": (B.CONCAT, True),
    "__add__": (B.ADD, False), "__radd__": (B.ADD, True),
    "__sub__": (B.SUB, False), "__rsub__": (B.SUB, True),
    "__mul__": (B.MUL, False), "__rmul__": (B.MUL, True),
    "__floordiv__": (B.TRUNC_DIV, False), "__rfloordiv__": (B.TRUNC_DIV, True),  # only Unsigned // Unsigned is accepted: floor == trunc
    "_cohdl_truncdiv_": (B.TRUNC_DIV, False), "_cohdl_rtruncdiv_": (B.TRUNC_DIV, True),
    "__mod__": (B.MOD, False), "__rmod__": (B.MOD, True),
    "_cohdl_rem_": (B.REM, False), "_cohdl_rrem_": (B.REM, True),
    "__lshift__": (B.LSHIFT, False), "__rlshift__": (B.LSHIFT, True),
    "__rshift__": (B.RSHIFT, False), "__rrshift__": (B.RSHIFT, True),
}
COMPARE = {"__eq__": Cm.EQ, "__ne__": Cm.NE, "__lt__": Cm.LT, "__gt__": Cm.GT, "__le__": Cm.LE, "__ge__": Cm.GE}
UNARY = {"__abs__": Un.ABS, "__inv__": Un.INV, "__neg__": Un.NEG, "__pos__": Un.POS}


for _cls in (intr_op._IntrinsicOp, intr_op._IntrinsicUnaryOp, intr_op._IntrinsicBinOp, intr_op._IntrinsicComparison):
    I.register_inline(_cls.__dict__["__init__"])  # field-setting constructors: interpreted


def replacement_of(method_name):
    """the function registered with @_intrinsic_replacement(<method>) in class TypeQualifier"""
    from cohdl._core._intrinsic import _intrinsic_replacements

    m = TypeQualifier.__dict__[method_name]
    r = _intrinsic_replacements[m]
    return r.fn


class _Res:
    """the value the Python-side operator method returned"""


def method_model(name):
    def model(it, self, *args):
        if it.method_not_implemented:
            return NotImplemented
        return SObj(_Res, f_method=name, f_self=self, f_args=list(args))

    return model


def all_models():
    out = []
    for name in list(BINARY) + list(COMPARE) + list(UNARY):
        out.append((TypeQualifier.__dict__[name], method_model(name)))
    return out


MODELS = all_models()
SELF = Built([], lambda env: SObj(TypeQualifier, f_tag="self", _value=Opaque("v"), _ref_spec=[]), lambda a: "<tq>", lambda a: None)
OTHER = Built([], lambda env: SObj(TypeQualifier, f_tag="other", _value=Opaque("o"), _ref_spec=[]), lambda a: "<other>", lambda a: None)


def node_spec(name, node_cls, op, reflected, unary, not_impl):
    def spec(sx, self, *other):
        if not_impl:
            # the callers (PrepareAst: ast.BinOp / ast.Compare) only look at the RESULT of the produced
            # statement: NotImplemented itself or a node carrying NotImplemented both make them try the
            # reflected method of the other operand
            return C.Pred(lambda res: res is NotImplemented or (isinstance(res, SObj) and res.kind is node_cls and res.fields.get("result") is NotImplemented), "NotImplemented is visible to the caller")
        real_self = sx.real_args[0]
        real_other = sx.real_args[1] if other else None

        def holds(res):
            if not (isinstance(res, SObj) and res.kind is node_cls):
                return False
            f = res.fields
            r = f.get("result")
            if f.get("op") is not op or not (isinstance(r, SObj) and r.kind is _Res):
                return False
            if r.fields["f_method"] != name or r.fields["f_self"] is not real_self:
                return False
            if unary:
                return f.get("arg") is real_self and r.fields["f_args"] == []
            if len(r.fields["f_args"]) != 1 or r.fields["f_args"][0] is not real_other:
                return False
            lhs, rhs = (real_other, real_self) if reflected else (real_self, real_other)
            return f.get("lhs") is lhs and f.get("rhs") is rhs

        return C.Pred(holds, f"IR node {op.name} over the operands in source order")

    return spec


def add(name, node_cls, op, reflected=False, unary=False):
    fn = replacement_of(name)
    con = contract(f"cohdl._core._type_qualifier:TypeQualifier.<replacement of {name}>", PROPS)
    con.custom_fn = fn
    for not_impl in (False,) if unary else (False, True):
        c = Case("not-implemented" if not_impl else "value", [SELF] if unary else [SELF, OTHER], node_spec(name, node_cls, op, reflected, unary, not_impl))
        c.native = False
        c.models = MODELS

        def setup(it, ctx, args, env, ni=not_impl):
            it.method_not_implemented = ni

        c.setup = setup
        con.cases.append(c)


for _n, (_op, _refl) in BINARY.items():
    add(_n, intr_op._IntrinsicBinOp, _op, reflected=_refl)
for _n, _op in COMPARE.items():
    add(_n, intr_op._IntrinsicComparison, _op)
for _n, _op in UNARY.items():
    add(_n, intr_op._IntrinsicUnaryOp, _op, unary=True)


# ---- element access: obj[index] -----------------------------------------------------------------------------------------------
# A run-time index is SAMPLED where the subscript is written: the replacement creates a fresh temporary of the index's type,
# builds the element reference over that temporary and returns both (index, temporary) so that the tracer emits
# `temporary := index` at this point.  A reference that is kept (`x = vec[v]`) and used after the index variable changed
# (`v @= v + 1`) still denotes the element selected when it was written (C03: program order; C02: the value of `vec[v]`).
# A constant index / constant slice needs no sample: the reference itself is returned.
from cohdl import Bit as _Bit, Temporary as _Temporary  # noqa: E402

GETITEM_PROPS = ("C02", "C03", "C09", "C13")
for _cls in (intr_op._IntrinsicConstElemAccess, intr_op._IntrinsicElemAccess):
    I.register_inline(_cls.__dict__["__init__"])


def getitem_spec(kind):
    def spec(sx, self, arg):
        real_self, real_arg = sx.real_args

        def holds(res):
            if kind == "constant":
                if not (isinstance(res, SObj) and res.kind is intr_op._IntrinsicConstElemAccess):
                    return False
                r = res.fields["obj"]
                return isinstance(r, SObj) and r.kind is _Res and r.fields["f_method"] == "__getitem__" and r.fields["f_self"] is real_self and r.fields["f_args"] == [real_arg]
            if not (isinstance(res, SObj) and res.kind is intr_op._IntrinsicElemAccess):
                return False
            f = res.fields
            temp, r = f["index_temp"], f["obj"]
            if f["index"] is not real_arg:
                return False
            # the sample: a NEW temporary of the index's type, different from the index object
            if not (isinstance(temp, SObj) and temp.kind is _Temporary and temp is not real_arg and temp.fields.get("f_fresh_of") is _Bit):
                return False
            return isinstance(r, SObj) and r.kind is _Res and r.fields["f_method"] == "__getitem__" and r.fields["f_self"] is real_self and len(r.fields["f_args"]) == 1 and r.fields["f_args"][0] is temp

        return C.Pred(holds, "constant index: the reference itself; run-time index: reference over a fresh temporary that samples the index here")

    return spec


def _fresh_temp(it, args, kw):
    return SObj(_Temporary, f_fresh_of=_Bit, _value=Opaque("sample"), _ref_spec=[])


_gi = contract("cohdl._core._type_qualifier:TypeQualifier.<replacement of __getitem__>", GETITEM_PROPS)
_gi.custom_fn = replacement_of("__getitem__")
_INDEX_SHAPES = {
    "int": ("constant", lambda env: 3),
    "constant-slice": ("constant", lambda env: slice(7, 4)),
    "signal": ("run-time", lambda env: SObj(TQM.Signal, f_tag="index", type=_Bit, _value=Opaque("i"), _ref_spec=[])),
    "variable": ("run-time", lambda env: SObj(TQM.Variable, f_tag="index", type=_Bit, _value=Opaque("i"), _ref_spec=[])),
    "temporary": ("run-time", lambda env: SObj(_Temporary, f_tag="index", type=_Bit, _value=Opaque("i"), _ref_spec=[])),
    "slice-of-signal": ("run-time", lambda env: SObj(TQM.Signal, f_tag="index", type=_Bit, _value=Opaque("i"), _ref_spec=["<slice>"])),
}
for _name, (_kind, _mk) in _INDEX_SHAPES.items():
    c = Case(f"index:{_name}", [SELF, Built([], _mk, lambda a: "<index>", lambda a: None)], getitem_spec(_kind))
    c.native = False
    c.models = [(TypeQualifier.__dict__["__getitem__"], method_model("__getitem__"))]
    c.interp_flags = {"class_call_models": {_Temporary[_Bit]: _fresh_temp, _Temporary: _fresh_temp}}

    def _gi_setup(it, ctx, args, env):
        it.method_not_implemented = False

    c.setup = _gi_setup
    c.custom_replay = "contracts.c02_replace.replay_index_sample"
    _gi.cases.append(c)


_INDEX_SAMPLE_DESIGN = '''
from cohdl import Entity, Port, Bit, BitVector, Unsigned, Variable, std
class E(Entity):
    clk = Port.input(Bit)
    vec = Port.input(BitVector[4])
    start = Port.input(Unsigned[2])
    o = Port.output(Bit)
    def architecture(self):
        @std.sequential(std.Clock(self.clk))
        def proc():
            idx = Variable[Unsigned[2]](self.start)
            first = self.vec[idx]          # the element selected NOW
            idx @= idx + 1
            self.o <<= first               # still vec[start], not vec[start + 1]
import re
t = std.VhdlCompiler.to_string(E)
proc = [l.strip() for l in t[t.index("proc:"):].splitlines()]
read = next(l for l in proc if "vec(to_integer(" in l)
index_name = re.search(r"to_integer\\((\\w+)\\)", read).group(1)
writes_of_var = [i for i, l in enumerate(proc) if l.startswith("var :=")]          # var := start;  ...  var := <var + 1>;
sample = [i for i, l in enumerate(proc) if l == index_name + " := var;"]
ok = index_name != "var" and sample and writes_of_var[0] < sample[0] < writes_of_var[-1]
print("SAMPLED" if ok else "NOT-SAMPLED", read, [proc[i] for i in sample])
'''


def replay_index_sample(payload):
    from contracts.c06_extra import _run_design

    rc, out = _run_design(_INDEX_SAMPLE_DESIGN)
    return {"reproduced": rc == 0 and "NOT-SAMPLED" in out, "detail": out[-400:]}


# ---- comparisons with the untyped constants Null / Full -------------------------------------------------------------------------
# `x != Full`, `x == Null`, `x < Full` ...: Null / Full have no width of their own; the comparison recorded in the IR carries a
# literal of the LEFT operand's type (self.type(Null) / self.type(Full)) -- the placeholder object itself cannot be written as
# VHDL.  All six comparison replacements, both constants.
from cohdl import Null as _Null, Full as _Full  # noqa: E402


class _TypedLiteral:
    """stands for self.type(constant): the literal of the operand's type"""

    def __init__(self, value):
        self.value = value


I.register_inline(_TypedLiteral.__init__)
SELF_TYPED = Built([], lambda env: SObj(TypeQualifier, f_tag="self", _value=Opaque("v"), _ref_spec=[], type=_TypedLiteral), lambda a: "<tq>", lambda a: None)


def fill_spec(name, op, const):
    def spec(sx, self, other):
        real_self = sx.real_args[0]

        def holds(res):
            if not (isinstance(res, SObj) and res.kind is intr_op._IntrinsicComparison):
                return False
            f = res.fields
            rhs = f.get("rhs")
            if f.get("op") is not op or f.get("lhs") is not real_self:
                return False
            if isinstance(rhs, _TypedLiteral):  # concrete argument: the engine builds the real object
                return rhs.value is const
            return isinstance(rhs, SObj) and rhs.kind is _TypedLiteral and rhs.fields.get("value") is const

        return C.Pred(holds, f"comparison {op.name} of self with the literal self.type({const!r})")

    return spec


for _n, _op in COMPARE.items():
    _con = contract(f"cohdl._core._type_qualifier:TypeQualifier.<replacement of {_n}>", PROPS + ("C06",))
    for _const, _cname in ((_Null, "Null"), (_Full, "Full")):
        c = Case(f"other-is-{_cname}", [SELF_TYPED, Built([], (lambda k: lambda env: k)(_const), lambda a: "<const>", lambda a: None)], fill_spec(_n, _op, _const))
        c.native = False
        c.models = MODELS

        def _fill_setup(it, ctx, args, env):
            it.method_not_implemented = False

        c.setup = _fill_setup
        _con.cases.append(c)


# C17 ("the layout is ... identical at compile time and in emitted logic"): to_bits concatenates the members with `@`; the operand
# order of the emitted concatenation (also of the REFLECTED one, constant @ signal) is part of the serialised layout
for _n in ("__matmul__", "__rmatmul__"):
    contract(f"cohdl._core._type_qualifier:TypeQualifier.<replacement of {_n}>", ("C17",))
