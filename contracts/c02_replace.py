"""C02: the operator replacement table -- every `_intrinsic_replacement` of an
operator of TypeQualifier, proved from the real source.

For the replacement R of the Python operator method M (table below, taken from
the statement of C02: which IR operator each Python operator denotes):
   R(self, other) first evaluates M(self, other) itself (the Python-side result: type,
   width and constant value, C09) and, unless that is NotImplemented, returns the IR node
       _IntrinsicBinOp / _IntrinsicComparison / _IntrinsicUnaryOp
   with  op     == the table's operator,
         result == the value M returned,
         operands in SOURCE order: (self, other) for M, (other, self) for the reflected M.
A NotImplemented result is passed through (Python then tries the reflected method).
"""

from __future__ import annotations

from cohdl._core import _type_qualifier as TQM
from cohdl._core import _intrinsic_operations as intr_op
from cohdl._core._type_qualifier import TypeQualifier

from pyvc import contracts as C
from pyvc import interp as I
from pyvc import sym
from pyvc.contracts import Case, contract
from pyvc.values import SObj, Opaque
from contracts.c05_format_cast import Built

PROPS = ("C02", "C09")  # C09: the emitted operator and operand order is the run-time side of "fold == logic"
B, Cm, Un = intr_op.BinaryOperator, intr_op.ComparisonOperator, intr_op.UnaryOperator

# Python operator method -> (IR operator, reflected?)   [documented meaning of the Python operators in CoHDL]
BINARY = {
    "__or__": (B.BIT_OR, False), "__ror__": (B.BIT_OR, True),
    "__and__": (B.BIT_AND, False), "__rand__": (B.BIT_AND, True),
    "__xor__": (B.BIT_XOR, False), "__rxor__": (B.BIT_XOR, True),
    "__matmul__": (B.CONCAT, False), "__rmatmul__": (B.CONCAT, True),
    "__add__": (B.ADD, False), "__radd__": (B.ADD, True),
    "__sub__": (B.SUB, False), "__rsub__": (B.SUB, True),
    "__mul__": (B.MUL, False), "__rmul__": (B.MUL, True),
    "__floordiv__": (B.TRUNC_DIV, False), "__rfloordiv__": (B.TRUNC_DIV, True),  # only Unsigned // Unsigned is accepted: floor == trunc
    "_cohdl_truncdiv_": (B.TRUNC_DIV, False), "_cohdl_rtruncdiv_": (B.TRUNC_DIV, True),
    "__mod__": (B.MOD, False), "__rmod__": (B.MOD, True),
    "_cohdl_rem_": (B.REM, False), "_cohdl_rrem_": (B.REM, True),
    "__lshift__": (B.LSHIFT, False), "__rlshift__": (B.LSHIFT, True),
    "__rshift__": (B.RSHIFT, False), "__rrshift__": (B.RSHIFT, True),
}
COMPARE = {"__eq__": Cm.EQ, "__ne__": Cm.NE, "__lt__": Cm.LT, "__gt__": Cm.GT, "__le__": Cm.LE, "__ge__": Cm.GE}
UNARY = {"__abs__": Un.ABS, "__inv__": Un.INV, "__neg__": Un.NEG, "__pos__": Un.POS}


for _cls in (intr_op._IntrinsicOp, intr_op._IntrinsicUnaryOp, intr_op._IntrinsicBinOp, intr_op._IntrinsicComparison):
    I.register_inline(_cls.__dict__["__init__"])  # field-setting constructors: interpreted


def replacement_of(method_name):
    """the function registered with @_intrinsic_replacement(<method>) in class TypeQualifier"""
    from cohdl._core._intrinsic import _intrinsic_replacements

    m = TypeQualifier.__dict__[method_name]
    r = _intrinsic_replacements[m]
    return r.fn


class _Res:
    """the value the Python-side operator method returned"""


def method_model(name):
    def model(it, self, *args):
        if it.method_not_implemented:
            return NotImplemented
        return SObj(_Res, f_method=name, f_self=self, f_args=list(args))

    return model


def all_models():
    out = []
    for name in list(BINARY) + list(COMPARE) + list(UNARY):
        out.append((TypeQualifier.__dict__[name], method_model(name)))
    return out


MODELS = all_models()
SELF = Built([], lambda env: SObj(TypeQualifier, f_tag="self", _value=Opaque("v"), _ref_spec=[]), lambda a: "<tq>", lambda a: None)
OTHER = Built([], lambda env: SObj(TypeQualifier, f_tag="other", _value=Opaque("o"), _ref_spec=[]), lambda a: "<other>", lambda a: None)


def node_spec(name, node_cls, op, reflected, unary, not_impl):
    def spec(sx, self, *other):
        if not_impl:
            # the callers (PrepareAst: ast.BinOp / ast.Compare) only look at the RESULT of the produced
            # statement: NotImplemented itself or a node carrying NotImplemented both make them try the
            # reflected method of the other operand
            return C.Pred(lambda res: res is NotImplemented or (isinstance(res, SObj) and res.kind is node_cls and res.fields.get("result") is NotImplemented), "NotImplemented is visible to the caller")
        real_self = sx.real_args[0]
        real_other = sx.real_args[1] if other else None

        def holds(res):
            if not (isinstance(res, SObj) and res.kind is node_cls):
                return False
            f = res.fields
            r = f.get("result")
            if f.get("op") is not op or not (isinstance(r, SObj) and r.kind is _Res):
                return False
            if r.fields["f_method"] != name or r.fields["f_self"] is not real_self:
                return False
            if unary:
                return f.get("arg") is real_self and r.fields["f_args"] == []
            if len(r.fields["f_args"]) != 1 or r.fields["f_args"][0] is not real_other:
                return False
            lhs, rhs = (real_other, real_self) if reflected else (real_self, real_other)
            return f.get("lhs") is lhs and f.get("rhs") is rhs

        return C.Pred(holds, f"IR node {op.name} over the operands in source order")

    return spec


def add(name, node_cls, op, reflected=False, unary=False):
    fn = replacement_of(name)
    con = contract(f"cohdl._core._type_qualifier:TypeQualifier.<replacement of {name}>", PROPS)
    con.custom_fn = fn
    for not_impl in (False,) if unary else (False, True):
        c = Case("not-implemented" if not_impl else "value", [SELF] if unary else [SELF, OTHER], node_spec(name, node_cls, op, reflected, unary, not_impl))
        c.native = False
        c.models = MODELS

        def setup(it, ctx, args, env, ni=not_impl):
            it.method_not_implemented = ni

        c.setup = setup
        con.cases.append(c)


for _n, (_op, _refl) in BINARY.items():
    add(_n, intr_op._IntrinsicBinOp, _op, reflected=_refl)
for _n, _op in COMPARE.items():
    add(_n, intr_op._IntrinsicComparison, _op)
for _n, _op in UNARY.items():
    add(_n, intr_op._IntrinsicUnaryOp, _op, unary=True)
