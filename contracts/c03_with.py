"""C03: `with` blocks inside synthesizable code (PrepareAst.apply_impl, ast.With branch) -- statements take effect in program
order: the context managers are entered in order before the body, and `__exit__` runs exactly once on EVERY path that leaves the
block: after the body on the path that falls through, and before each `return` on the paths that return (innermost manager first).

The branch is interpreted from the real source.  The body is a ghost statement carrying the summary the real classes keep
(returns / returns_always / return paths, whose own correctness is c03_out); the managers are real Python objects, the traced
calls of __enter__ / __exit__ are recorded.
"""

from __future__ import annotations

import ast

from cohdl._compiler.frontend import _prepare_ast as PA
from cohdl._compiler.frontend import _prepare_ast_out as OUT

from pyvc import contracts as C
from pyvc import interp as I
from pyvc.contracts import Case, contract
from pyvc.values import SObj
from contracts.c05_format_cast import Built
from contracts.c02_frontend import _Prep
from contracts import c10_frontend as _F  # noqa: F401  (defines the _Prep.apply stand-in)

PROPS = ("C03",)


class _CM:
    """a context manager of the design (real object: the branch looks __enter__ / __exit__ up in its type)"""

    def __init__(self, tag):
        self.tag = tag

    def __enter__(self):
        return self

    def __exit__(self, a, b, c):
        return None


class _WStmt:
    """statement of the translated block: returns() / returns_always() / _return_paths as recorded by the real classes"""


_WStmt.returns = lambda self: None
_WStmt.returns_always = lambda self: None
_WStmt.result = lambda self: None
I.register_model(_WStmt.returns, lambda it, self: len(self.fields["_return_paths"]) != 0)
I.register_model(_WStmt.returns_always, lambda it, self: self.fields["f_always"])
I.register_model(_WStmt.result, lambda it, self: self.fields["f_result"])

CM_A, CM_B = _CM("A"), _CM("B")
NODES = {1: ast.parse("with A:\n    BODY\n").body[0], 2: ast.parse("with A, B:\n    BODY\n").body[0]}
# body kinds: number of return paths, returns on every path?
BODIES = {"no-return": (0, False), "conditional-return": (1, False), "two-conditional-returns": (2, False), "returns-always": (1, True), "returns-always-two-paths": (2, True)}


def _apply(it, self, node):
    if isinstance(node, ast.Name):
        cm = {"A": CM_A, "B": CM_B}[node.id]
        return SObj(_WStmt, f_tag="ctx-" + cm.tag, f_result=cm, f_always=False, _return_paths=[])
    return it.body  # the block's body


def _subcall(it, self, fn, args, kwargs, noreturn=None):
    call = SObj(_WStmt, f_tag=f"{fn.__name__}({args[0].tag})", f_result=args[0], f_always=False, _return_paths=[], f_args=list(args[1:]))
    it.calls.append(call)
    return call


def with_spec(n_managers, body_kind):
    n_paths, always = BODIES[body_kind]
    tags = ["A", "B"][:n_managers]

    def spec(sx, self, inp):
        it = sx.it

        def holds(res):
            if not (isinstance(res, SObj) and res.kind is OUT.CodeBlock):
                return False
            seq = [s.fields["f_tag"] for s in res.fields["f_list"]]
            want = []
            for t in tags:
                want += ["ctx-" + t, f"__enter__({t})"]
            want.append("BODY")
            if not always:
                want += [f"__exit__({t})" for t in reversed(tags)]  # leaving the block normally: innermost first
            if seq != want:
                return False
            # every path that returns leaves the block too: one __exit__ per manager, innermost first, before the return
            for path in it.body.fields["_return_paths"]:
                got = [s.fields["f_tag"] for s in path.fields["_final_bound_statements"]]
                if got != [f"__exit__({t})" for t in reversed(tags)]:
                    return False
            # __exit__ receives (None, None, None): no exception in synthesizable code
            return all(c.fields["f_args"] == [None, None, None] for c in it.calls if c.fields["f_tag"].startswith("__exit__"))

        return C.Pred(holds, "enter in order, body, __exit__ once on every path that leaves the block (innermost first)")

    return spec


con = contract("cohdl._compiler.frontend._prepare_ast:PrepareAst.apply_impl", PROPS)
for n_managers, node in NODES.items():
    for body_kind in BODIES:
        c = Case(f"with:{n_managers}-managers,{body_kind}", [Built([], lambda env: SObj(_Prep, _last_apply_inp=None, _context=PA.ContextType.SEQUENTIAL), lambda a: "<self>", lambda a: None),
                                                            Built([], (lambda nd: lambda env: nd)(node), lambda a: "<with>", lambda a: None)], with_spec(n_managers, body_kind))
        c.native = False
        c.models = [(_Prep.apply, _apply), (_Prep.subcall, _subcall)]
        c.interp_flags = {"class_call_models": {OUT.CodeBlock: lambda it, args, kw: SObj(OUT.CodeBlock, f_list=list(args[0]))}}

        def _setup(it, ctx, args, env, body_kind=body_kind):
            n_paths, always = BODIES[body_kind]
            paths = [SObj(OUT.Return, f_tag=f"return-{i}", _final_bound_statements=[]) for i in range(n_paths)]
            it.body = SObj(_WStmt, f_tag="BODY", f_result=None, f_always=always, _return_paths=paths)
            it.calls = []

        c.setup = _setup
        c.custom_replay = "contracts.c03_with.replay_with_exit"
        con.cases.append(c)


_WITH_DESIGN = '''
from cohdl import Entity, Port, Bit, Unsigned, Variable, std
class WithExit(Entity):
    clk = Port.input(Bit)
    cond = Port.input(Bit)
    q = Port.output(Unsigned[4], default=0)
    done = Port.output(Bit, default=False)
    def architecture(self):
        class Mark:
            def __enter__(s):
                return s
            def __exit__(s, a, b, c):
                self.done <<= True
        def f():
            with Mark():
                if self.cond:
                    return Unsigned[4](1)
            return Unsigned[4](2)
        @std.sequential(std.Clock(self.clk))
        def proc():
            self.q <<= f()
t = std.VhdlCompiler.to_string(WithExit)
print("EXITS", t.count("buffer_done <= '1'"))
'''


def replay_with_exit(payload):
    from contracts.c06_extra import _run_design

    rc, out = _run_design(_WITH_DESIGN)
    return {"reproduced": rc == 0 and "EXITS 2" not in out,
            "detail": "`with Mark(): if cond: return 1` followed by `return 2`: __exit__ must be emitted on the returning path and on the path that falls through: " + out[-80:]}
