"""C03 / C10: subscript expressions that are READ (PrepareAst.apply_impl, ast.Subscript with Load context) -- "statements take
effect in program order".

`obj[index]` evaluates `obj`, then `index`, then selects the element (CPython: BINARY_SUBSCR after both operands).  In the
tracer every sub-expression carries the statements it needs (`bound statements`: the inlined body of a helper, the snapshot of a
run-time index `temp := idx`); a bound statement is emitted BEFORE the expression it is bound to.  The selection
(`__getitem__`, whose own bound statement is the index snapshot) must therefore come after the statements of the object and of
the index expression:   effects(obj) ; effects(index) ; effects(selection).
With `vec[next_idx()]` (`def next_idx(): v @= v + 1; return v`) the other order selects with the value `v` had before the call.
The Store form (`obj[index] <<= x`) builds `bound=[value_expr, slice_expr, elem]` and is the reference for the order.
"""

from __future__ import annotations

import ast

from cohdl._compiler.frontend import _prepare_ast_out as OUT

from pyvc import contracts as C
from pyvc.contracts import Case, contract
from pyvc.values import SObj
from contracts.c05_format_cast import Built
from contracts.c02_frontend import _Expr, _Prep
from contracts import c10_frontend as _F  # noqa: F401  (defines the _Prep.apply stand-in)
from contracts import c03_match as _M  # noqa: F401  (model of _Expr.bound_statements)
from contracts.c10_subset import NATIVE_TRAITS

PROPS = ("C03", "C10")


class _Vec:
    """a run-time object with a __getitem__ (the tracer calls it through subcall)"""

    def __getitem__(self, index):
        raise AssertionError("only called through the subcall model")


def effects(stmt):
    """the order in which the statements bound to an expression take effect: bound statements first, depth first"""
    if isinstance(stmt, str):
        return [stmt]
    out = []
    for b in stmt.fields.get("f_bound", []):
        out.extend(effects(b))
    return out


def spec(sx, self, inp):
    def holds(res):
        if not (isinstance(res, SObj) and res.kind is _Expr and res.fields.get("f_result") == "ELEMENT"):
            return False
        return effects(res) == ["statements of the object expression", "statements of the index expression", "snapshot of the index (bound to the selection)"]

    return C.Pred(holds, "effects(obj) ; effects(index) ; effects(selection)")


def _apply(it, self, node):
    if isinstance(node, ast.Name) and node.id == "vec":
        return SObj(_Expr, f_result=it.vec, f_bound=["statements of the object expression"])
    return SObj(_Expr, f_result=3, f_bound=["statements of the index expression"])


def _subcall(it, self, fn, args, kwargs, noreturn=None):
    return SObj(_Expr, f_result="ELEMENT", f_bound=["snapshot of the index (bound to the selection)"])


con = contract("cohdl._compiler.frontend._prepare_ast:PrepareAst.apply_impl", PROPS)
NODE = ast.parse("vec[next_idx()]", mode="eval").body
c = Case("subscript-load:evaluation-order", [Built([], lambda env: SObj(_Prep, _last_apply_inp=None, _context=None), lambda a: "<self>", lambda a: None), Built([], lambda env: NODE, lambda a: "<vec[next_idx()]>", lambda a: None)], spec)
c.native = False
c.props = PROPS


def _setup(it, ctx, args, env):
    it.vec = _Vec()


c.setup = _setup
c.models = NATIVE_TRAITS + [(_Prep.apply, _apply), (_Prep.subcall, _subcall)]
c.interp_flags = {"class_call_models": {OUT.Value: lambda it, args, kw: SObj(_Expr, f_result=args[0], f_bound=list(args[1]))}}
c.custom_replay = "contracts.c03_subscript.replay_subscript_order"
con.cases.append(c)


_DESIGN = '''
from cohdl import Entity, Port, Bit, BitVector, Unsigned, Variable, std

class Top(Entity):
    clk = Port.input(Bit)
    din = Port.input(BitVector[4])
    o = Port.output(Bit)

    def architecture(self):
        v = Variable[Unsigned[2]](0, name="v")

        def next_idx():
            nonlocal v
            v @= v + 1
            return v

        @std.sequential(std.Clock(self.clk))
        def proc():
            self.o <<= self.din[next_idx()]

t = std.VhdlCompiler.to_string(Top)
p = t[t.index("proc: process"):]
lines = [l.strip() for l in p.splitlines()]
update = next(i for i, l in enumerate(lines) if l.startswith("v :="))
snapshot = next(i for i, l in enumerate(lines) if l.endswith(":= v;"))
print("SNAPSHOT_BEFORE_UPDATE" if snapshot < update else "SNAPSHOT_AFTER_UPDATE")
'''


def replay_subscript_order(payload):
    """`din[next_idx()]`: the index snapshot `temp := v;` is emitted before `v := v + 1` of the helper"""
    from contracts.c06_extra import _run_design

    rc, out = _run_design(_DESIGN)
    return {"reproduced": rc == 0 and "SNAPSHOT_BEFORE_UPDATE" in out, "detail": out[-200:]}
