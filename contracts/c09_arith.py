"""C09 / C02: operator and conversion methods of Unsigned / Signed / Integer
against the documented semantics (specs/cohdl_semantics.py).

Every contract has ONE polymorphic spec (`summary`): the cases verify the real
body against it per operand type, and callers of the function see only that
spec (modular verification)."""

from __future__ import annotations

from cohdl import Unsigned, Signed, BitVector, Integer, Null, Full

from pyvc import contracts as C
from pyvc import sym
from pyvc.contracts import Case, PyInt, Const, contract
from pyvc.values import SCls
from contracts.core_models import (
    UShape,
    SShape,
    BVShape,
    IntegerShape,
    ClsShape,
    NULL,
    FULL,
    NONE,
    U,
    S,
    INT,
    width,
    uval,
    sval,
    ival,
    is_kind,
)
from specs import cohdl_semantics as sem

PROPS = ("C09", "C02")
UMOD = "cohdl._core._unsigned:Unsigned."
SMOD = "cohdl._core._signed:Signed."
IMOD = "cohdl._core._integer:Integer."


def VSHAPE(kind):
    return UShape if kind is Unsigned else SShape


def other_kind(kind):
    return Signed if kind is Unsigned else Unsigned


def std_cases(con, kind, spec, vector_rhs=True, foreign=True, int_range=(-300, 300)):
    """same-kind vector / int literal / Integer literal / foreign operands"""
    VS = VSHAPE(kind)
    con.summary = spec
    if vector_rhs:
        con.cases.append(Case("vec", [VS("w1", "a"), VS("w2", "b")], spec))
    con.cases.append(Case("int", [VS("w1", "a"), PyInt("k", None, None, *int_range)], spec))
    con.cases.append(Case("Integer", [VS("w1", "a"), IntegerShape("k", None, None, *int_range)], spec))
    if foreign:
        con.cases.append(Case("foreign-vec", [VS("w1", "a"), VSHAPE(other_kind(kind))("w2", "b")], spec))
        con.cases.append(Case("foreign-bv", [VS("w1", "a"), BVShape("w2", "b")], spec))
        con.cases.append(Case("none", [VS("w1", "a"), NONE], spec))
    for c in con.cases:
        # proof hints (instances of proved lemma schemas, path-sensitive simplification of x mod 2**w):
        # chains of summaries (resize -> negate -> add) otherwise take 15-80 s depending on machine load
        c.interp_flags = {"arith_hints": True}
    return con


def lit_or_ni(fn, vec_op=None):
    """reflected operators: the left operand is a literal, or (vec_op given) a vector of the same kind --
    then the result is that of `b op a` with b the LEFT operand (dividend width for truncdiv, divisor width for mod / rem)"""

    def spec(sx, a, b):
        k = sem.literal(b)
        if k is None:
            if vec_op is not None and sem.kind_of(b) is sem.kind_of(a) and sem.kind_of(a) is not None:
                return sem.divop(sx, b, a, vec_op)
            return NotImplemented
        return fn(sx, a, k)

    return spec


for K in (Unsigned, Signed):
    mod = UMOD if K is Unsigned else SMOD
    VS = VSHAPE(K)

    # ---- + and - ---------------------------------------------------------------
    std_cases(contract(mod + "__add__", PROPS), K, lambda sx, a, b: sem.add(sx, a, b))
    std_cases(contract(mod + "__sub__", PROPS), K, lambda sx, a, b: sem.add(sx, a, b, sub=True))
    # reflected: only literals reach them (same-kind vectors are handled by __add__)
    std_cases(contract(mod + "__radd__", PROPS), K, lambda sx, a, b: sem.radd(sx, a, sem.literal(b)), vector_rhs=False, foreign=False)
    std_cases(contract(mod + "__rsub__", PROPS), K, lambda sx, a, b: sem.radd(sx, a, sem.literal(b), sub=True), vector_rhs=False, foreign=False)

    # ---- * -----------------------------------------------------------------------
    std_cases(contract(mod + "__mul__", PROPS), K, lambda sx, a, b: sem.mul(sx, a, b))
    std_cases(contract(mod + "__rmul__", PROPS), K, lambda sx, a, b: sem.mul(sx, a, b), vector_rhs=True)

    # ---- division family -----------------------------------------------------------
    std_cases(contract(mod + "_cohdl_truncdiv_", PROPS), K, lambda sx, a, b: sem.divop(sx, a, b, "truncdiv"))
    std_cases(contract(mod + "__mod__", PROPS), K, lambda sx, a, b: sem.divop(sx, a, b, "mod"))
    std_cases(contract(mod + "_cohdl_rem_", PROPS), K, lambda sx, a, b: sem.divop(sx, a, b, "rem"))
    # reflected division family: a same-kind VECTOR left operand is handled too (op.truncdiv(const_vector, x) ...).
    # (Until session 6 this said "Unsigned._cohdl_rrem_ is the exception: it only takes literals" -- the code's behaviour, not the
    # statement's: op.rem(constant Unsigned, run-time Unsigned) reaches this method through TypeQualifier._cohdl_rrem_ and was
    # rejected, while the same call with two run-time operands, with two constants, with Signed operands and op.truncdiv are accepted.)
    std_cases(contract(mod + "_cohdl_rtruncdiv_", PROPS), K, lit_or_ni(lambda sx, a, k: sem.rdivop(sx, a, k, "truncdiv"), "truncdiv"), vector_rhs=True, foreign=False)
    std_cases(contract(mod + "__rmod__", PROPS), K, lit_or_ni(lambda sx, a, k: sem.rdivop(sx, a, k, "mod"), "mod"), vector_rhs=True, foreign=False)
    std_cases(contract(mod + "_cohdl_rrem_", PROPS), K, lit_or_ni(lambda sx, a, k: sem.rdivop(sx, a, k, "rem"), "rem"), vector_rhs=True, foreign=False)

    # ---- shifts --------------------------------------------------------------------
    for nm, left in (("__lshift__", True), ("__rshift__", False)):

        def shift_spec(sx, a, n, left=left):
            k = sem.literal(n)
            if k is None:
                if is_kind(n, Unsigned):
                    k = uval(n)
                else:
                    # Signed amounts have no __index__: not a shift amount
                    return NotImplemented
            return sem.shift(sx, a, k, left)

        con = contract(mod + nm, PROPS)
        con.summary = shift_spec
        con.cases.append(Case("int", [VS("w1", "a"), PyInt("n", None, None, -3, 40)], shift_spec))
        con.cases.append(Case("Integer", [VS("w1", "a"), IntegerShape("n", None, None, -3, 40)], shift_spec))
        con.cases.append(Case("unsigned-amount", [VS("w1", "a"), UShape("w2", "n", max_width=6)], shift_spec))
        con.cases.append(Case("none", [VS("w1", "a"), NONE], shift_spec))

    # ---- unary -----------------------------------------------------------------------
    con = contract(mod + "__neg__", PROPS)
    con.summary = lambda sx, a: sem.neg(sx, a)
    con.cases.append(Case("v", [VS("w1", "a")], con.summary))

    # ---- comparisons -------------------------------------------------------------------
    for nm, op in (("__eq__", "eq"), ("__ne__", "ne"), ("__lt__", "lt"), ("__gt__", "gt"), ("__le__", "le"), ("__ge__", "ge")):

        def cmp_spec(sx, a, b, op=op, K=K):
            if b is Null:
                return sem.cmp(sx, a, 0, op)
            if b is Full:
                return sem.cmp(sx, a, sym.pow2(width(a)) - 1 if K is Unsigned else -1, op)
            return sem.cmp(sx, a, b, op)

        con = std_cases(contract(mod + nm, PROPS), K, cmp_spec)
        con.cases.append(Case("null", [VS("w1", "a"), NULL], cmp_spec))
        con.cases.append(Case("full", [VS("w1", "a"), FULL], cmp_spec))

    # ---- resize ------------------------------------------------------------------------
    def resize_spec(sx, a, target_width=None, *, zeros=0):
        return sem.resize(sx, a, target_width, zeros)

    con = contract(mod + "resize", PROPS)
    con.summary = resize_spec
    con.cases.append(Case("tw", [VS("w1", "a"), PyInt("tw", 1, None, 1, 20)], resize_spec))
    con.cases.append(Case("zeros", [VS("w1", "a")], resize_spec, kwargs={"zeros": PyInt("z", 0, None, 0, 8)}))
    con.cases.append(Case("both", [VS("w1", "a"), PyInt("tw", 1, None, 1, 24)], resize_spec, kwargs={"zeros": PyInt("z", 0, None, 0, 8)}))

    # ---- class-level helpers -------------------------------------------------------------
    srck = "cohdl.Unsigned" if K is Unsigned else "cohdl.Signed"
    lo = (lambda w: 0) if K is Unsigned else (lambda w: -sym.pow2(sym.to_int(w) - 1))
    hi = (lambda w: sym.pow2(w) - 1) if K is Unsigned else (lambda w: sym.pow2(sym.to_int(w) - 1) - 1)
    mk = U if K is Unsigned else S
    for nm, spec in (
        ("min_int", lambda sx, c, lo=lo: lo(c.params["width"])),
        ("max_int", lambda sx, c, hi=hi: hi(c.params["width"])),
        ("min", lambda sx, c, lo=lo, mk=mk: mk(c.params["width"], lo(c.params["width"]))),
        ("max", lambda sx, c, hi=hi, mk=mk: mk(c.params["width"], hi(c.params["width"]))),
    ):
        con = contract(mod + nm, PROPS)
        con.summary = spec
        con.cases.append(Case("c", [ClsShape(K, "w", srck)], spec))


# ---- sub(rhs, target_width) -------------------------------------------------------------
def sub_spec(sx, a, b, target_width=None):
    """a - b; an operand that cannot be subtracted is rejected one way or the
    other (NotImplemented -> TypeError at the operator, or TypeError directly)"""
    sx.domain(target_width is None)
    r = sem.add(sx, a, b, sub=True)
    if r is NotImplemented:
        if is_kind(b, Unsigned) or is_kind(b, Signed):
            return NotImplemented  # vector of the other signedness
        sx.reject(TypeError)  # no unary minus: plain BitVector, None, ...
    return r


for K in (Unsigned, Signed):
    mod = UMOD if K is Unsigned else SMOD
    std_cases(contract(mod + "sub", PROPS), K, sub_spec)
    for _c in C.CONTRACTS[mod + "sub"].cases:
        _c.timeout_factor = 4  # three chained summaries (resize, negate, add): 4 s alone, 12 s and more on a busy machine
    if K is Unsigned:
        # Unsigned.__sub__ forwards everything to sub(); Signed.__sub__ filters
        # foreign operands itself (NotImplemented)
        C.CONTRACTS[mod + "__sub__"].cases.clear()
        std_cases(contract(mod + "__sub__", PROPS), K, sub_spec)

# ---- Signed only --------------------------------------------------------------------------
con = contract(SMOD + "__abs__", PROPS)
con.summary = lambda sx, a: sem.absolute(sx, a)
con.cases.append(Case("v", [SShape("w1", "a")], con.summary))

# ---- floordiv: rejected for everything signed / literal (documented) -------------------------
rej = lambda sx, a, b: sx.reject()
for nm in ("__floordiv__", "__rfloordiv__"):
    con = contract(SMOD + nm, PROPS)
    con.summary = rej
    con.cases.append(Case("vec", [SShape("w1", "a"), SShape("w2", "b")], rej))
    con.cases.append(Case("int", [SShape("w1", "a"), PyInt("k")], rej))
    con.cases.append(Case("unsigned", [SShape("w1", "a"), UShape("w2", "b")], rej))


def u_floordiv_spec(sx, a, b):
    if sem.literal(b) is not None or is_kind(b, Signed):
        sx.reject()
    return sem.divop(sx, a, b, "truncdiv")


con = contract(UMOD + "__floordiv__", PROPS)
con.summary = u_floordiv_spec
con.cases.append(Case("vec", [UShape("w1", "a"), UShape("w2", "b")], u_floordiv_spec))
con.cases.append(Case("int", [UShape("w1", "a"), PyInt("k")], u_floordiv_spec))
con.cases.append(Case("Integer", [UShape("w1", "a"), IntegerShape("k")], u_floordiv_spec))
con.cases.append(Case("signed", [UShape("w1", "a"), SShape("w2", "b")], u_floordiv_spec))


def u_rfloordiv_spec(sx, a, b):
    if sem.literal(b) is not None or is_kind(b, Signed):
        sx.reject()
    if not is_kind(b, Unsigned):
        return NotImplemented
    # b // a with an Unsigned left operand: dividend width
    return sem.divop(sx, b, a, "truncdiv")


con = contract(UMOD + "__rfloordiv__", PROPS)
con.summary = u_rfloordiv_spec
con.cases.append(Case("int", [UShape("w1", "a"), PyInt("k")], u_rfloordiv_spec))
con.cases.append(Case("signed", [UShape("w1", "a"), SShape("w2", "b")], u_rfloordiv_spec))


# ---- upto / from_int --------------------------------------------------------------------------
def upto_spec(sx, m):
    sx.require(m >= 0)
    return SCls(Unsigned, width=sym.Ite(sym.eq(m, 0), 1, sym.bit_length(m)))


con = contract(UMOD + "upto", PROPS)
con.summary = upto_spec
con.cases.append(Case("m", [PyInt("m", None, None, -2, 5000)], upto_spec))


def u_from_int_spec(sx, v):
    v = sem.literal(v)
    sx.require(v >= 0)
    return U(sym.Ite(sym.eq(v, 0), 1, sym.bit_length(v)), v)


con = contract(UMOD + "from_int", PROPS)
con.summary = u_from_int_spec
con.cases.append(Case("int", [PyInt("v", None, None, -2, 70000)], u_from_int_spec))
con.cases.append(Case("Integer", [IntegerShape("v", None, None, -2, 70000)], u_from_int_spec))


def s_from_int_spec(sx, v):
    """the smallest Signed width that represents v"""
    v = sem.literal(v)
    n = sym.bit_length(v)
    is_neg_pow2 = sym.And(v < 0, sym.eq(-v, sym.pow2(n - 1)))
    return S(sym.Ite(is_neg_pow2, n, n + 1), v)


con = contract(SMOD + "from_int", PROPS)
con.summary = s_from_int_spec
con.cases.append(Case("int", [PyInt("v", None, None, -70000, 70000)], s_from_int_spec))
con.cases.append(Case("Integer", [IntegerShape("v", None, None, -70000, 70000)], s_from_int_spec))


# ---- exact integer truncating division helper (added by the F6 fix) ---------------------------
def int_truncdiv_spec(sx, a, b):
    sx.require(sym.Not(sym.eq(b, 0)), ZeroDivisionError)
    return sym.truncdiv(a, b)


con = contract("cohdl._core._integer:_int_truncdiv", PROPS)
con.summary = int_truncdiv_spec
con.cases.append(Case("ints", [PyInt("a", None, None, -(2**70), 2**70), PyInt("b", None, None, -(2**60), 2**60)], int_truncdiv_spec))


# ---- Integer -------------------------------------------------------------------------------------
def integer_binop(name, fn, reflected=False):
    def spec(sx, a, b):
        k = sem.literal(b)
        if k is None:
            return NotImplemented
        return INT(fn(a.fields["_val"], k))

    con = contract(IMOD + name, PROPS)
    con.summary = spec
    con.cases.append(Case("int", [IntegerShape("a"), PyInt("k")], spec))
    con.cases.append(Case("Integer", [IntegerShape("a"), IntegerShape("k")], spec))
    con.cases.append(Case("vec", [IntegerShape("a"), UShape("w", "b")], spec))
    con.cases.append(Case("none", [IntegerShape("a"), NONE], spec))


integer_binop("__add__", lambda a, k: a + k)
integer_binop("__radd__", lambda a, k: k + a)
integer_binop("__sub__", lambda a, k: a - k)
integer_binop("__rsub__", lambda a, k: k - a)
integer_binop("__mul__", lambda a, k: a * k)


def integer_div(name, op):
    def spec(sx, a, b):
        k = sem.literal(b)
        if k is None:
            return NotImplemented
        sx.domain(sym.Not(sym.eq(k, 0)))
        v = a.fields["_val"]
        return INT({"truncdiv": sym.truncdiv, "mod": sym.pymod, "rem": sym.truncrem}[op](v, k))

    con = contract(IMOD + name, PROPS)
    con.summary = spec
    con.cases.append(Case("int", [IntegerShape("a", None, None, -(2**70), 2**70), PyInt("k", None, None, -(2**60), 2**60)], spec))
    con.cases.append(Case("Integer", [IntegerShape("a"), IntegerShape("k")], spec))
    con.cases.append(Case("none", [IntegerShape("a"), NONE], spec))


integer_div("_cohdl_truncdiv_", "truncdiv")
integer_div("__mod__", "mod")
integer_div("_cohdl_rem_", "rem")


# the reflected forms (`7 * i`, `7 % i`, op.truncdiv(7, i), op.rem(7, i) with a Python int on the LEFT): "mixes with Python ints
# in either operand order".  The methods exist since the repair of session 6; that they EXIST is decided natively
# (contracts.c09_bitops.integer_operand_order_sweep), their value here.
def integer_rdiv(name, op):
    def spec(sx, a, b):
        k = sem.literal(b)
        if k is None:
            return NotImplemented
        v = a.fields["_val"]
        sx.domain(sym.Not(sym.eq(v, 0)))
        return INT({"truncdiv": sym.truncdiv, "mod": sym.pymod, "rem": sym.truncrem}[op](k, v))

    con = contract(IMOD + name, PROPS)
    con.summary = spec
    con.cases.append(Case("int", [IntegerShape("a", None, None, -(2**60), 2**60), PyInt("k", None, None, -(2**70), 2**70)], spec))
    con.cases.append(Case("Integer", [IntegerShape("a"), IntegerShape("k")], spec))
    con.cases.append(Case("none", [IntegerShape("a"), NONE], spec))


if hasattr(Integer, "__rmul__"):
    integer_binop("__rmul__", lambda a, k: k * a)
if hasattr(Integer, "_cohdl_rtruncdiv_"):
    integer_rdiv("_cohdl_rtruncdiv_", "truncdiv")
if hasattr(Integer, "__rmod__"):
    integer_rdiv("__rmod__", "mod")
if hasattr(Integer, "_cohdl_rrem_"):
    integer_rdiv("_cohdl_rrem_", "rem")

for nm, f in (
    ("__eq__", lambda a, k: sym.eq(a, k)),
    ("__ne__", lambda a, k: sym.Not(sym.eq(a, k))),
    ("__lt__", lambda a, k: sym.to_z3(a) < k if sym.is_sym(a) or sym.is_sym(k) else a < k),
    ("__gt__", lambda a, k: sym.to_z3(a) > k if sym.is_sym(a) or sym.is_sym(k) else a > k),
    ("__le__", lambda a, k: sym.to_z3(a) <= k if sym.is_sym(a) or sym.is_sym(k) else a <= k),
    ("__ge__", lambda a, k: sym.to_z3(a) >= k if sym.is_sym(a) or sym.is_sym(k) else a >= k),
):

    def spec(sx, a, b, f=f):
        k = sem.literal(b)
        if k is None:
            return NotImplemented
        return f(a.fields["_val"], k)

    con = contract(IMOD + nm, PROPS)
    con.summary = spec
    con.cases.append(Case("int", [IntegerShape("a"), PyInt("k")], spec))
    con.cases.append(Case("Integer", [IntegerShape("a"), IntegerShape("k")], spec))
    con.cases.append(Case("none", [IntegerShape("a"), NONE], spec))

con = contract(IMOD + "__neg__", PROPS)
con.summary = lambda sx, a: INT(-a.fields["_val"])
con.cases.append(Case("v", [IntegerShape("a")], con.summary))

for _q in ("floordiv",):
    for nm in ("__floordiv__", "__rfloordiv__"):
        con = contract(IMOD + nm, PROPS)
        con.summary = rej
        con.cases.append(Case("int", [IntegerShape("a"), PyInt("k")], rej))


# ---- cohdl.op.truncdiv / rem --------------------------------------------------------------------
def op_spec(opname):
    def spec(sx, a, b):
        la, lb = sem.literal(a), sem.literal(b)
        if sym.is_intlike(a) and sym.is_intlike(b):
            sx.require(sym.Not(sym.eq(b, 0)), ZeroDivisionError)
            return sym.truncdiv(a, b) if opname == "truncdiv" else sym.truncrem(a, b)
        if is_kind(a, Integer):
            if lb is None and (is_kind(b, Unsigned) or is_kind(b, Signed)):
                # Integer._cohdl_<op>_ does not know vectors (NotImplemented): the REFLECTED method of the vector decides
                return sem.rdivop(sx, b, la, opname)
            if lb is None:
                sx.unspecified()
            sx.domain(sym.Not(sym.eq(lb, 0)))
            return INT(sym.truncdiv(la, lb) if opname == "truncdiv" else sym.truncrem(la, lb))
        if is_kind(a, Unsigned) or is_kind(a, Signed):
            if (is_kind(b, Unsigned) or is_kind(b, Signed)) and is_kind(a, Unsigned) != is_kind(b, Unsigned):
                # Unsigned with Signed: neither operand's method knows the other kind (`%` and `*` raise TypeError for the
                # pair); the function must REJECT -- NotImplemented is not a value of any type
                sx.reject()
            r = sem.divop(sx, a, b, opname)
            if r is NotImplemented:
                sx.unspecified()
            return r
        if la is not None and (is_kind(b, Unsigned) or is_kind(b, Signed)):
            return sem.rdivop(sx, b, la, opname)
        sx.unspecified()

    return spec


for opname in ("truncdiv", "rem"):
    con = contract(f"cohdl._core._op:{opname}", PROPS)
    spec = op_spec(opname)
    con.summary = spec
    big = (-(2**70), 2**70)
    con.cases.append(Case("int-int", [PyInt("a", None, None, *big), PyInt("b", None, None, -(2**60), 2**60)], spec))
    con.cases.append(Case("u-u", [UShape("w1", "a"), UShape("w2", "b")], spec))
    con.cases.append(Case("s-s", [SShape("w1", "a"), SShape("w2", "b")], spec))
    con.cases.append(Case("u-s", [UShape("w1", "a"), SShape("w2", "b")], spec))
    con.cases.append(Case("s-u", [SShape("w1", "a"), UShape("w2", "b")], spec))
    con.cases.append(Case("u-int", [UShape("w1", "a"), PyInt("k")], spec))
    con.cases.append(Case("s-int", [SShape("w1", "a"), PyInt("k")], spec))
    con.cases.append(Case("int-u", [PyInt("k"), UShape("w1", "a")], spec))
    con.cases.append(Case("int-s", [PyInt("k"), SShape("w1", "a")], spec))
    con.cases.append(Case("Integer-int", [IntegerShape("a"), PyInt("k")], spec))
    con.cases.append(Case("Integer-u", [IntegerShape("k"), UShape("w1", "a")], spec))
    con.cases.append(Case("Integer-s", [IntegerShape("k"), SShape("w1", "a")], spec))
