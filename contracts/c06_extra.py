"""C06 extra obligations decided by finite, mechanical enumeration over the
real source (complete for the enumerated space):

reserved_covers_emitted: every predefined identifier the backend itself emits
  (extracted on every run from the string literals / f-strings of the emitter
  modules) is in the set of names a user object can never receive
  (ModuleScope()._used_names, read from the real class).
"""

from __future__ import annotations

import ast
import os
import re

from pyvc import REPO

EMITTERS = ["cohdl/_compiler/backend/vhdl/_vhdl_repr.py", "cohdl/_compiler/backend/vhdl/_vhdl_assembler.py"]

# VHDL-93 predefined / ieee names (standard, std_logic_1164, numeric_std): the
# vocabulary against which emitted literal text is matched
PREDEFINED = {
    "boolean", "bit", "bit_vector", "character", "integer", "natural", "positive", "real", "string", "time", "severity_level",
    "true", "false", "now", "std_logic", "std_ulogic", "std_logic_vector", "std_ulogic_vector", "signed", "unsigned",
    "to_integer", "to_unsigned", "to_signed", "resize", "shift_left", "shift_right", "rotate_left", "rotate_right",
    "rising_edge", "falling_edge", "to_x01", "to_01", "is_x", "std_match", "to_bit", "to_bitvector", "to_stdlogicvector", "to_stdulogic",
    "ieee", "std", "work", "std_logic_1164", "numeric_std", "numeric_bit", "textio", "standard",
}

_IDENT = re.compile(r"[A-Za-z][A-Za-z0-9_]*")


def literal_pieces(path):
    """all literal string pieces (plain constants and the constant parts of
    f-strings) of a module, except docstrings / assert messages / raise messages"""
    with open(path) as f:
        tree = ast.parse(f.read())
    skip = set()
    for n in ast.walk(tree):
        if isinstance(n, ast.Assert) and n.msg is not None:
            skip.update(id(x) for x in ast.walk(n.msg))
        if isinstance(n, ast.Raise) and n.exc is not None:
            skip.update(id(x) for x in ast.walk(n.exc))
        if isinstance(n, (ast.FunctionDef, ast.ClassDef, ast.Module)) and n.body and isinstance(n.body[0], ast.Expr) and isinstance(n.body[0].value, ast.Constant):
            skip.add(id(n.body[0].value))
    out = []
    for n in ast.walk(tree):
        if isinstance(n, ast.Constant) and isinstance(n.value, str) and id(n) not in skip:
            out.append((n.lineno, n.value))
    return out


def emitted_identifiers():
    """identifiers the emitter writes itself: (a) anything immediately followed
    by '(' or "'(" in a literal piece (function / conversion / qualification),
    (b) any literal word that is a predefined VHDL name, (c) the helper function
    the emitter declares"""
    found = {}
    for rel in EMITTERS:
        for lineno, text in literal_pieces(os.path.join(REPO, rel)):
            for m in _IDENT.finditer(text):
                w = m.group(0)
                after = text[m.end() : m.end() + 2]
                if after.startswith("(") or after.startswith("'("):
                    found.setdefault(w.lower(), f"{rel}:{lineno}")
                elif w.lower() in PREDEFINED:
                    found.setdefault(w.lower(), f"{rel}:{lineno}")
                elif w.startswith("cohdl_"):
                    found.setdefault(w.lower(), f"{rel}:{lineno}")
    return found


def reserved_covers_emitted(tier="quick", seed=0):
    import importlib

    VR = importlib.import_module("cohdl._compiler.backend.vhdl._vhdl_repr")
    used = set(VR.ModuleScope()._used_names)
    user = set(VR.ModuleScope(additional_reserved_names={"my_reserved"})._used_names)
    emitted = emitted_identifiers()
    obligations = 0
    discharged = 0
    violations = []
    samples = []
    keywords_not_names = {"downto", "to", "others", "is", "of", "if", "then", "else", "elsif", "end", "case", "when", "process", "begin", "signal", "variable", "constant", "type", "array", "attribute", "entity", "architecture", "port", "map", "generic", "in", "out", "inout", "library", "use", "all", "not", "and", "or", "xor", "mod", "rem", "abs", "with", "select", "function", "return", "component", "for", "generate", "loop", "while", "null", "wait", "until", "on", "after", "range", "open", "block", "package", "body", "alias"}
    missing = []
    for w, where in sorted(emitted.items()):
        obligations += 1
        if w in used:
            discharged += 1
        else:
            missing.append((w, where))
    obligations += 1
    if "my_reserved" in user:
        discharged += 1
    else:
        missing.append(("<user reserved names are not honoured>", "ModuleScope.__init__"))
    # VHDL names are not case sensitive and complete_setup tests `name.lower() in used_names`: a reserved name given in
    # another spelling must be found by that test
    obligations += 1
    if "foo_reserved" in set(VR.ModuleScope(additional_reserved_names={"FOO_Reserved"})._used_names):
        discharged += 1
    else:
        missing.append(("<user reserved names are compared case sensitively>", "ModuleScope.__init__"))
    for w, where in missing:
        violations.append({
            "kind": "custom", "counted": True, "qual": "<C06 reserved_covers_emitted>", "case": w, "oid": f"C06/reserved_covers_emitted[{w}]", "check": "reserved_covers_emitted", "key": w,
            "assignment": {"identifier": w, "emitted_at": where}, "solver": {"identifier": w, "emitted_at": where, "reserved": False}, "reproduced": True,
            "replay_payload": {"property": "C06", "custom": "contracts.c06_extra.replay_reserved", "identifier": w, "obligation": f"C06/reserved_covers_emitted[{w}]", "verifier_output": f"{w} is emitted at {where} but a user object may be named {w}"},
        })
    samples.append({"emitted_identifiers": sorted(emitted)[:40]})
    return {"obligations": obligations, "discharged": discharged, "violations": violations, "samples": samples,
            "functions": {"ModuleScope reserved sets": {"function": "cohdl/_compiler/backend/vhdl/_vhdl_repr.py ModuleScope._vhdl_reserved/_additional_reserved", "contract": "enumerated", "cases": [f"{len(emitted)} emitted identifiers"]}},
            "coverage": {"emitted_identifiers": len(emitted), "exhaustive": True}}


def replay_reserved(payload):
    """compile a design whose port is named like the emitted identifier"""
    import importlib

    VR = importlib.import_module("cohdl._compiler.backend.vhdl._vhdl_repr")
    w = payload["identifier"]
    if w.startswith("<user reserved names are compared"):
        rc, out = _run_design(_RESERVED_CASE_DESIGN)
        return {"reproduced": rc == 0 and "KEEPS-NAME" in out, "detail": out[-300:]}
    taken = w in VR.ModuleScope()._used_names
    return {"reproduced": not taken, "detail": f"ModuleScope()._used_names contains {w!r}: {taken}; a user object named {w!r} keeps its name and hides the predefined {w!r} the emitted text relies on"}


def balanced_templates(tier="quick", seed=0):
    """every text template of the emitter (plain literal or f-string) has balanced
    parentheses once the interpolated expressions are removed -- an emitted
    expression can then only be unbalanced if an operand is"""
    obligations = discharged = 0
    violations = []
    samples = []
    for rel in EMITTERS:
        path = os.path.join(REPO, rel)
        with open(path) as f:
            tree = ast.parse(f.read())
        skip = set()
        for n in ast.walk(tree):
            if isinstance(n, ast.Assert) and n.msg is not None:
                skip.update(id(x) for x in ast.walk(n.msg))
            if isinstance(n, ast.Raise) and n.exc is not None:
                skip.update(id(x) for x in ast.walk(n.exc))
        for n in ast.walk(tree):
            if isinstance(n, ast.JoinedStr) and id(n) not in skip:
                lit = "".join(v.value for v in n.values if isinstance(v, ast.Constant) and isinstance(v.value, str))
                if "(" not in lit and ")" not in lit:
                    continue
                obligations += 1
                depth = 0
                ok = True
                for ch in lit:
                    if ch == "(":
                        depth += 1
                    elif ch == ")":
                        depth -= 1
                        if depth < 0:
                            ok = False
                if depth != 0:
                    ok = False
                # templates that intentionally open / close a multi-line construct
                if not ok and re.fullmatch(r"\s*(port map|generic map|port|generic|type \w* is|.*is array)?\s*\(\s*", lit.strip() or "("):
                    ok = True
                if ok:
                    discharged += 1
                    if len(samples) < 3:
                        samples.append({"template": lit, "at": f"{rel}:{n.lineno}"})
                else:
                    key = f"{rel}:{lit}"
                    violations.append({
                        "kind": "custom", "counted": True, "qual": "<C06 balanced_templates>", "case": lit, "oid": f"C06/balanced_templates[{rel}:{n.lineno}]", "check": "balanced_templates", "key": key,
                        "assignment": {"template": lit, "at": f"{rel}:{n.lineno}"}, "solver": {"template": lit}, "reproduced": True,
                        "replay_payload": {"property": "C06", "custom": "contracts.c06_extra.replay_template", "template": lit, "file": rel, "obligation": f"C06/balanced_templates[{rel}:{n.lineno}]", "verifier_output": f"unbalanced parentheses in emitted text template {lit!r}"},
                    })
    return {"obligations": obligations, "discharged": discharged, "violations": violations, "samples": samples, "coverage": {"templates_with_parentheses": obligations, "exhaustive": True}}


def replay_template(payload):
    with open(os.path.join(REPO, payload["file"])) as f:
        tree = ast.parse(f.read())
    for n in ast.walk(tree):
        if isinstance(n, ast.JoinedStr):
            lit = "".join(v.value for v in n.values if isinstance(v, ast.Constant) and isinstance(v.value, str))
            if lit == payload["template"]:
                return {"reproduced": True, "detail": f"template {lit!r} still present at line {n.lineno}"}
    return {"reproduced": False, "detail": "template no longer present"}


_EMPTY_SENS = '''
from cohdl import Entity, Port, Bit, std
class E(Entity):
    o = Port.output(Bit)
    def architecture(self):
        @std.sequential
        def p():
            self.o <<= True
print([l.strip() for l in std.VhdlCompiler.to_string(E).split("\\n") if "process(" in l])
'''

_SELECT_NO_DEFAULT = '''
import cohdl
from cohdl import Entity, Port, Bit, BitVector, std
class E(Entity):
    s = Port.input(BitVector[2])
    a = Port.input(Bit)
    o = Port.output(Bit)
    def architecture(self):
        @std.concurrent
        def p():
            self.o <<= cohdl.select_with(self.s, {"00": self.a, "01": ~self.a, "10": self.a, "11": ~self.a})  # every 0/1 value listed: accepted without default
t = std.VhdlCompiler.to_string(E)
i = t.find("with ")
print(t[i:t.find(";", i) + 1].replace("\\n", " "))
'''


_RESERVED_CASE_DESIGN = '''
from cohdl import Entity, Port, Bit, Signal, std
class E(Entity):
    a = Port.input(Bit)
    o = Port.output(Bit)
    def architecture(self):
        s = Signal[Bit](name="foo_reserved")
        @std.concurrent
        def logic():
            s.next = self.a
            self.o <<= s
t = std.VhdlCompiler.to_string(E, additional_reserved_names={"FOO_Reserved"})
print("KEEPS-NAME" if "signal foo_reserved :" in t else "RENAMED")
'''

_IDENTIFIER_DESIGN = '''
import re
from cohdl import Entity, Port, Bit, Signal, std
class E(Entity):
    a = Port.input(Bit)
    o = Port.output(Bit)
    def architecture(self):
        x__y = Signal[Bit]()
        digit = Signal[Bit](name="1x")
        under = Signal[Bit](name="_")
        odd = Signal[Bit](name="a-b c")
        @std.concurrent
        def logic():
            x__y.next = self.a
            digit.next = x__y
            under.next = digit
            odd.next = under
            self.o <<= odd
t = std.VhdlCompiler.to_string(E)
names = re.findall(r"^\\s*signal (.*?) :", t, re.M)
bad = [n for n in names if not re.fullmatch(r"[a-zA-Z](_?[a-zA-Z0-9])*", n)]
print("ILLEGAL" if bad else "LEGAL", names)
'''


_SELECT_DEFAULT_HINT = '''
import cohdl
from cohdl import Entity, Port, Bit, Unsigned, std
class E(Entity):
    c = Port.input(Bit)
    a = Port.input(Unsigned[16])
    b = Port.input(Unsigned[4])
    o = Port.output(Unsigned[16])
    def architecture(self):
        @std.concurrent
        def logic():
            self.o <<= self.a if self.c else self.b     # the narrower alternative is the `when others` value
t = std.VhdlCompiler.to_string(E)
i = t.find("with ")
stmt = t[i:t.find(";", i) + 1].replace("\\n", " ")
print("UNCONVERTED-DEFAULT" if "resize(b" not in stmt.replace(" ", "") and "b when others" in stmt else "CONVERTED", stmt)
'''


def replay_select_default_hint(payload):
    rc, out = _run_design(_SELECT_DEFAULT_HINT)
    return {"reproduced": rc == 0 and "UNCONVERTED-DEFAULT" in out, "detail": out[-300:]}


def replay_invalid_identifier(payload):
    rc, out = _run_design(_IDENTIFIER_DESIGN)
    return {"reproduced": rc == 0 and "ILLEGAL" in out, "detail": out[-300:]}


_BASIC_IDENTIFIER = r"[a-zA-Z](_?[a-zA-Z0-9])*"


def identifier_sweep(tier="quick", seed=0):
    """BOUNDED: VhdlScope._valid_identifier against the LRM grammar of a basic identifier, exhaustively over all strings up
    to length 4 (quick) / 5 (thorough) over an alphabet with one representative per character class, times the fallbacks
    complete_setup passes.  A legal identifier must come back unchanged (declared port / entity names are compared with it)."""
    import importlib
    import itertools
    import re

    VR = importlib.import_module("cohdl._compiler.backend.vhdl._vhdl_repr")
    fn = VR.VhdlScope.__dict__.get("_valid_identifier")
    if fn is None:
        # the function the complete_setup contract relies on is gone: that contract's valid-identifier obligation decides
        return {"evaluations": 0, "distinct": 0, "violations": [], "samples": [{"note": "VhdlScope._valid_identifier not present"}], "bounded": []}
    fn = fn.__func__
    alphabet = ["a", "Z", "7", "_", "-", " ", "é", "."]
    max_len = 4 if tier == "quick" else 5
    n = 0
    fails = {}
    for length in range(0, max_len + 1):
        for chars in itertools.product(alphabet, repeat=length):
            s = "".join(chars)
            for fallback in (None, "sig", "array_type"):
                n += 1
                try:
                    got = fn(s, fallback)
                except Exception as e:  # noqa: BLE001
                    fails.setdefault("raises", f"_valid_identifier({s!r}, {fallback!r}) raised {type(e).__name__}: {e}")
                    continue
                if not (isinstance(got, str) and re.fullmatch(_BASIC_IDENTIFIER, got)):
                    fails.setdefault("result is not a basic identifier", f"_valid_identifier({s!r}, {fallback!r}) = {got!r}")
                elif re.fullmatch(_BASIC_IDENTIFIER, s) and got != s:
                    fails.setdefault("changes a legal identifier", f"_valid_identifier({s!r}, {fallback!r}) = {got!r}")
    violations = []
    for key, what in sorted(fails.items()):
        oid = f"C06/identifier-sweep[{key}]#bounded"
        violations.append({"kind": "custom", "qual": "<C06 identifier sweep>", "case": key, "oid": oid, "check": "identifier_sweep", "key": key, "assignment": {"deviation": key}, "solver": {"what": what}, "reproduced": True,
                           "replay_payload": {"property": "C06", "custom": "contracts.c06_extra.replay_identifier_sweep", "key": key, "tier": tier, "obligation": oid, "verifier_output": what}})
    return {"evaluations": n, "distinct": n, "violations": violations, "samples": [{"alphabet": alphabet, "max_length": max_len}],
            "bounded": [{"function": "cohdl._compiler.backend.vhdl._vhdl_repr:VhdlScope._valid_identifier", "case": "all strings over the class alphabet", "evaluations": n, "exhaustive_within_bound": True,
                         "bound": f"strings of length <= {max_len} over {alphabet} x fallbacks (None, 'sig', 'array_type')"}]}


def replay_identifier_sweep(payload):
    r = identifier_sweep(payload.get("tier", "quick"), 0)
    hit = [v for v in r["violations"] if v["key"] == payload["key"]]
    return {"reproduced": bool(hit), "detail": hit[0]["solver"] if hit else "every result is a basic identifier"}


_DUPLICATE_CHOICES = '''
import re
from cohdl import std, Entity, Port, Bit, BitVector, Unsigned, select_with
class E(Entity):
    a = Port.input(Unsigned[2])
    b = Port.input(BitVector[2])
    r = Port.output(Bit)
    s = Port.output(Bit)
    def architecture(self):
        @std.sequential
        def proc():
            match self.b:
                case "01":
                    self.r <<= True
                case "10":
                    self.r <<= False
                case "01":
                    self.r <<= False
        @std.concurrent
        def logic():
            self.s <<= select_with(self.a, {1: self.b[0], 2: self.b[1], Unsigned[2](1): self.b[1]}, default=self.b[0])
t = std.VhdlCompiler.to_string(E)
case_choices = re.findall(r"when (\\S+) =>", t)
select_choices = re.findall(r"when (\\S+)[,;]", t)
print("CASE", case_choices, "SELECT", select_choices)
print("DUPLICATES" if len(set(case_choices)) != len(case_choices) or len(set(select_choices)) != len(select_choices) else "DISTINCT")
'''


def replay_duplicate_choices(payload):
    rc, out = _run_design(_DUPLICATE_CHOICES)
    return {"reproduced": rc == 0 and "DUPLICATES" in out, "detail": out[-400:]}


def _run_design(src):
    import subprocess, sys

    import tempfile, shutil

    env = dict(os.environ)
    env["PYTHONPATH"] = REPO
    d = tempfile.mkdtemp(prefix="pyvc_design_")
    try:
        path = os.path.join(d, "design.py")
        with open(path, "w") as f:
            f.write(src)  # cohdl reads the source of the design with inspect
        p = subprocess.run(["/venv/bin/python", path], env=env, capture_output=True, text=True, timeout=120, cwd=d)
        return p.returncode, (p.stdout + p.stderr).strip()
    finally:
        shutil.rmtree(d, ignore_errors=True)


def replay_empty_sensitivity(payload):
    rc, out = _run_design(_EMPTY_SENS)
    return {"reproduced": rc == 0 and "process()" in out, "detail": out[-300:]}


def replay_select_no_default(payload):
    rc, out = _run_design(_SELECT_NO_DEFAULT)
    return {"reproduced": rc == 0 and "with " in out and "others" not in out, "detail": out[-300:]}
