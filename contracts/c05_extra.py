"""C05 / C03, mechanical and exhaustive over the class: every way to WRITE a type-qualified object is synthesizable or rejected.

A property setter of TypeQualifier (and its subclasses) marked `_intrinsic` is evaluated by the tracer at compile time on
the object's placeholder value.  For a setter that writes the wrapped value that means: inside a synthesizable context the
statement `x.<prop> = v` is accepted, changes nothing in the hardware and emits nothing -- an assignment that is neither
performed (value preserved) nor rejected.  Every such setter must therefore have an `_intrinsic_replacement` (which
produces an assignment statement, or raises).

setter_replacements enumerates the property setters of TypeQualifier, Signal, Variable, Temporary, Port and checks that
each is registered in cohdl._core._intrinsic._intrinsic_replacements.
"""

from __future__ import annotations

import cohdl
from cohdl._core import _intrinsic as INTR
from cohdl._core import _type_qualifier as TQ

CLASSES = ("TypeQualifierBase", "TypeQualifier", "Signal", "Variable", "Temporary", "Port")


def value_setters():
    out = []
    for cname in CLASSES:
        cls = getattr(TQ, cname, None)
        if cls is None:
            continue
        for name, attr in vars(cls).items():
            if isinstance(attr, property) and attr.fset is not None:
                out.append((cname, name, attr.fset))
    return out


def setter_replacements(tier="quick", seed=0):
    obligations = discharged = 0
    violations = []
    samples = []
    for cname, name, fset in value_setters():
        obligations += 1
        intrinsic = fset in INTR._intrinsic_functions
        replaced = fset in INTR._intrinsic_replacements
        samples.append({"setter": f"{cname}.{name}", "intrinsic": intrinsic, "replacement": replaced})
        if replaced or not intrinsic:
            # not intrinsic: the tracer interprets the setter's body like any other function (its statements are translated)
            discharged += 1
            continue
        key = f"{cname}.{name}-setter-has-no-synthesizable-replacement"
        oid = f"C05/setter_replacements[{cname}.{name}]"
        violations.append({
            "kind": "custom", "counted": True, "qual": "<C05 setter replacements>", "case": f"{cname}.{name}", "oid": oid, "check": "setter_replacements", "key": key,
            "assignment": {"setter": f"cohdl._core._type_qualifier:{cname}.{name}"}, "solver": {"what": f"`x.{name} = value` inside a synthesizable context is evaluated on the compile-time placeholder only: accepted, nothing emitted"}, "reproduced": True,
            "replay_payload": {"property": "C05", "custom": "contracts.c05_extra.replay_setter", "setter": name, "obligation": oid, "verifier_output": f"{cname}.{name}.fset is intrinsic and has no _intrinsic_replacement"},
        })
    if obligations == 0:
        violations.append({"kind": "custom", "counted": True, "qual": "<C05 setter replacements>", "case": "vacuous", "oid": "C05/setter_replacements[vacuous]", "check": "setter_replacements", "key": "vacuous", "assignment": {},
                           "solver": {"what": "no property setters found: the enumeration is vacuous"}, "reproduced": True, "replay_payload": {"property": "C05", "obligation": "C05/setter_replacements[vacuous]", "verifier_output": "vacuous"}})
    return {"obligations": obligations, "discharged": discharged, "violations": violations, "samples": samples,
            "functions": {"write access": {"function": "cohdl/_core/_type_qualifier.py property setters", "contract": "enumerated", "cases": [f"{obligations} setters"]}},
            "coverage": {"setters": obligations, "exhaustive": True}}


_DESIGN = '''
from __future__ import annotations
import re
from cohdl import Entity, Port, Bit, BitVector, Unsigned, std

class E(Entity):
    clk = Port.input(Bit)
    inp = Port.input(BitVector[8])
    o = Port.output(BitVector[8])

    def architecture(self):
        @std.sequential(std.Clock(self.clk))
        def proc():
            self.o.%s = self.inp%s

try:
    t = std.VhdlCompiler.to_string(E)
    body = t[t.index("proc: process"):]
    print("ACCEPTED", "ASSIGNED" if re.search(r"buffer_o\\s*<=", body) else "NOTHING_EMITTED")
except AssertionError as e:
    print("REJECTED")
'''


def replay_setter(payload):
    from contracts.c06_extra import _run_design

    name = payload["setter"]
    view = {"unsigned": ".unsigned", "signed": ".signed", "bitvector": ""}.get(name, "")
    rc, out = _run_design(_DESIGN % (name, view))
    return {"reproduced": "NOTHING_EMITTED" in out, "detail": out[-200:]}
