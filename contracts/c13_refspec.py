"""C13 / C03 / C02: Offset.simplify and Slice.simplify keep the position a reference denotes.

A reference path entry denotes the position  offset + sum(base_offset)  (Offset) resp. the range
[start + sum(base_offset) : stop + sum(base_offset)]  (Slice) inside its parent; base_offset collects the lower
bounds of the enclosing slices, constants and run-time values mixed.  simplify() only folds the constants:
    * the constant part of the denoted position is unchanged (symbolic integers),
    * the run-time parts are the same objects in the same order,
    * afterwards at most one constant remains in base_offset, and none when the offset itself is a constant.
(`sig[7:4][idx]` with a run-time idx denotes bit idx + 4; dropping the 4 would address bit idx.)
"""

from __future__ import annotations

import itertools

from cohdl import Signal
from cohdl._core._type_qualifier import Offset, Slice

from pyvc import contracts as C
from pyvc import sym
from pyvc.contracts import Case, contract
from pyvc.values import SObj
from contracts.c05_format_cast import Built

PROPS = ("C13", "C03", "C02")


def rt(tag):
    return SObj(Signal, _ref_spec=[], f_tag=tag)


def base_shape(kinds):
    """base_offset list: 'c' symbolic constant, 'r' run-time value"""
    names = [f"c{i}" for i, k in enumerate(kinds) if k == "c"]

    def build(env):
        return [env[f"c{i}"] if k == "c" else rt(f"r{i}") for i, k in enumerate(kinds)]

    return names, build


def denot(base):
    const = 0
    runtime = []
    for b in base:
        if isinstance(b, SObj):
            runtime.append(b)
        else:
            const = const + b
    return const, runtime


def offset_spec(kinds, rt_offset):
    def spec(sx, self):
        real = sx.real_args[0]
        c0, r0 = denot(sx.it.entry_base)
        off0 = sx.it.entry_offset

        def holds(res):
            if res is not None or not _entry_list_untouched(sx.it):
                return False
            base, off = real.fields["base_offset"], real.fields["offset"]
            c1, r1 = denot(base)
            if len(r1) != len(r0) or any(a is not b for a, b in zip(r1, r0)):
                return False
            n_const = sum(1 for b in base if not isinstance(b, SObj))
            if rt_offset:
                ok = off is off0 and n_const <= 1 and sx.it.ctx.entails(sym.to_z3(sym.to_int(c1)) == sym.to_z3(sym.to_int(c0)))
            else:
                ok = n_const == 0 and sx.it.ctx.entails(sym.to_z3(sym.to_int(off)) == sym.to_z3(sym.to_int(off0 + c0)))
            return bool(ok)

        return C.Pred(holds, "denoted position unchanged: constants folded, run-time parts kept in order")

    return spec


def _entry_list_untouched(it):
    """frame: RefSpec.copy() hands the SAME base_offset list to the copy (every cast view .unsigned / .signed / .bitvector of a
    reference is such a copy) -- simplify must not change that list object, only rebind its own attribute"""
    obj, before = it.entry_list_obj, it.entry_base
    return len(obj) == len(before) and all(a is b for a, b in zip(obj, before))


def slice_spec(kinds):
    def spec(sx, self):
        real = sx.real_args[0]
        c0, r0 = denot(sx.it.entry_base)
        s0, t0 = sx.it.entry_offset

        def holds(res):
            if res is not None or not _entry_list_untouched(sx.it):
                return False
            base = real.fields["base_offset"]
            c1, r1 = denot(base)
            if len(r1) != len(r0) or any(a is not b for a, b in zip(r1, r0)) or any(not isinstance(b, SObj) for b in base):
                return False
            ent = sx.it.ctx.entails
            return bool(ent(sym.to_z3(sym.to_int(real.fields["start"])) == sym.to_z3(sym.to_int(s0 + c0))) and ent(sym.to_z3(sym.to_int(real.fields["stop"])) == sym.to_z3(sym.to_int(t0 + c0))))

        return C.Pred(holds, "denoted range unchanged")

    return spec


ocon = contract("cohdl._core._type_qualifier:Offset.simplify", PROPS)
scon = contract("cohdl._core._type_qualifier:Slice.simplify", PROPS)
for n in range(0, 4):
    for kinds in itertools.product("cr", repeat=n):
        names, build = base_shape(kinds)
        tag = "".join(kinds) or "empty"
        for rt_offset in (False, True):
            def mk(env, build=build, rt_offset=rt_offset):
                return SObj(Offset, offset=rt("idx") if rt_offset else env["off"], base_offset=build(env), obj=None)

            c = Case(f"base-[{tag}],{'run-time' if rt_offset else 'constant'}-offset", [Built(names + ([] if rt_offset else ["off"]), mk, lambda a: "None", lambda a: None)], offset_spec(kinds, rt_offset))
            c.native = False

            def setup(it, ctx, args, env):
                it.entry_list_obj = args[0].fields["base_offset"]
                it.entry_base = list(args[0].fields["base_offset"])
                it.entry_offset = args[0].fields["offset"]

            c.setup = setup
            ocon.cases.append(c)

        def mks(env, build=build):
            return SObj(Slice, start=env["hi"], stop=env["lo"], base_offset=build(env), obj=None)

        c = Case(f"base-[{tag}]", [Built(names + ["hi", "lo"], mks, lambda a: "None", lambda a: None)], slice_spec(kinds))
        c.native = False

        def setup_s(it, ctx, args, env):
            it.entry_list_obj = args[0].fields["base_offset"]
            it.entry_base = list(args[0].fields["base_offset"])
            it.entry_offset = (args[0].fields["start"], args[0].fields["stop"])

        c.setup = setup_s
        scon.cases.append(c)


# C17 ("BitField fields read and write exactly their declared bit ranges", nested records deserialised with std.Ref): the offsets
# of the enclosing slices are folded by these two functions
for _q in ("Offset.simplify", "Slice.simplify"):
    contract("cohdl._core._type_qualifier:" + _q, ("C17",))
