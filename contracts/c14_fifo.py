"""C14: std.Fifo and std.Stack -- step contracts of the REAL methods over a
ghost model of signals, for SYMBOLIC capacity N, indices, memory content and data.

Signal semantics (assumed, the VHDL meaning of what the methods emit): inside a
clocked context `s <<= v` schedules v as the value of s for the next clock
(the last assignment wins), reads see the value at the beginning of the clock;
`mem.set_elem(i, d)` schedules mem[i := d] with the CURRENT value of i,
`mem.get_elem(i)` reads the current memory at the current value of i.
An index signal of type Unsigned.upto(m) has width bit_length(m); `index + 1`
wraps modulo 2**width (C09 contract of Unsigned.__add__ with a literal).

Abstract view of a Fifo with write index wr, read index rd, capacity N:
    size    = (wr - rd) mod N
    elem(k) = mem[(rd + k) mod N]      for 0 <= k < size
Proved for every state with 0 <= wr, rd < N (N a power of two, or not):
    _next_index(i)      == (i + 1) mod N
    empty <=> size == 0 ;  full <=> size == N - 1          (the concurrent block of __init__)
    push(d), not full :  after the clock  size' = size + 1, elem'(k) = elem(k) (k < size), elem'(size) = d
    pop(),  not empty :  returns elem(0); after the clock size' = size - 1, elem'(k) = elem(k + 1)
    push and pop in the same clock (either order), neither full nor empty:
                         returns elem(0); size' = size; elem'(k) = elem(k+1) (k < size-1), elem'(size-1) = d
  and locally, also when producer and consumer use separate synchronised index signals:
    push writes memory at, and advances, the producer's own index (_set_write_index);
    pop / front read memory at, and pop advances, the consumer's own index (_set_read_index).
Stack (index = number of stored elements in NO_OVERFLOW mode; ring index + count in DROP_OLD mode):
    push / pop / front / reset / empty / full / size against the list view, one operation per clock.
"""

from __future__ import annotations

import z3

from cohdl.std import utility as SU
from cohdl.std.utility import Fifo, Stack, StackMode

from pyvc import contracts as C
from pyvc import interp as I
from pyvc import sym
from pyvc.contracts import Case, contract
from pyvc.values import SObj, Opaque
from contracts.c05_format_cast import Built

PROPS = ("C14",)
P2 = sym.pow2
IntS = z3.IntSort()
ISP2 = z3.Function("is_pow_two", IntS, z3.BoolSort())


# ---- ghost signals -------------------------------------------------------------------------------------------------
class _Sig:
    """clocked signal holding an unsigned integer of width f_w (f_w None: a Bit / unbounded ghost)"""


class _UVal:
    """unsigned value of width f_w"""


class _Mem:
    """memory signal: z3 array cur, scheduled writes"""


def sig(name, w, cur):
    return SObj(_Sig, f_name=name, f_w=w, f_cur=cur, f_nxt=None)


def val_of(x):
    if isinstance(x, SObj) and x.kind is _Sig:
        return x.fields["f_cur"]
    if isinstance(x, SObj) and x.kind is _UVal:
        return x.fields["f_v"]
    if sym.is_intlike(x):
        return sym.to_int(x)
    raise AssertionError(f"not a value: {x!r}")


def width_of(x):
    return x.fields["f_w"]


def _wrap(v, w):
    return v if w is None else sym.wrap_unsigned(v, w)


def _sig_assign(it, self, v):
    self.fields["f_nxt"] = val_of(v)
    return self


def _arith(op):
    def model(it, self, other):
        a, b = val_of(self), val_of(other)
        return SObj(_UVal, f_w=width_of(self), f_v=_wrap(a + b if op == "+" else a - b, width_of(self)))

    return model


def _cmp(op):
    def model(it, self, other):
        a, b = sym.to_z3(val_of(self)), val_of(other)
        return {"==": lambda: sym.eq(a, b), "!=": lambda: sym.Not(sym.eq(a, b)), "<": lambda: a < b}[op]()

    return model


for _cls in (_Sig, _UVal):
    for _nm, _m in (("__add__", _arith("+")), ("__sub__", _arith("-")), ("__eq__", _cmp("==")), ("__ne__", _cmp("!=")), ("__lt__", _cmp("<"))):
        setattr(_cls, _nm, (lambda n: lambda self, o: None)(_nm))
        I.register_model(getattr(_cls, _nm), _m)
_Sig.__ilshift__ = lambda self, v: None
_Sig.__bool__ = lambda self: True
I.register_model(_Sig.__ilshift__, _sig_assign)
I.register_model(_Sig.__bool__, lambda it, self: sym.Not(sym.eq(self.fields["f_cur"], 0)))


def _mem_set(it, self, index, data, *a, **k):
    self.fields["f_writes"].append((val_of(index), val_of(data)))


def _mem_get(it, self, index, qualifier=None, **k):
    return SObj(_UVal, f_w=None, f_v=z3.Select(self.fields["f_cur"], sym.to_z3(val_of(index))))


_Mem.set_elem = lambda self, i, d: None
_Mem.get_elem = lambda self, i, qualifier=None: None
I.register_model(_Mem.set_elem, _mem_set)
I.register_model(_Mem.get_elem, _mem_get)


def mem_next(m):
    arr = m.fields["f_cur"]
    for i, d in m.fields["f_writes"]:
        arr = z3.Store(arr, sym.to_z3(i), sym.to_z3(d))
    return arr


def nxt(s):
    return s.fields["f_cur"] if s.fields["f_nxt"] is None else s.fields["f_nxt"]


# ---- Fifo state ---------------------------------------------------------------------------------------------------------
def fifo_shape(pow2, sync):
    names = ["N", "w", "wr", "rd"] + (["swr", "srd"] if sync else [])

    def make(env):
        N, w = env["N"], env["w"]
        wr, rd = sig("wr_index", w, env["wr"]), sig("rd_index", w, env["rd"])
        f = SObj(Fifo, _max_index=N - 1, _write_index=wr, _read_index=rd, _sync_contexts=sync, _tx_delay=0, _rx_delay=0)
        f.fields["_mem"] = SObj(_Mem, f_cur=z3.Array("mem", IntS, IntS), f_writes=[])
        f.fields["_empty"] = sig("empty", None, z3.If(env["wr"] == env["rd"], 1, 0))
        f.fields["_full"] = sig("full", None, z3.Int("full_bit"))
        if sync:
            f.fields["_set_write_index"], f.fields["_set_read_index"] = sig("set_wr_index", w, env["swr"]), sig("set_rd_index", w, env["srd"])
            f.fields["_sync_flag"] = SObj(_Flag)
        else:
            f.fields["_set_write_index"], f.fields["_set_read_index"] = wr, rd
        f.fields["f_pow2"] = pow2
        return f

    def assume(env):
        N, w = env["N"], env["w"]
        c = [N >= 2, w >= 1, env["wr"] >= 0, env["wr"] < N, env["rd"] >= 0, env["rd"] < N]
        # is_pow_two is an uninterpreted predicate: known for the capacity N only (what the code must ask about)
        c.append(sym.And(sym.eq(N, P2(w)), ISP2(N)) if pow2 else sym.And(N <= P2(w), N >= 3, z3.Not(ISP2(N))))
        if sync:
            c += [env["swr"] >= 0, env["swr"] < N, env["srd"] >= 0, env["srd"] < N]
        return sym.And(*c)

    return Built(names, make, lambda a: "<fifo>", lambda a: None, assume)


class _Flag:
    """SyncFlag stand-in: whether a delay is configured for the calling side is arbitrary"""


_Flag._impl_rx_delay = lambda self: None
_Flag._impl_tx_delay = lambda self: None
I.register_model(_Flag._impl_rx_delay, lambda it, self: it.ctx.fresh_bool("rx_delay"))
I.register_model(_Flag._impl_tx_delay, lambda it, self: it.ctx.fresh_bool("tx_delay"))

def _is_pow_two(it, x):
    x = sym.simp(sym.to_int(x))
    if isinstance(x, int):
        return x > 0 and x & (x - 1) == 0
    return ISP2(sym.to_z3(x))


FIFO_MODELS = [
    (SU.is_pow_two, _is_pow_two),
    (SU.at_end_of_context, lambda it, fn: it.deferred.append(fn)),
]


def ring_next(i, N):
    return sym.Ite(sym.eq(i, N - 1), 0, i + 1)


def ring_add(i, k, N):
    s = i + k
    return sym.Ite(sym.to_z3(s) >= N, s - N, s)


def size_of(wr, rd, N):
    d = wr - rd
    return sym.Ite(sym.to_z3(d) < 0, d + N, d)


def elem(mem, rd, k, N):
    return z3.Select(mem, sym.to_z3(ring_add(rd, k, N)))


DATA = Built(["d"], lambda env: SObj(_UVal, f_w=None, f_v=env["d"]), lambda a: "<data>", lambda a: None)


def mk_case(con, name, shapes, spec, pow2, requires=None, kwargs=None):
    c = Case(name, shapes, spec, requires=requires, kwargs=kwargs or {})
    c.native = False
    c.may_reject = AssertionError
    c.models = FIFO_MODELS
    c.interp_flags = {"arith_hints": True}

    def setup(it, ctx, args, env):
        it.pow2_flag = pow2
        it.deferred = []

    c.setup = setup
    con.cases.append(c)
    return c


# ---- _next_index ------------------------------------------------------------------------------------------------------
def next_index_spec(sx, self, index):
    N = self.fields["_max_index"] + 1
    want = ring_next(val_of(index), N)
    return C.Pred(lambda res: sym.eq(val_of(res), want), "(index + 1) mod N")


con = contract("cohdl.std.utility:Fifo._next_index", PROPS)
for pow2 in (True, False):
    IDX = Built(["i"], lambda env: sig("idx", env["w"], env["i"]), lambda a: "<index>", lambda a: None, lambda env: sym.And(env["i"] >= 0, env["i"] < env["N"]))
    mk_case(con, "pow2" if pow2 else "not-pow2", [fifo_shape(pow2, False), IDX], next_index_spec, pow2)


# ---- push / pop / front: local contracts (producer / consumer own index), both wirings ----------------------------------
def push_spec(sx, self, data):
    real = sx.real_args[0]
    N = self.fields["_max_index"] + 1
    swr = self.fields["_set_write_index"].fields["f_cur"]

    def holds(res):
        f = real.fields
        w = f["_mem"].fields["f_writes"]
        if res is not None or len(w) != 1:
            return False
        others = [f[n] for n in ("_read_index", "_set_read_index") if f[n] is not f["_set_write_index"]]
        if f["_write_index"] is not f["_set_write_index"]:
            others.append(f["_write_index"])
        if any(o.fields["f_nxt"] is not None for o in others):
            return False  # the producer touches only its own index
        return sym.And(sym.eq(w[0][0], swr), sym.eq(w[0][1], val_of(sx.real_args[1])), sym.eq(nxt(f["_set_write_index"]), ring_next(swr, N)))

    return C.Pred(holds, "writes mem[own write index] := data and advances that index by one (mod N)")


def pop_spec(front):
    def spec(sx, self, **kw):
        real = sx.real_args[0]
        N = self.fields["_max_index"] + 1
        srd = self.fields["_set_read_index"].fields["f_cur"]
        mem = self.fields["_mem"].fields["f_cur"]

        def holds(res):
            f = real.fields
            if f["_mem"].fields["f_writes"]:
                return False
            others = [f[n] for n in ("_write_index", "_set_write_index") if f[n] is not f["_set_read_index"]]
            if f["_read_index"] is not f["_set_read_index"]:
                others.append(f["_read_index"])
            if any(o.fields["f_nxt"] is not None for o in others):
                return False
            adv = sym.eq(nxt(f["_set_read_index"]), srd if front else ring_next(srd, N))
            return sym.And(sym.eq(val_of(res), z3.Select(mem, sym.to_z3(srd))), adv)

        return C.Pred(holds, "returns mem[own read index]" + ("" if front else " and advances that index by one (mod N)"))

    return spec


not_full = lambda env: sym.eq(z3.Int("full_bit"), 0)
not_empty = lambda env: sym.Not(sym.eq(env["wr"], env["rd"]))

for fname, spec, shp, req in (("push", push_spec, [DATA], not_full), ("pop", pop_spec(False), [], not_empty), ("front", pop_spec(True), [], None)):
    con = contract(f"cohdl.std.utility:Fifo.{fname}", PROPS)
    for pow2 in (True, False):
        for sync in (False, True):
            mk_case(con, f"local:{'pow2' if pow2 else 'not-pow2'},{'separate-index-signals' if sync else 'shared-index-signals'}", [fifo_shape(pow2, sync)] + shp, spec, pow2, requires=req)


# ---- the queue view: sequences of operations within one clock ------------------------------------------------------------
class _Script:
    """driver: applies a fixed sequence of Fifo operations within one clock (only the real methods touch the state)"""


def run_script(fifo, ops, data):
    # executed by the interpreter: the REAL push / pop are called on the symbolic state
    result = None
    for op in ops:
        if op == "push":
            fifo.push(data)
        else:
            result = fifo.pop()
    return result


def view_spec(ops):
    def spec(sx, fifo, ops_, data):
        real = sx.real_args[0]
        f0 = fifo.fields
        N = f0["_max_index"] + 1
        wr, rd, mem = f0["_write_index"].fields["f_cur"], f0["_read_index"].fields["f_cur"], f0["_mem"].fields["f_cur"]
        size = size_of(wr, rd, N)
        d = val_of(data)
        k = z3.Int("k_elem")  # an arbitrary position of the queue

        def holds(res):
            f = real.fields
            wr1, rd1, mem1 = nxt(f["_write_index"]), nxt(f["_read_index"]), mem_next(f["_mem"])
            size1 = size_of(wr1, rd1, N)
            npush, npop = ops.count("push"), ops.count("pop")
            conds = [sym.eq(size1, size + npush - npop), wr1 >= 0, wr1 < N, rd1 >= 0, rd1 < N]
            if npop:
                conds.append(sym.eq(val_of(res), elem(mem, rd, 0, N)))  # the oldest element
            # content: position k of the new queue
            kk = sym.And(k >= 0, k < size1)
            old_part = sym.And(kk, k + npop < size)
            conds.append(z3.Implies(old_part, elem(mem1, rd1, k, N) == elem(mem, rd, k + npop, N)))
            if npush:
                conds.append(elem(mem1, rd1, size1 - 1, N) == sym.to_z3(d))
            return sym.And(*conds)

        return C.Pred(holds, "FIFO order: oldest element out, new element at the end, the rest unchanged")

    return spec


con = contract("<Fifo queue view: operations of one clock>", PROPS)
con.custom_fn = run_script
for pow2 in (True, False):
    for ops in (("push",), ("pop",), ("push", "pop"), ("pop", "push")):
        OPS = Built([], (lambda o: lambda env: list(o))(ops), lambda a: "<ops>", lambda a: None)

        def req(env, ops=ops):
            c = []
            if "push" in ops:
                c.append(sym.eq(z3.Int("full_bit"), 0))
                # `full` is what the concurrent block computes (proved below): next(wr) == rd
                c.append(sym.Not(sym.eq(ring_next(env["wr"], env["N"]), env["rd"])))
            if "pop" in ops:
                c.append(sym.Not(sym.eq(env["wr"], env["rd"])))
            return sym.And(*c)

        c = mk_case(con, f"{'pow2' if pow2 else 'not-pow2'}:{'+'.join(ops)}", [fifo_shape(pow2, False), OPS, DATA], view_spec(ops), pow2, requires=req)
        c.timeout_factor = 4
I.register_inline(run_script)
I.register_inline(Fifo.__dict__["push"])
I.register_inline(Fifo.__dict__["pop"])
I.register_inline(Fifo.__dict__["_next_index"])


# ---- empty / full: the concurrent block of __init__ ------------------------------------------------------------------------
def flags_spec(sx):
    it = sx.it
    f = it.fifo.fields
    N = f["_max_index"] + 1
    size = size_of(f["_write_index"].fields["f_cur"], f["_read_index"].fields["f_cur"], N)

    def holds(res):
        if f["_empty"].fields["f_nxt"] is None or f["_full"].fields["f_nxt"] is None:
            return False  # both flags are driven
        e, fl = sym.to_z3(sym.to_int(nxt(f["_empty"]))), sym.to_z3(sym.to_int(nxt(f["_full"])))
        return sym.And(sym.eq(e != 0, sym.eq(size, 0)), sym.eq(fl != 0, sym.eq(size, N - 1)))

    return C.Pred(holds, "empty <=> size == 0, full <=> size == N - 1")


con = contract("cohdl.std.utility:Fifo.__init__.<logic (empty/full)>", PROPS)
con.custom_fn = Fifo.__dict__["__init__"]
con.nested = [("logic", 1)]
for pow2 in (True, False):
    c = mk_case(con, "pow2" if pow2 else "not-pow2", [], flags_spec, pow2)
    shp = fifo_shape(pow2, False)
    c.extra_shapes = [shp]

    def nested_env(it, shp=shp):
        env = it.case_env
        it.fifo = shp.make(None, env)
        return {"self": it.fifo}

    c.nested_env = nested_env


# synchronised contexts (delays configured): each side computes its flags from ITS OWN index (always up to date)
# and the synchronised copy of the other side's index (lags behind, which only makes the flag conservative):
#   producer:  full <=> next(own write index) == copy of read index      empty <=> own write index == copy of read index
#   consumer:  full <=> next(copy of write index) == own read index      empty <=> copy of write index == own read index
def sync_flags_spec(sx):
    it = sx.it
    f = it.fifo.fields
    N = f["_max_index"] + 1
    own_wr, own_rd = f["_set_write_index"].fields["f_cur"], f["_set_read_index"].fields["f_cur"]
    cp_wr, cp_rd = f["_write_index"].fields["f_cur"], f["_read_index"].fields["f_cur"]
    want = {
        "_full_in_sender": sym.eq(ring_next(own_wr, N), cp_rd), "_empty_in_sender": sym.eq(own_wr, cp_rd),
        "_full_in_receiver": sym.eq(ring_next(cp_wr, N), own_rd), "_empty_in_receiver": sym.eq(cp_wr, own_rd),
    }

    def holds(res):
        conds = []
        for name, w in want.items():
            if f[name].fields["f_nxt"] is None:
                return False
            conds.append(sym.eq(sym.to_z3(sym.to_int(nxt(f[name]))) != 0, w))
        return sym.And(*conds)

    return C.Pred(holds, "each side's flags from its own index and the synchronised copy of the other index")


con = contract("cohdl.std.utility:Fifo.__init__.<logic (synchronised flags)>", PROPS)
con.custom_fn = Fifo.__dict__["__init__"]
con.nested = [("logic", 0)]
for pow2 in (True, False):
    c = mk_case(con, "pow2" if pow2 else "not-pow2", [], sync_flags_spec, pow2)
    shp = fifo_shape(pow2, True)
    c.extra_shapes = [shp]

    def nested_env_sync(it, shp=shp):
        env = it.case_env
        it.fifo = shp.make(None, env)
        for nm in ("_full_in_sender", "_empty_in_sender", "_full_in_receiver", "_empty_in_receiver"):
            it.fifo.fields[nm] = sig(nm, None, z3.Int(nm + "_bit"))
        return {"self": it.fifo}

    c.nested_env = nested_env_sync


# ---- Stack --------------------------------------------------------------------------------------------------------------------
from cohdl.std import _core_utility as CU  # noqa: E402

I.ATTR_MODELS[Stack] = lambda it, obj, name: obj.fields["f_count"] if name == "_count_" else I._MISSING


def stack_shape(mode):
    names = ["N", "w", "idx"] + (["cnt"] if mode is StackMode.DROP_OLD else [])

    def make(env):
        N, w = env["N"], env["w"]
        index = sig("index", w, env["idx"])
        s = SObj(Stack, f_count=N, _mode=mode, _index=index)
        s.fields["_cnt"] = sig("cnt", w, env["cnt"]) if mode is StackMode.DROP_OLD else index
        s.fields["_mem"] = SObj(_Mem, f_cur=z3.Array("mem", IntS, IntS), f_writes=[])
        return s

    def assume(env):
        N, w = env["N"], env["w"]
        c = [N >= 1, w >= 1, N < P2(w), env["idx"] >= 0]  # counter type Unsigned.upto(N): width bit_length(N)
        if mode is StackMode.DROP_OLD:
            c += [env["idx"] < N, env["cnt"] >= 0, env["cnt"] <= N]
        else:
            c += [env["idx"] <= N]
        return sym.And(*c)

    return Built(names, make, lambda a: "<stack>", lambda a: None, assume)


def stack_view(s, mem=None, idx=None, cnt=None):
    """(size, element k oldest-first) of the list the stack holds"""
    f = s.fields
    N = f["f_count"]
    idx = f["_index"].fields["f_cur"] if idx is None else idx
    mem = f["_mem"].fields["f_cur"] if mem is None else mem
    if f["_mode"] is StackMode.NO_OVERFLOW:
        return idx, (lambda k: z3.Select(mem, sym.to_z3(sym.to_int(k))))
    cnt = f["_cnt"].fields["f_cur"] if cnt is None else cnt

    def el(k):
        p = idx - cnt + k
        p = sym.Ite(sym.to_z3(p) < 0, p + N, p)
        return z3.Select(mem, sym.to_z3(p))

    return cnt, el


def stack_op_spec(op, mode):
    def spec(sx, self, *args, **kw):
        real = sx.real_args[0]
        N = self.fields["f_count"]
        size, el = stack_view(self)
        k = z3.Int("k_elem")

        def holds(res):
            f = real.fields
            idx1 = nxt(f["_index"])
            cnt1 = nxt(f["_cnt"])
            size1, el1 = stack_view(real, mem=mem_next(f["_mem"]), idx=idx1, cnt=cnt1)
            inside = sym.And(k >= 0, k < size1)
            conds = [idx1 >= 0, idx1 <= N]
            if mode is StackMode.DROP_OLD:
                conds += [idx1 < N, cnt1 >= 0, cnt1 <= N]
            if op == "push":
                d = val_of(sx.real_args[1])
                dropped = sym.eq(size, N) if mode is StackMode.DROP_OLD else False
                conds.append(sym.eq(size1, sym.Ite(dropped, N, size + 1)))
                conds.append(el1(size1 - 1) == sym.to_z3(d))  # the new element is on top
                shift = sym.Ite(dropped, 1, 0)  # in drop-old mode a push to a full stack discards exactly the oldest
                conds.append(z3.Implies(sym.And(inside, k < size1 - 1), el1(k) == el(k + shift)))
            elif op == "pop":
                conds.append(sym.eq(val_of(res), el(size - 1)))  # last in, first out
                conds.append(sym.eq(size1, size - 1))
                conds.append(z3.Implies(inside, el1(k) == el(k)))
            elif op == "front":
                conds.append(sym.eq(val_of(res), el(size - 1)))
                conds += [sym.eq(size1, size), z3.Implies(inside, el1(k) == el(k))]
            elif op == "reset":
                conds.append(sym.eq(size1, 0))
            elif op == "empty":
                conds.append(sym.eq(res, sym.eq(size, 0)))
            elif op == "full":
                conds.append(sym.eq(res, sym.eq(size, N)))
            elif op == "size":
                conds.append(sym.eq(val_of(res), size))
            if op in ("empty", "full", "size", "front"):
                if f["_index"].fields["f_nxt"] is not None or f["_cnt"].fields["f_nxt"] is not None or f["_mem"].fields["f_writes"]:
                    return False  # observers do not change the stack
            return sym.And(*conds)

        return C.Pred(holds, f"list view after {op}")

    return spec


STACK_MODELS = [(CU._Value.__dict__["__call__"], lambda it, self, x, *a, **k: x)]
for op, extra in (("push", [DATA]), ("pop", []), ("front", []), ("reset", []), ("empty", []), ("full", []), ("size", [])):
    con = contract(f"cohdl.std.utility:Stack.{op}", PROPS)
    for mode in (StackMode.NO_OVERFLOW, StackMode.DROP_OLD):
        def req(env, op=op, mode=mode):
            size = env["cnt"] if mode is StackMode.DROP_OLD else env["idx"]
            if op == "push" and mode is StackMode.NO_OVERFLOW:
                return size < env["N"]
            if op in ("pop", "front"):
                return size > 0
            return True

        c = Case(mode.name, [stack_shape(mode)] + extra, stack_op_spec(op, mode), requires=req)
        c.native = False
        c.may_reject = AssertionError
        c.models = STACK_MODELS
        c.interp_flags = {"arith_hints": True}
        con.cases.append(c)
for _n in ("_prev_index", "_next_index"):
    I.register_inline(Stack.__dict__[_n])


# ---- Fifo.receive: wait until the fifo is not empty AS SEEN FROM THE CALLING CONTEXT, then pop ----------------------------------
# With delays configured the raw signal `_empty` compares the index copies of the two sides; only the flag query `empty()`
# (per-context comparison, contracts above) is right for the consumer.  receive() waits on exactly that query -- otherwise it
# keeps popping from a fifo that has just run empty (elements invented or duplicated).
def receive_spec(sx, self, **kw):
    it = sx.it

    def holds(res):
        if res != "POPPED" or len(it.awaited) != 1 or it.order != ["empty()", "await", "pop"]:
            return False
        if it.pop_kw.get("qualifier") is not kw.get("qualifier", SU.Value):
            return False
        return sym.eq(it.awaited[0], sym.Not(it.query_result))

    return C.Pred(holds, "awaits `not self.empty()` (the flag query of the calling context), then returns pop(qualifier=...)")


def _empty_query(it, self):
    it.order.append("empty()")
    return it.query_result


def _pop(it, self, **kw):
    it.order.append("pop")
    it.pop_kw = dict(kw)
    return "POPPED"


def _await(it, v, node=None):
    it.order.append("await")
    it.awaited.append(v)
    return None


con = contract("cohdl.std.utility:Fifo.receive", PROPS)
for qual in (None, "QUALIFIER"):
    c = Case("default-qualifier" if qual is None else "given-qualifier", [Built([], lambda env: SObj(Fifo, _empty=None), lambda a: "<fifo>", lambda a: None)], receive_spec,
             kwargs={} if qual is None else {"qualifier": Built([], lambda env: "QUALIFIER", lambda a: "'QUALIFIER'", lambda a: None)})
    c.native = False
    c.models = [(Fifo.__dict__["empty"], _empty_query), (Fifo.__dict__["pop"], _pop), (SU.expr, lambda it, x: x)]
    c.interp_flags = {"await_hook": _await}

    def _rx_setup(it, ctx, args, env):
        it.order, it.awaited, it.pop_kw = [], [], {}
        it.query_result = ctx.fresh_bool("empty_as_seen_by_this_context")
        args[0].fields["_empty"] = ctx.fresh_bool("raw_empty_signal")

    c.setup = _rx_setup
    con.cases.append(c)
