"""Bounded stand-ins (DESIGN.md 5.3) for the bit-level primitives whose
contracts the proofs ASSUME.  Each executes the REAL function natively on
every input inside the stated bound and compares with the assumed spec.
Labelled bounded, never counted as proved."""

from __future__ import annotations

import itertools

import cohdl
from cohdl import Unsigned, Signed, BitVector, Integer, Null, Full

from pyvc import contracts as C
from pyvc.contracts import Case, PyInt, contract
from pyvc.values import SCls
from contracts import core_models as M
from contracts.core_models import UShape, SShape, BVShape, ClsShape, IntegerShape, NULL, FULL, NONE

PROPS = ("C09", "C02", "C05")


def bound(tier, quick, thorough):
    return quick if tier == "quick" else thorough


def all_vec(wn, vn, wmax):
    for w in range(1, wmax + 1):
        for v in range(2**w):
            yield {wn: w, vn: v}


def product(*gens):
    for combo in itertools.product(*[list(g) for g in gens]):
        d = {}
        for c in combo:
            d.update(c)
        yield d


def random_wide(rng, n, names_kinds):
    """seeded random wide values (widths 13..256)"""
    for _ in range(n):
        asg = {}
        for wn, vn in names_kinds:
            w = rng.choice([13, 16, 31, 32, 33, 52, 53, 54, 63, 64, 65, 128, 256])
            asg[wn] = w
            asg[vn] = rng.choice([0, 1, 2**w - 1, 2 ** (w - 1), rng.randrange(2**w), rng.randrange(2**w)])
        yield asg


# ---- to_int -------------------------------------------------------------------------
for K, VS, mod, spec in (
    (Unsigned, UShape, "cohdl._core._unsigned:Unsigned.to_int", M.spec_u_to_int),
    (Signed, SShape, "cohdl._core._signed:Signed.to_int", M.spec_s_to_int),
):
    con = contract(mod, PROPS, status="assumed")
    c = Case("all", [VS("w", "v")], spec)
    c.samples = lambda rng, n, tier: itertools.chain(all_vec("w", "v", bound(tier, 8, 11)), random_wide(rng, bound(tier, 300, 3000), [("w", "v")]))
    c.bound = "exhaustive: all bit patterns, widths 1..8 (quick) / 1..11 (thorough); + seeded random values at widths 13..256"
    con.cases.append(c)


# ---- add ----------------------------------------------------------------------------
def add_samples(rng, n, tier):
    wmax = bound(tier, 4, 6)
    for a in all_vec("w1", "a", wmax):
        for b in all_vec("w2", "b", wmax):
            for tw in [None] + list(range(1, wmax + 3)):
                d = dict(a)
                d.update(b)
                d["tw"] = tw
                yield d
    for d in random_wide(rng, bound(tier, 200, 2000), [("w1", "a"), ("w2", "b")]):
        d["tw"] = rng.choice([None, None, d["w1"], d["w2"], max(d["w1"], d["w2"]) + 1, 7])
        yield d


class OptInt(C.Shape):
    """int or None"""

    def __init__(self, name):
        self.name = name
        self.names = [name]

    def concrete_src(self, asg):
        return repr(asg[self.name])

    def concrete_spec(self, asg):
        return asg[self.name]


def add_int_samples(rng, n, tier):
    wmax = bound(tier, 5, 7)
    for a in all_vec("w1", "a", wmax):
        lim = 2 ** a["w1"]
        for k in range(-lim - 2, lim + 3):
            for tw in (None, a["w1"], a["w1"] + 1, a["w1"] + 2):
                d = dict(a)
                d["k"] = k
                d["tw"] = tw
                yield d


for K, VS, mod, spec in (
    (Unsigned, UShape, "cohdl._core._unsigned:Unsigned.add", M.spec_unsigned_add),
    (Signed, SShape, "cohdl._core._signed:Signed.add", M.spec_signed_add),
):
    con = contract(mod, PROPS, status="assumed")
    c = Case("vec", [VS("w1", "a"), VS("w2", "b"), OptInt("tw")], spec)
    c.samples = add_samples
    c.bound = "exhaustive: all operand pairs, all width pairs <= 4 (quick) / <= 6 (thorough), target_width None and 1..max+2; + seeded random wide operands"
    con.cases.append(c)
    c = Case("int", [VS("w1", "a"), PyInt("k"), OptInt("tw")], spec)
    c.samples = add_int_samples
    c.bound = "exhaustive: widths <= 5 (quick) / <= 7 (thorough), all values, all literals in [-2**w-2, 2**w+2], target_width None / w / w+1 / w+2"
    con.cases.append(c)


# ---- construction K[w](x) -------------------------------------------------------------
def construct(cls, val=None):
    return cls(val)


def ctor_cases():
    con = contract("<construct K[w](val)>", PROPS, status="assumed", fn=construct)
    kinds = ((Unsigned, "cohdl.Unsigned", UShape), (Signed, "cohdl.Signed", SShape), (BitVector, "cohdl.BitVector", BVShape))
    for K, srck, _ in kinds:
        # from int
        c = Case(f"{K.__name__}-int", [ClsShape(K, "w", srck), PyInt("k")], M.spec_construct)

        def s_int(rng, n, tier):
            for w in range(1, bound(tier, 7, 10) + 1):
                for k in range(-(2**w) - 2, 2**w + 3):
                    yield {"w": w, "k": k}
            for _ in range(bound(tier, 200, 2000)):
                w = rng.choice([13, 31, 32, 33, 53, 54, 64, 65, 128])
                yield {"w": w, "k": rng.choice([0, -1, 2**w - 1, 2**w, 2 ** (w - 1), 2 ** (w - 1) - 1, -(2 ** (w - 1)), -(2 ** (w - 1)) - 1, rng.randrange(-(2**w), 2**w)])}

        c.samples = s_int
        c.bound = "exhaustive: widths 1..7 (quick) / 1..10 (thorough), all literals in [-2**w-2, 2**w+2]; + random wide"
        con.cases.append(c)
        c = Case(f"{K.__name__}-Integer", [ClsShape(K, "w", srck), IntegerShape("k")], M.spec_construct)
        c.samples = s_int
        c.bound = "as -int"
        con.cases.append(c)
        for K2, srck2, VS2 in kinds:
            c = Case(f"{K.__name__}-from-{K2.__name__}", [ClsShape(K, "w", srck), VS2("w2", "b")], M.spec_construct)

            def s_vec(rng, n, tier):
                wm = bound(tier, 6, 8)
                for w in range(1, wm + 1):
                    for b in all_vec("w2", "b", wm):
                        d = {"w": w}
                        d.update(b)
                        yield d

            c.samples = s_vec
            c.bound = "exhaustive: all (target width, source width) <= 6 (quick) / <= 8 (thorough), all source values"
            con.cases.append(c)
        for nm, shp in (("null", NULL), ("full", FULL), ("none", NONE)):
            c = Case(f"{K.__name__}-{nm}", [ClsShape(K, "w", srck), shp], M.spec_construct)
            c.samples = lambda rng, n, tier: ({"w": w} for w in list(range(1, 17)) + [31, 32, 33, 64, 65, 128])
            c.bound = "widths 1..16, 31..33, 64, 65, 128"
            con.cases.append(c)


ctor_cases()


# ---- __invert__, copy, left, right -----------------------------------------------------
for nm, spec in (("__invert__", M.spec_bv_invert), ("copy", M.spec_bv_copy)):
    con = contract(f"cohdl._core._bit_vector:BitVector.{nm}", PROPS, status="assumed")
    for VS in (UShape, SShape, BVShape):
        c = Case(VS.kind.__name__, [VS("w", "v")], spec)
        c.samples = lambda rng, n, tier: all_vec("w", "v", bound(tier, 8, 10))
        c.bound = "exhaustive: widths 1..8 (quick) / 1..10 (thorough)"
        con.cases.append(c)

for nm, spec in (("left", M.spec_bv_left), ("right", M.spec_bv_right)):
    con = contract(f"cohdl._core._bit_vector:BitVector.{nm}", PROPS, status="assumed")
    for VS in (UShape, SShape, BVShape):
        c = Case(VS.kind.__name__, [VS("w", "v"), OptInt("width"), OptInt("rest")], spec)

        def s_lr(rng, n, tier):
            for a in all_vec("w", "v", bound(tier, 6, 8)):
                w = a["w"]
                for wd in [None] + list(range(0, w + 2)):
                    for rest in [None] + list(range(0, w + 2)):
                        d = dict(a)
                        d["width"] = wd
                        d["rest"] = rest
                        yield d

        c.samples = s_lr
        c.bound = "exhaustive: widths 1..6 (quick) / 1..8 (thorough), all values, width / rest in None, 0..w+1"
        con.cases.append(c)
