"""Bounded stand-ins (DESIGN.md 5.3) for the bit-level primitives whose
contracts the proofs ASSUME.  Each executes the REAL function natively on
every input inside the stated bound and compares with the assumed spec.
Labelled bounded, never counted as proved."""

from __future__ import annotations

import itertools

import cohdl
from cohdl import Unsigned, Signed, BitVector, Integer, Null, Full

from pyvc import contracts as C
from pyvc.contracts import Case, PyInt, contract
from pyvc.values import SCls
from contracts import core_models as M
from contracts.core_models import UShape, SShape, BVShape, ClsShape, IntegerShape, NULL, FULL, NONE

PROPS = ("C09", "C02", "C05")


def bound(tier, quick, thorough):
    return quick if tier == "quick" else thorough


def all_vec(wn, vn, wmax):
    for w in range(1, wmax + 1):
        for v in range(2**w):
            yield {wn: w, vn: v}


def product(*gens):
    for combo in itertools.product(*[list(g) for g in gens]):
        d = {}
        for c in combo:
            d.update(c)
        yield d


def random_wide(rng, n, names_kinds):
    """seeded random wide values (widths 13..256)"""
    for _ in range(n):
        asg = {}
        for wn, vn in names_kinds:
            w = rng.choice([13, 16, 31, 32, 33, 52, 53, 54, 63, 64, 65, 128, 256])
            asg[wn] = w
            asg[vn] = rng.choice([0, 1, 2**w - 1, 2 ** (w - 1), rng.randrange(2**w), rng.randrange(2**w)])
        yield asg


# ---- to_int -------------------------------------------------------------------------
for K, VS, mod, spec in (
    (Unsigned, UShape, "cohdl._core._unsigned:Unsigned.to_int", M.spec_u_to_int),
    (Signed, SShape, "cohdl._core._signed:Signed.to_int", M.spec_s_to_int),
):
    con = contract(mod, PROPS, status="assumed")
    c = Case("all", [VS("w", "v")], spec)
    c.samples = lambda rng, n, tier: itertools.chain(all_vec("w", "v", bound(tier, 8, 11)), random_wide(rng, bound(tier, 300, 3000), [("w", "v")]))
    c.bound = "exhaustive: all bit patterns, widths 1..8 (quick) / 1..11 (thorough); + seeded random values at widths 13..256"
    con.cases.append(c)


# ---- add ----------------------------------------------------------------------------
def add_samples(rng, n, tier):
    wmax = bound(tier, 4, 6)
    for a in all_vec("w1", "a", wmax):
        for b in all_vec("w2", "b", wmax):
            for tw in [None] + list(range(1, wmax + 3)):
                d = dict(a)
                d.update(b)
                d["tw"] = tw
                yield d
    for d in random_wide(rng, bound(tier, 200, 2000), [("w1", "a"), ("w2", "b")]):
        d["tw"] = rng.choice([None, None, d["w1"], d["w2"], max(d["w1"], d["w2"]) + 1, 7])
        yield d


class OptInt(C.Shape):
    """int or None"""

    def __init__(self, name):
        self.name = name
        self.names = [name]

    def concrete_src(self, asg):
        return repr(asg[self.name])

    def concrete_spec(self, asg):
        return asg[self.name]


def add_int_samples(rng, n, tier):
    wmax = bound(tier, 5, 7)
    for a in all_vec("w1", "a", wmax):
        lim = 2 ** a["w1"]
        for k in range(-lim - 2, lim + 3):
            for tw in (None, a["w1"], a["w1"] + 1, a["w1"] + 2):
                d = dict(a)
                d["k"] = k
                d["tw"] = tw
                yield d


for K, VS, mod, spec in (
    (Unsigned, UShape, "cohdl._core._unsigned:Unsigned.add", M.spec_unsigned_add),
    (Signed, SShape, "cohdl._core._signed:Signed.add", M.spec_signed_add),
):
    con = contract(mod, PROPS, status="assumed")
    c = Case("vec", [VS("w1", "a"), VS("w2", "b"), OptInt("tw")], spec)
    c.samples = add_samples
    c.bound = "exhaustive: all operand pairs, all width pairs <= 4 (quick) / <= 6 (thorough), target_width None and 1..max+2; + seeded random wide operands"
    con.cases.append(c)
    c = Case("int", [VS("w1", "a"), PyInt("k"), OptInt("tw")], spec)
    c.samples = add_int_samples
    c.bound = "exhaustive: widths <= 5 (quick) / <= 7 (thorough), all values, all literals in [-2**w-2, 2**w+2], target_width None / w / w+1 / w+2"
    con.cases.append(c)


# ---- construction K[w](x) -------------------------------------------------------------
def construct(cls, val=None):
    return cls(val)


def ctor_cases():
    con = contract("<construct K[w](val)>", PROPS, status="assumed", fn=construct)
    kinds = ((Unsigned, "cohdl.Unsigned", UShape), (Signed, "cohdl.Signed", SShape), (BitVector, "cohdl.BitVector", BVShape))
    for K, srck, _ in kinds:
        # from int
        c = Case(f"{K.__name__}-int", [ClsShape(K, "w", srck), PyInt("k")], M.spec_construct)

        def s_int(rng, n, tier):
            for w in range(1, bound(tier, 7, 10) + 1):
                for k in range(-(2**w) - 2, 2**w + 3):
                    yield {"w": w, "k": k}
            for _ in range(bound(tier, 200, 2000)):
                w = rng.choice([13, 31, 32, 33, 53, 54, 64, 65, 128])
                yield {"w": w, "k": rng.choice([0, -1, 2**w - 1, 2**w, 2 ** (w - 1), 2 ** (w - 1) - 1, -(2 ** (w - 1)), -(2 ** (w - 1)) - 1, rng.randrange(-(2**w), 2**w)])}

        c.samples = s_int
        c.bound = "exhaustive: widths 1..7 (quick) / 1..10 (thorough), all literals in [-2**w-2, 2**w+2]; + random wide"
        con.cases.append(c)
        c = Case(f"{K.__name__}-Integer", [ClsShape(K, "w", srck), IntegerShape("k")], M.spec_construct)
        c.samples = s_int
        c.bound = "as -int"
        con.cases.append(c)
        for K2, srck2, VS2 in kinds:
            c = Case(f"{K.__name__}-from-{K2.__name__}", [ClsShape(K, "w", srck), VS2("w2", "b")], M.spec_construct)

            def s_vec(rng, n, tier):
                wm = bound(tier, 6, 8)
                for w in range(1, wm + 1):
                    for b in all_vec("w2", "b", wm):
                        d = {"w": w}
                        d.update(b)
                        yield d

            c.samples = s_vec
            c.bound = "exhaustive: all (target width, source width) <= 6 (quick) / <= 8 (thorough), all source values"
            con.cases.append(c)
        for nm, shp in (("null", NULL), ("full", FULL), ("none", NONE)):
            c = Case(f"{K.__name__}-{nm}", [ClsShape(K, "w", srck), shp], M.spec_construct)
            c.samples = lambda rng, n, tier: ({"w": w} for w in list(range(1, 17)) + [31, 32, 33, 64, 65, 128])
            c.bound = "widths 1..16, 31..33, 64, 65, 128"
            con.cases.append(c)


ctor_cases()


# ---- __invert__, copy, left, right -----------------------------------------------------
for nm, spec in (("__invert__", M.spec_bv_invert), ("copy", M.spec_bv_copy)):
    con = contract(f"cohdl._core._bit_vector:BitVector.{nm}", PROPS, status="assumed")
    for VS in (UShape, SShape, BVShape):
        c = Case(VS.kind.__name__, [VS("w", "v")], spec)
        c.samples = lambda rng, n, tier: all_vec("w", "v", bound(tier, 8, 10))
        c.bound = "exhaustive: widths 1..8 (quick) / 1..10 (thorough)"
        con.cases.append(c)

for nm, spec in (("left", M.spec_bv_left), ("right", M.spec_bv_right)):
    # (C17: BitField extracts nested fields of compile-time values with msb(rest=offset).lsb(width))
    con = contract(f"cohdl._core._bit_vector:BitVector.{nm}", PROPS + ("C17",), status="assumed")
    for VS in (UShape, SShape, BVShape):
        c = Case(VS.kind.__name__, [VS("w", "v"), OptInt("width"), OptInt("rest")], spec)

        def s_lr(rng, n, tier):
            for a in all_vec("w", "v", bound(tier, 6, 8)):
                w = a["w"]
                for wd in [None] + list(range(0, w + 2)):
                    for rest in [None] + list(range(0, w + 2)):
                        d = dict(a)
                        d["width"] = wd
                        d["rest"] = rest
                        yield d

        c.samples = s_lr
        c.bound = "exhaustive: widths 1..6 (quick) / 1..8 (thorough), all values, width / rest in None, 0..w+1"
        con.cases.append(c)


# ---- BitVector bit-level operators (C09 / C02): bounded --------------------------------
from pyvc import sym as _sym
from cohdl import Bit as _Bit
from cohdl._core._bit import BitState as _BS

_P2 = _sym.pow2


def _known(*xs):
    return all(x.fields.get("known", True) for x in xs)


def spec_bv_eq(sx, a, b):
    if b is Null:
        return M.bits(a) == 0
    if b is Full:
        return M.bits(a) == 2 ** M.width(a) - 1
    if not M.is_kind(b, BitVector) or M.is_kind(b, Unsigned) or M.is_kind(b, Signed):
        sx.reject()
    sx.require(M.width(a) == M.width(b))
    return M.bits(a) == M.bits(b)


def spec_bv_ne(sx, a, b):
    return not spec_bv_eq(sx, a, b)


def spec_bv_bool(sx, a):
    return M.bits(a) != 0


def _bitwise(pyop):
    def spec(sx, a, b):
        if not M.is_kind(b, BitVector):
            return NotImplemented
        # same class required (kind and width)
        ka = Unsigned if M.is_kind(a, Unsigned) else Signed if M.is_kind(a, Signed) else BitVector
        kb = Unsigned if M.is_kind(b, Unsigned) else Signed if M.is_kind(b, Signed) else BitVector
        sx.require(ka is kb and M.width(a) == M.width(b))
        return M.vec(ka, M.width(a), pyop(M.bits(a), M.bits(b)))

    return spec


def spec_bv_matmul(sx, a, b):
    """a @ b: a forms the most significant bits"""
    if isinstance(b, SObjT) and b.kind is _Bit:
        return M.BV(M.width(a) + 1, M.bits(a) * 2 + (1 if b.fields["_val"] is _BS.HIGH else 0))
    if not M.is_kind(b, BitVector):
        return NotImplemented
    return M.BV(M.width(a) + M.width(b), M.bits(a) * 2 ** M.width(b) + M.bits(b))


def spec_bv_rmatmul(sx, a, b):
    """b @ a with b a Bit: b becomes the most significant bit"""
    if not (isinstance(b, SObjT) and b.kind is _Bit):
        sx.reject()
    return M.BV(M.width(a) + 1, (2 ** M.width(a) if b.fields["_val"] is _BS.HIGH else 0) + M.bits(a))


from pyvc.values import SObj as SObjT  # noqa: E402


def spec_bv_getitem_int(sx, a, i):
    sx.require(0 <= i < M.width(a))
    return M.BitView((M.bits(a) >> i) & 1)


def spec_bv_getitem_slice(sx, a, hi, lo):
    """a[hi:lo] (downto), hi >= lo"""
    sx.domain(hi >= lo)  # lo > hi: RuntimeError('not implemented')
    sx.domain(0 <= lo and hi < M.width(a))
    return M.BV(hi - lo + 1, (M.bits(a) >> lo) & (2 ** (hi - lo + 1) - 1))


def _bv_getitem_slice(a, hi, lo):
    return a[hi:lo]


def _vecpairs(rng, n, tier):
    wm = bound(tier, 5, 6)
    for a in all_vec("w1", "a", wm):
        for b in all_vec("w2", "b", wm):
            d = dict(a)
            d.update(b)
            yield d


BVMOD = "cohdl._core._bit_vector:BitVector."
for nm, spec in (("__eq__", spec_bv_eq), ("__ne__", spec_bv_ne)):
    con = contract(BVMOD + nm, PROPS, status="assumed")
    c = Case("bv", [BVShape("w1", "a"), BVShape("w2", "b")], spec)
    c.samples = _vecpairs
    c.bound = "exhaustive: all width pairs <= 5 (quick) / <= 6 (thorough), all values"
    con.cases.append(c)
    for k, shp in (("null", NULL), ("full", FULL)):
        for VS in (BVShape,):
            c = Case(k, [VS("w1", "a"), shp], spec)
            c.samples = lambda rng, n, tier: all_vec("w1", "a", bound(tier, 9, 11))
            c.bound = "exhaustive: widths 1..9 (quick) / 1..11 (thorough), all values"
            con.cases.append(c)
    for k, VS in (("unsigned", UShape), ("signed", SShape)):
        c = Case(k, [BVShape("w1", "a"), VS("w2", "b")], spec)
        c.samples = lambda rng, n, tier: _vecpairs(rng, n, "quick")
        c.bound = "exhaustive: width pairs <= 5"
        con.cases.append(c)

con = contract(BVMOD + "__bool__", PROPS, status="assumed")
for VS in (BVShape, UShape, SShape):
    c = Case(VS.kind.__name__, [VS("w1", "a")], spec_bv_bool)
    c.samples = lambda rng, n, tier: all_vec("w1", "a", bound(tier, 9, 11))
    c.bound = "exhaustive: widths 1..9 / 1..11"
    con.cases.append(c)

import operator as _op

for nm, pyop in (("__and__", _op.and_), ("__or__", _op.or_), ("__xor__", _op.xor)):
    con = contract(BVMOD + nm, PROPS + ("C06",), status="assumed")  # C06: the operands are emitted unconverted, `slv xor unsigned` has no operator
    for n1, V1 in (("bv", BVShape), ("u", UShape), ("s", SShape)):
        for n2, V2 in (("bv", BVShape), ("u", UShape), ("s", SShape)):
            c = Case(f"{n1}-{n2}", [V1("w1", "a"), V2("w2", "b")], _bitwise(pyop))
            c.samples = lambda rng, n, tier: _vecpairs(rng, n, "quick") if tier == "quick" else _vecpairs(rng, n, tier)
            c.bound = "exhaustive: all width pairs <= 5 (quick) / <= 6 (thorough), all values"
            con.cases.append(c)

con = contract(BVMOD + "__matmul__", PROPS, status="assumed")
for n1, V1 in (("bv", BVShape), ("u", UShape), ("s", SShape)):
    for n2, V2 in (("bv", BVShape), ("u", UShape), ("s", SShape)):
        c = Case(f"{n1}-{n2}", [V1("w1", "a"), V2("w2", "b")], spec_bv_matmul)
        c.samples = _vecpairs
        c.bound = "exhaustive: all width pairs <= 5 / <= 6, all values"
        con.cases.append(c)
    for st in (_BS.LOW, _BS.HIGH):
        c = Case(f"{n1}-bit{st.name}", [V1("w1", "a"), M.BitShape(st)], spec_bv_matmul)
        c.samples = lambda rng, n, tier: all_vec("w1", "a", bound(tier, 8, 10))
        c.bound = "exhaustive widths 1..8 / 1..10"
        con.cases.append(c)

con = contract(BVMOD + "__rmatmul__", PROPS, status="assumed")
for st in (_BS.LOW, _BS.HIGH):
    c = Case(f"bit{st.name}", [BVShape("w1", "a"), M.BitShape(st)], spec_bv_rmatmul)
    c.samples = lambda rng, n, tier: all_vec("w1", "a", bound(tier, 8, 10))
    c.bound = "exhaustive widths 1..8 / 1..10"
    con.cases.append(c)

# (also C13: the views of the qualified types delegate to this function for the value they alias -- an index outside
#  0..width-1, a negative one in particular, has no element to alias and must be rejected)
con = contract(BVMOD + "__getitem__", PROPS + ("C13",), status="assumed")
for n1, V1 in (("bv", BVShape), ("u", UShape), ("s", SShape)):
    c = Case(f"{n1}-int", [V1("w1", "a"), PyInt("i")], spec_bv_getitem_int)

    def s_idx(rng, n, tier):
        for a in all_vec("w1", "a", bound(tier, 7, 9)):
            for i in range(-1, a["w1"] + 2):
                d = dict(a)
                d["i"] = i
                yield d

    c.samples = s_idx
    c.bound = "exhaustive widths 1..7 / 1..9, index -1..w+1"
    con.cases.append(c)

con = contract("<BitVector slice a[hi:lo]>", PROPS + ("C13",), status="assumed", fn=_bv_getitem_slice)
for n1, V1 in (("bv", BVShape), ("u", UShape), ("s", SShape)):
    c = Case(f"{n1}", [V1("w1", "a"), PyInt("hi"), PyInt("lo")], spec_bv_getitem_slice)

    def s_sl(rng, n, tier):
        for a in all_vec("w1", "a", bound(tier, 6, 8)):
            for hi in range(0, a["w1"]):
                for lo in range(0, hi + 1):
                    d = dict(a)
                    d["hi"] = hi
                    d["lo"] = lo
                    yield d

    c.samples = s_sl
    c.bound = "exhaustive widths 1..6 / 1..8, all slices"
    con.cases.append(c)


# views: .unsigned / .signed / .bitvector keep the bits
def _view(prop):
    return lambda a: getattr(a, prop)


for prop, K in (("unsigned", Unsigned), ("signed", Signed), ("bitvector", BitVector)):
    con = contract(f"<BitVector.{prop} view>", PROPS, status="assumed", fn=_view(prop))
    for n1, V1 in (("bv", BVShape), ("u", UShape), ("s", SShape)):
        c = Case(n1, [V1("w1", "a")], lambda sx, a, K=K: M.vec(K, M.width(a), M.bits(a)))
        c.samples = lambda rng, n, tier: all_vec("w1", "a", bound(tier, 8, 10))
        c.bound = "exhaustive widths 1..8 / 1..10"
        con.cases.append(c)
