"""C02 / C03: the IR -> VHDL statement translation `_StmtAssembler.apply`,
proved from the real source, one case per IR statement kind and context kind.

The translation must be structure preserving:
  * an expression node (BinOp, UnaryOp, Compare, Boolean, All, Any) becomes an assignment of the
    vhdl node with the SAME operator, the operands in the SAME order, and the SAME result object to
    that result -- a signal assignment in a concurrent context (continuous), a variable assignment in
    a sequential context (immediate);
  * SignalAssignment / SignalPush -> signal assignment, VariableAssignment -> variable assignment
    (target, source); push and variable assignment are only legal in sequential contexts;
  * If: the test becomes a boolean condition of the same object, body / orelse are translated in place;
  * CaseWhen: the selector and every (choice, body) in order, default when present;
  * SelectWith: in a concurrent context a with-select over (choice, value) pairs in order to the
    result; in a sequential context a case statement assigning the chosen value to the result
    (signal assignment for a signal result, variable assignment otherwise), default likewise;
  * Assert: boolean condition of the same object and the message.
"""

from __future__ import annotations

from cohdl._core._ir import _repr as ir
from cohdl._core._type_qualifier import Signal, Temporary
from cohdl._compiler.backend.vhdl import _vhdl_assembler as VA
from cohdl._compiler.backend.vhdl import _vhdl_repr as VR

from pyvc import contracts as C
from pyvc import interp as I
from pyvc.contracts import Case, contract
from pyvc.values import SObj, Opaque
from contracts.c05_format_cast import Built

PROPS = ("C02", "C03")
QUAL = "cohdl._compiler.backend.vhdl._vhdl_assembler:_StmtAssembler.apply"
CTX = VA.Context

I.register_inline(ir.Expression.__dict__["result"])
I.register_inline(ir.CodeBlock.__dict__["content"])
I.register_inline(VA.assign_temporary)


def node(cls, names):
    def f(it, args, kwargs):
        o = SObj(cls)
        for n, a in zip(names, args):
            o.fields[n] = a
        o.fields.update(kwargs)
        return o

    return f


CLASS_MODELS = {
    VR.SignalAssignment: node(VR.SignalAssignment, ["target", "source"]),
    VR.VariableAssignment: node(VR.VariableAssignment, ["target", "source"]),
    VR.Target: node(VR.Target, ["obj"]), VR.Value: node(VR.Value, ["obj"]), VR.Constant: node(VR.Constant, ["obj"]),
    VR.BinOp: node(VR.BinOp, ["op", "lhs", "rhs", "result"]), VR.UnaryOp: node(VR.UnaryOp, ["op", "arg", "result"]),
    VR.Compare: node(VR.Compare, ["op", "lhs", "rhs", "result"]), VR.Boolean: node(VR.Boolean, ["arg"]),
    VR.All: node(VR.All, ["args", "result"]), VR.Any: node(VR.Any, ["args", "result"]),
    VR.CodeBlock: node(VR.CodeBlock, ["stmts"]), VR.If: node(VR.If, ["test", "body", "orelse"]),
    VR.CaseWhen: node(VR.CaseWhen, ["value", "branches", "default"]), VR.SelectWith: node(VR.SelectWith, ["arg", "branches", "default", "target"]),
    VR.Assert: node(VR.Assert, ["cond", "msg"]), VR.Nop: node(VR.Nop, []), VR.Comment: node(VR.Comment, ["lines"]),
}


def is_node(x, cls, **fields):
    if not (isinstance(x, SObj) and x.kind is cls):
        return False
    for k, v in fields.items():
        got = x.fields.get(k)
        if callable(v) and not isinstance(v, (SObj, Opaque)):
            if not v(got):
                return False
        elif got is not v and got != v:
            return False
    return True


def val(o):
    return lambda x: is_node(x, VR.Value, obj=o)


def tgt(o):
    return lambda x: is_node(x, VR.Target, obj=o)


def const(o):
    return lambda x: is_node(x, VR.Constant, obj=o)


def assigned(ctx, result, expr_check):
    cls = VR.SignalAssignment if ctx is CTX.CONCURRENT else VR.VariableAssignment
    return lambda res: is_node(res, cls, target=tgt(result), source=expr_check)


def M(tag, kind=Temporary):
    o = SObj(kind, f_tag=tag)
    return o


def add(con, name, build, check, ctx, rejects=False):
    INP = Built([], lambda env: build(), lambda a: "<ir>", lambda a: None)
    SELF = Built([], lambda env: SObj(VA._StmtAssembler), lambda a: "<asm>", lambda a: None)

    def spec(sx, self, inp, **kw):
        if rejects:
            sx.reject(AssertionError)
        real = sx.real_args[1]
        return C.Pred(lambda res: check(real, res), "structure preserving translation")

    c = Case(f"{name},{ctx.name}", [SELF, INP], spec, kwargs={"context": Built([], (lambda c_: lambda env: c_)(ctx), lambda a: "ctx", lambda a: None)}, props=PROPS)
    c.native = False
    c.may_reject = AssertionError
    c.interp_flags = {"class_call_models": CLASS_MODELS}
    con.cases.append(c)


con = contract(QUAL, PROPS + ("C08",))
for ctx in (CTX.SEQUENTIAL, CTX.CONCURRENT):
    # expressions
    add(con, "BinOp", lambda: SObj(ir.BinOp, _op=ir.BinOp.Operator.SUB, _lhs=M("lhs"), _rhs=M("rhs"), _result=M("res")),
        lambda i, r, ctx=ctx: assigned(ctx, i.fields["_result"], lambda e: is_node(e, VR.BinOp, op=i.fields["_op"], lhs=val(i.fields["_lhs"]), rhs=val(i.fields["_rhs"]), result=i.fields["_result"]))(r), ctx)
    add(con, "UnaryOp", lambda: SObj(ir.UnaryOp, _op=ir.UnaryOp.Operator.NEG, _arg=M("arg"), _result=M("res")),
        lambda i, r, ctx=ctx: assigned(ctx, i.fields["_result"], lambda e: is_node(e, VR.UnaryOp, op=i.fields["_op"], arg=val(i.fields["_arg"]), result=i.fields["_result"]))(r), ctx)
    add(con, "Compare", lambda: SObj(ir.Compare, _op=ir.Compare.Operator.LT, _lhs=M("lhs"), _rhs=M("rhs"), _result=M("res")),
        lambda i, r, ctx=ctx: assigned(ctx, i.fields["_result"], lambda e: is_node(e, VR.Compare, op=i.fields["_op"], lhs=val(i.fields["_lhs"]), rhs=val(i.fields["_rhs"]), result=i.fields["_result"]))(r), ctx)
    add(con, "Boolean", lambda: SObj(ir.Boolean, _arg=M("arg"), _result=M("res")),
        lambda i, r, ctx=ctx: assigned(ctx, i.fields["_result"], lambda e: is_node(e, VR.Boolean, arg=val(i.fields["_arg"])))(r), ctx)
    for cls, vcls in ((ir.All, VR.All), (ir.Any, VR.Any)):
        for n in (0, 2):
            add(con, f"{cls.__name__}-{n}", (lambda cls=cls, n=n: SObj(cls, _args=[M(f"a{j}") for j in range(n)], _result=M("res"))),
                lambda i, r, ctx=ctx, vcls=vcls: assigned(ctx, i.fields["_result"], lambda e: is_node(e, vcls, result=i.fields["_result"]) and len(e.fields["args"]) == len(i.fields["_args"]) and all(val(a)(x) for a, x in zip(i.fields["_args"], e.fields["args"])))(r), ctx)
    # assignments
    add(con, "SignalAssignment", lambda: SObj(ir.SignalAssignment, _target=M("t", Signal), _source=M("s")),
        lambda i, r: is_node(r, VR.SignalAssignment, target=tgt(i.fields["_target"]), source=val(i.fields["_source"])), ctx)
    add(con, "SignalPush", lambda: SObj(ir.SignalPush, _target=M("t", Signal), _source=M("s")),
        lambda i, r: is_node(r, VR.SignalAssignment, target=tgt(i.fields["_target"]), source=val(i.fields["_source"])), ctx, rejects=ctx is CTX.CONCURRENT)
    add(con, "VariableAssignment", lambda: SObj(ir.VariableAssignment, _target=M("t"), _source=M("s")),
        lambda i, r: is_node(r, VR.VariableAssignment, target=tgt(i.fields["_target"]), source=val(i.fields["_source"])), ctx, rejects=ctx is CTX.CONCURRENT)

    # control structure
    def mk_block(tag):
        return SObj(ir.CodeBlock, _content=[SObj(ir.SignalAssignment, _target=M(tag + ".t", Signal), _source=M(tag + ".s"))])

    def block_ok(ib, vb):
        return is_node(vb, VR.CodeBlock) and len(vb.fields["stmts"]) == 1 and is_node(vb.fields["stmts"][0], VR.SignalAssignment, target=tgt(ib.fields["_content"][0].fields["_target"]), source=val(ib.fields["_content"][0].fields["_source"]))

    add(con, "If", lambda: SObj(ir.If, _test=M("test"), _body=mk_block("body"), _orelse=mk_block("orelse")),
        lambda i, r: is_node(r, VR.If, test=lambda t: is_node(t, VR.Boolean, arg=val(i.fields["_test"]))) and block_ok(i.fields["_body"], r.fields["body"]) and block_ok(i.fields["_orelse"], r.fields["orelse"]), ctx)
    for with_default in (False, True):
        def mk_case(with_default=with_default):
            return SObj(ir.CaseWhen, _value=M("sel"), _branches=[SObj(ir.CaseWhen.Branch, cond=f"choice{j}", code=mk_block(f"b{j}")) for j in range(2)], _default=mk_block("d") if with_default else None)

        def case_ok(i, r, with_default=with_default):
            if not is_node(r, VR.CaseWhen, value=val(i.fields["_value"])):
                return False
            br = r.fields["branches"]
            if len(br) != 2 or not all(const(ib.fields["cond"])(vb[0]) and block_ok(ib.fields["code"], vb[1]) for ib, vb in zip(i.fields["_branches"], br)):
                return False
            return block_ok(i.fields["_default"], r.fields["default"]) if with_default else r.fields["default"] is None

        add(con, f"CaseWhen{'-default' if with_default else ''}", mk_case, case_ok, ctx)
    for with_default in (False, True):
        for res_kind in (Signal, Temporary):
            def mk_sel(with_default=with_default, res_kind=res_kind):
                return SObj(ir.SelectWith, _arg=M("sel"), _branches=[[f"choice{j}", M(f"v{j}")] for j in range(2)], _default=M("dv") if with_default else None, _result=M("res", res_kind))

            def sel_ok(i, r, ctx=ctx, with_default=with_default, res_kind=res_kind):
                res = i.fields["_result"]
                if ctx is CTX.CONCURRENT:
                    if not is_node(r, VR.SelectWith, arg=val(i.fields["_arg"]), target=tgt(res)):
                        return False
                    br = r.fields["branches"]
                    if len(br) != 2 or not all(const(ib[0])(vb[0]) and val(ib[1])(vb[1]) for ib, vb in zip(i.fields["_branches"], br)):
                        return False
                    return val(i.fields["_default"])(r.fields["default"]) if with_default else r.fields["default"] is None
                A = VR.SignalAssignment if res_kind is Signal else VR.VariableAssignment
                one = lambda blk, v: is_node(blk, VR.CodeBlock) and len(blk.fields["stmts"]) == 1 and is_node(blk.fields["stmts"][0], A, target=tgt(res), source=val(v))
                if not is_node(r, VR.CaseWhen, value=val(i.fields["_arg"])):
                    return False
                br = r.fields["branches"]
                if len(br) != 2 or not all(const(ib[0])(vb[0]) and one(vb[1], ib[1]) for ib, vb in zip(i.fields["_branches"], br)):
                    return False
                return one(r.fields["default"], i.fields["_default"]) if with_default else r.fields["default"] is None

            add(con, f"SelectWith{'-default' if with_default else ''}->{res_kind.__name__}", mk_sel, sel_ok, ctx)
    add(con, "Assert", lambda: SObj(ir.Assert, _cond=M("c"), _msg="msg"),
        lambda i, r: is_node(r, VR.Assert, msg="msg", cond=lambda t: is_node(t, VR.Boolean, arg=val(i.fields["_cond"]))), ctx)


# ---- C08: an expression node is a DEFINITE assignment of its result ---------------------------------------------------------
# The IR-level analysis (detect_uninitialized_temporaries) counts every ir.Expression as writing its result on the path it
# stands on.  The emitted statement must therefore assign the result on EVERY path through it -- for the one expression
# that is lowered to a control statement (SelectWith in a sequential context -> case) every choice including `others`.
def assigns_on_every_path(stmt, result, exhaustive=False):
    if is_node(stmt, VR.VariableAssignment) or is_node(stmt, VR.SignalAssignment):
        return tgt(result)(stmt.fields["target"])
    if is_node(stmt, VR.CodeBlock):
        return any(assigns_on_every_path(s, result) for s in stmt.fields["stmts"])
    if is_node(stmt, VR.CaseWhen):
        d = stmt.fields["default"]
        listed = len(stmt.fields["branches"]) > 0 and all(assigns_on_every_path(b[1], result) for b in stmt.fields["branches"])
        if exhaustive:
            # the choices cover every value of the selector: `others` stands for no value (it may be absent, it must not do anything else)
            return listed and (d is None or assigns_on_every_path(d, result))
        return d is not None and assigns_on_every_path(d, result) and listed
    if is_node(stmt, VR.If):
        return stmt.fields["orelse"] is not None and assigns_on_every_path(stmt.fields["body"], result) and assigns_on_every_path(stmt.fields["orelse"], result)
    return False


def add_total(con, name, build, exhaustive=False):
    # exhaustive: an ir.SelectWith WITHOUT default reaches the back end only for choices that cover every value of the selector
    # (front end: PrepareAst.convert_intrinsic[select:*] and _select_is_exhaustive[*], contracts.c08_select)
    INP = Built([], lambda env: build(), lambda a: "<ir>", lambda a: None)
    SELF = Built([], lambda env: SObj(VA._StmtAssembler), lambda a: "<asm>", lambda a: None)

    def spec(sx, self, inp, **kw):
        real = sx.real_args[1]
        return C.Pred(lambda res: assigns_on_every_path(res, real.fields["_result"], exhaustive), "the emitted statement assigns the expression's result on every path")

    c = Case(f"definite-assignment:{name},SEQUENTIAL", [SELF, INP], spec, kwargs={"context": Built([], lambda env: CTX.SEQUENTIAL, lambda a: "ctx", lambda a: None)}, props=("C08",))
    c.native = False
    c.interp_flags = {"class_call_models": CLASS_MODELS}
    c.custom_replay = "contracts.c02_assembler.replay_select_keeps_stale_value"
    c.finding_key = "select_with-without-default-in-a-sequential-context"
    con.cases.append(c)


add_total(con, "BinOp", lambda: SObj(ir.BinOp, _op=ir.BinOp.Operator.SUB, _lhs=M("lhs"), _rhs=M("rhs"), _result=M("res")))
add_total(con, "Compare", lambda: SObj(ir.Compare, _op=ir.Compare.Operator.LT, _lhs=M("lhs"), _rhs=M("rhs"), _result=M("res")))
add_total(con, "Boolean", lambda: SObj(ir.Boolean, _arg=M("arg"), _result=M("res")))
for with_default in (True, False):
    for n in (1, 2):
        add_total(con, f"SelectWith-{n}-choices{'-default' if with_default else '-nodefault'}",
                  (lambda n=n, with_default=with_default: SObj(ir.SelectWith, _arg=M("sel"), _branches=[[f"choice{j}", M(f"v{j}")] for j in range(n)], _default=M("dv") if with_default else None, _result=M("res"))), exhaustive=not with_default)

_SELECT_SEQ = '''
from __future__ import annotations
from cohdl import Entity, Port, BitVector, Bit, std

class Top(Entity):
    clk = Port.input(Bit)
    s = Port.input(BitVector[2])
    a = Port.input(BitVector[4])
    y = Port.output(BitVector[4])
    def architecture(self):
        @std.sequential(std.Clock(self.clk))
        def logic():
            self.y <<= std.select(self.s, {"00": self.a, "01": ~self.a})

text = std.VhdlCompiler.to_string(Top)
proc = text[text.index("logic: process"):]
print("OTHERS_NULL" if "when others =>\\n          null;" in proc or "when others =>" in proc and "null;" in proc.split("when others =>")[1][:30] else "OTHERS_ASSIGNS")
import re
m = re.search(r"buffer_y <= (\\w+);", proc)
print("READS", m.group(1) if m else None)
'''


def replay_select_keeps_stale_value(payload):
    """std.select without default inside a clocked process: the result variable is assigned in the listed choices only
    (`when others => null;`) and read afterwards, so for an unlisted selector the output gets the value of an earlier clock"""
    from contracts.c06_extra import _run_design

    rc, out = _run_design(_SELECT_SEQ)
    return {"reproduced": rc == 0 and "OTHERS_NULL" in out and "READS" in out and "None" not in out, "detail": out[-300:]}
