"""C18 bounded stand-in: the real std helpers evaluated on constants, for every
input within the stated bound, against their mathematical definition (taken
from the statement of C18 and the documented examples in _core_utility.pyi).

Bit strings are written msb first, as in the documentation."""

from __future__ import annotations

import itertools
import random

import cohdl
from cohdl import Bit, BitVector, Unsigned, Signed, Null, Full, std
from cohdl.std import _core_utility as CU


def bv(s):
    return BitVector[len(s)](s)


def s_of(v):
    """bit string (msb first) of a BitVector-like / Bit result"""
    if hasattr(v, "_value") and hasattr(v, "_root"):
        v = v._value  # type-qualified result (Temporary[...]): its value
    if isinstance(v, Bit):
        return "1" if v else "0"
    return str(v.bitvector) if hasattr(v, "bitvector") else str(v)


def all_strings(wmax, wmin=1):
    for w in range(wmin, wmax + 1):
        for t in itertools.product("01", repeat=w):
            yield "".join(t)


class Sweep:
    def __init__(self):
        self.n = 0
        self.distinct = 0
        self.fail = []
        self.samples = []
        self.per_helper = {}

    def check(self, helper, args_desc, got, want):
        self.n += 1
        self.per_helper[helper] = self.per_helper.get(helper, 0) + 1
        if got != want:
            if len(self.fail) < 8 and helper not in {f["helper"] for f in self.fail}:
                self.fail.append({"helper": helper, "input": args_desc, "got": got, "want": want})
        elif self.per_helper[helper] == 3:
            self.samples.append({"helper": helper, "input": args_desc, "result": got})

    def run(self, helper, args_desc, fn, want):
        try:
            got = fn()
        except AssertionError:
            got = "REJECTED"
        except Exception as e:
            got = f"EXC {type(e).__name__}"
        self.check(helper, args_desc, got, want)


def uint(v):
    return v.to_int() if hasattr(v, "to_int") else int(v)


def helpers_sweep(tier="quick", seed=0):
    W = 6 if tier == "quick" else 8
    S = Sweep()
    rng = random.Random(seed)
    strings = list(all_strings(W))
    for s in strings:
        w = len(s)
        v = int(s, 2)
        lsb_first = s[::-1]
        # counting helpers (index of first element from the lsb that breaks the run)
        def run_len(seq, pred):
            n = 0
            for ch in seq:
                if not pred(ch):
                    break
                n += 1
            return n

        S.run("count_trailing_zeros", s, lambda: uint(std.count_trailing_zeros(bv(s))), run_len(lsb_first, lambda c: c == "0"))
        S.run("count_trailing_ones", s, lambda: uint(std.count_trailing_ones(bv(s))), run_len(lsb_first, lambda c: c == "1"))
        S.run("count_leading_zeros", s, lambda: uint(std.count_leading_zeros(bv(s))), run_len(s, lambda c: c == "0"))
        S.run("count_leading_ones", s, lambda: uint(std.count_leading_ones(bv(s))), run_len(s, lambda c: c == "1"))
        S.run("count_elements_while(val)", s, lambda: uint(std.count_elements_while(bv(s), Bit("1"))), run_len(lsb_first, lambda c: c == "1"))
        S.run("count_elements_until(val)", s, lambda: uint(std.count_elements_until(bv(s), Bit("1"))), run_len(lsb_first, lambda c: c != "1"))
        S.run("count_elements_while(cond)", s, lambda: uint(std.count_elements_while(bv(s), cond=lambda b: not b)), run_len(lsb_first, lambda c: c == "0"))
        S.run("count_elements_until(cond)", s, lambda: uint(std.count_elements_until(bv(s), cond=lambda b: not b)), run_len(lsb_first, lambda c: c != "0"))
        S.run("width of count result", s, lambda: std.count_trailing_zeros(bv(s)).width, w.bit_length())
        S.run("is_one_hot", s, lambda: bool(std.is_one_hot(bv(s))), s.count("1") == 1)
        S.run("reverse_bits", s, lambda: s_of(std.reverse_bits(bv(s))), s[::-1])
        S.run("count(value)", s, lambda: uint(std.count(list(bv(s)), value=Bit(1))), s.count("1"))
        S.run("count(check)", s, lambda: uint(std.count(list(bv(s)), check=lambda b: not b)), s.count("0"))
        S.run("as_bitvector", s, lambda: s_of(std.as_bitvector(bv(s).unsigned)), s)
        for n in range(0, w + 1):
            S.run("rol", (s, n), lambda: s_of(std.rol(bv(s), n)), s[n:] + s[:n])
            S.run("ror", (s, n), lambda: s_of(std.ror(bv(s), n)), s[w - n:] + s[: w - n] if n else s)
        for fill in ("0", "1", "01", "110"):
            if len(fill) > w:
                continue
            f = Bit(fill) if len(fill) == 1 else bv(fill)
            S.run("lshift_fill", (s, fill), lambda: s_of(std.lshift_fill(bv(s), f)), (s + fill)[-w:])
            S.run("rshift_fill", (s, fill), lambda: s_of(std.rshift_fill(bv(s), f)), (fill + s)[:w])
        if w <= 4:
            for k in range(1, 5):
                S.run("repeat", (s, k), lambda: s_of(std.repeat(bv(s), k)), s * k)
                S.run("stretch", (s, k), lambda: s_of(std.stretch(bv(s), k)), "".join(c * k for c in s))
            for l, r in itertools.product(range(0, 3), repeat=2):
                for fill, fc in ((Null, "0"), (Full, "1"), (Bit(1), "1")):
                    S.run("pad", (s, l, r, fc), lambda: s_of(std.pad(bv(s), l, r, fill)), fc * l + s + fc * r)
            for rw in range(w, w + 3):
                S.run("leftpad", (s, rw), lambda: s_of(std.leftpad(bv(s), rw)), "0" * (rw - w) + s)
                S.run("leftpad(Full)", (s, rw), lambda: s_of(std.leftpad(bv(s), rw, Full)), "1" * (rw - w) + s)
                S.run("rightpad", (s, rw), lambda: s_of(std.rightpad(bv(s), rw)), s + "0" * (rw - w))
                S.run("rightpad(bit)", (s, rw), lambda: s_of(std.rightpad(bv(s), rw, Bit(1))), s + "1" * (rw - w))
        # batched / select_batch
        for n in range(1, w + 1):
            want = [s[max(0, w - (i + 1) * n): w - i * n] for i in range((w + n - 1) // n)]
            if w % n == 0:
                S.run("batched", (s, n), lambda: [s_of(x) for x in std.batched(bv(s), n)], want)
                k = w // n
                for sel in range(k):
                    oh = format(1 << sel, f"0{k}b")
                    S.run("select_batch", (s, oh, n), lambda: s_of(std.select_batch(bv(s), bv(oh), n)), want[sel])
            else:
                S.run("batched(partial)", (s, n), lambda: [s_of(x) for x in std.batched(bv(s), n, allow_partial=True)], want)
                S.run("batched(reject)", (s, n), lambda: [s_of(x) for x in std.batched(bv(s), n)], "REJECTED")
    # one_hot
    for w in range(1, W + 3):
        for i in range(0, w):
            S.run("one_hot", (w, i), lambda: s_of(std.one_hot(w, i)), format(1 << i, f"0{w}b"))
    # pairs: concat, apply_mask, Mask
    small = list(all_strings(4 if tier == "quick" else 5))
    for a, b in itertools.product(small, repeat=2):
        S.run("concat", (a, b), lambda: s_of(std.concat(bv(a), bv(b))), a + b)
        S.run("concat(bit)", (a, b), lambda: s_of(std.concat(bv(a), Bit(b[0]), bv(b))), a + b[0] + b)
        if len(a) == len(b):
            for m in all_strings(len(a), len(a)):
                want = "".join(nb if mb == "1" else ob for ob, nb, mb in zip(a, b, m))
                S.run("apply_mask", (a, b, m), lambda: s_of(std.apply_mask(bv(a), bv(b), bv(m))), want)
                S.run("Mask.apply", (a, b, m), lambda: s_of(std.Mask(bv(m)).apply(bv(a), bv(b))), want)
            S.run("Mask(Null)", (a, b), lambda: s_of(std.Mask(Null).apply(bv(a), bv(b))), a)
            S.run("Mask(Full)", (a, b), lambda: s_of(std.Mask(Full).apply(bv(a), bv(b))), b)
    # minimum / maximum family: lists of small unsigned values, first extremum wins
    U = Unsigned[2]
    for n in range(1, 5 if tier == "quick" else 6):
        for vals in itertools.product(range(4), repeat=n):
            lst = [U(x) for x in vals]
            mn, mx = min(vals), max(vals)
            S.run("minimum", vals, lambda: uint(std.minimum(lst)), mn)
            S.run("maximum", vals, lambda: uint(std.maximum(lst)), mx)
            S.run("min_index", vals, lambda: uint(std.min_index(lst)), vals.index(mn))
            S.run("max_index", vals, lambda: uint(std.max_index(lst)), vals.index(mx))
            S.run("min_element", vals, lambda: tuple(uint(x) for x in std.min_element(lst)), (vals.index(mn), mn))
            S.run("max_element", vals, lambda: tuple(uint(x) for x in std.max_element(lst)), (vals.index(mx), mx))
            if n >= 2:
                S.run("minimum(*args)", vals, lambda: uint(std.minimum(*lst)), mn)
                S.run("maximum(*args)", vals, lambda: uint(std.maximum(*lst)), mx)
            if n <= 3:
                # key= and cmp= are honoured by every spelling (list and varargs): an order-reversing key swaps
                # minimum and maximum; ties resolve to the first element
                rev = lambda x: ~x  # Unsigned[2]: 3 - x
                S.run("minimum(key)", vals, lambda: uint(std.minimum(lst, key=rev)), mx)
                S.run("maximum(key)", vals, lambda: uint(std.maximum(lst, key=rev)), mn)
                S.run("min_element(key)", vals, lambda: tuple(uint(x) for x in std.min_element(lst, key=rev)), (vals.index(mx), mx))
                S.run("max_element(key)", vals, lambda: tuple(uint(x) for x in std.max_element(lst, key=rev)), (vals.index(mn), mn))
                S.run("min_index(key)", vals, lambda: uint(std.min_index(lst, key=rev)), vals.index(mx))
                S.run("max_index(key)", vals, lambda: uint(std.max_index(lst, key=rev)), vals.index(mn))
                if n >= 2:
                    S.run("minimum(*args,key)", vals, lambda: uint(std.minimum(*lst, key=rev)), mx)
                    S.run("maximum(*args,key)", vals, lambda: uint(std.maximum(*lst, key=rev)), mn)
                    S.run("minimum(*args,cmp)", vals, lambda: uint(std.minimum(*lst, cmp=lambda a, b: a > b)), mx)
    # clamp
    U4 = Unsigned[4]
    for v, lo, hi in itertools.product(range(16), range(0, 16, 3), range(0, 16, 3)):
        if lo <= hi:
            S.run("clamp", (v, lo, hi), lambda: uint(std.clamp(U4(v), lo, hi)), min(max(v, lo), hi))
    S4 = Signed[4]
    for v, lo, hi in itertools.product(range(-8, 8), range(-8, 8, 3), range(-8, 8, 3)):
        if lo <= hi:
            S.run("clamp(signed)", (v, lo, hi), lambda: uint(std.clamp(S4(v), lo, hi)), min(max(v, lo), hi))
    # choose_first / select / cond
    for conds in itertools.product((False, True), repeat=4):
        want = next((i for i, c in enumerate(conds) if c), "default")
        S.run("choose_first", conds, lambda: std.choose_first(*[(c, i) for i, c in enumerate(conds)], default="default"), want)
    for k in range(0, 5):
        S.run("select", k, lambda: std.select(k, {1: "a", 2: "b", 3: "c"}, default="d"), {1: "a", 2: "b", 3: "c"}.get(k, "d"))
    for c in (True, False):
        S.run("cond", c, lambda: std.cond(c, "t", "f"), "t" if c else "f")
    # folds: an associative, non-commutative operator (string concatenation) exposes any reordering
    S.run("binary_fold(single)", 1, lambda: uint(std.binary_fold(lambda a, b: a + b, [Unsigned[3](5)])), 5)
    for n in range(2, 10 if tier == "quick" else 14):
        pats = [format((5 * i + 3) % 16, "04b") for i in range(n)]  # distinct-ish 4 bit patterns
        items = [bv(p) for p in pats]
        cat = lambda a, b: a @ b  # associative, NOT commutative: any reordering shows
        S.run("binary_fold", n, lambda: s_of(std.binary_fold(cat, items)), "".join(pats))
        S.run("binary_fold(right)", n, lambda: s_of(std.binary_fold(cat, items, right_fold=True)), "".join(pats))
        for bs in range(2, 7):
            S.run("batched_fold", (n, bs), lambda: s_of(std.batched_fold(cat, items, batch_size=bs)), "".join(pats))
    # per-batch population-count tables and the overflow-free adder used by count_set_bits / count_clear_bits
    for w in range(1, 7 if tier == "quick" else 9):
        sm, cm = CU._set_bit_map(w), CU._clear_bit_map(w)
        S.run("_set_bit_map", w, lambda: {k: uint(x) for k, x in sm.items()}, {k: bin(k).count("1") for k in range(2**w)})
        S.run("_clear_bit_map", w, lambda: {k: uint(x) for k, x in cm.items()}, {k: w - bin(k).count("1") for k in range(2**w)})
        S.run("_set_bit_map width", w, lambda: {x.width for x in sm.values()}, {w.bit_length()})
    for wa, wb in itertools.product(range(1, 5), repeat=2):
        for a, b in itertools.product(range(2**wa), range(2**wb)):
            S.run("_safe_add_unsigned", (wa, a, wb, b), lambda: (uint(CU._safe_add_unsigned(Unsigned[wa](a), Unsigned[wb](b))), CU._safe_add_unsigned(Unsigned[wa](a), Unsigned[wb](b)).width), (a + b, max(wa, wb) + 1))
    for l, n in itertools.product(range(1, 40), range(1, 12)):
        S.run("_batched_indices", (l, n), lambda: CU._batched_indices(l, n), [(min(o + n - 1, l - 1), o) for o in range(0, l, n)])
    # CRC: several bits per step == the single-bit polynomial-division step iterated
    from cohdl.std._crc import BitwiseCrc

    def crc_ref(reg, poly, w, data):
        for d in data:
            c = ((reg >> (w - 1)) & 1) ^ d
            reg = (reg << 1) & (2**w - 1)
            if c:
                reg ^= poly
        return reg

    for w in (2, 3, 4) if tier == "quick" else (2, 3, 4, 5, 6):
        for poly in range(1, 2**w, 2 if w > 3 else 1):
            crc = BitwiseCrc.__new__(BitwiseCrc)
            crc._poly = bv(format(poly, f"0{w}b"))
            for reg in range(2**w):
                for n in (1, 2, 3) if tier == "quick" else (1, 2, 3, 4, 5):
                    for data in itertools.product((0, 1), repeat=n):
                        S.run("BitwiseCrc._calc_steps", (w, poly, reg, data),
                              lambda: int(s_of(crc._calc_steps(bv(format(reg, f"0{w}b")), *[Bit(d) for d in data])), 2), crc_ref(reg, poly, w, data))
    # the whole helper object: messages fed bit by bit and several bits per step, clear() between messages, every
    # initial value -- the register must follow the polynomial-division definition started from the INITIAL value
    def reg_of(c):
        return int(s_of(c._reg), 2)

    for w in (3, 4):
        for poly in (0b011, 0b101) if w == 3 else (0b0011, 0b1001):
            for init_name, init in (("Null", Null), ("Full", Full), ("literal", bv(format(5 % 2**w, f"0{w}b")))):
                init_int = {"Null": 0, "Full": 2**w - 1, "literal": 5 % 2**w}[init_name]
                for msgs in itertools.product(list(itertools.product((0, 1), repeat=2)) + [(1, 0, 1)], repeat=2):
                    def run_messages():
                        crc = BitwiseCrc(bv(format(poly, f"0{w}b")), initial_value=init)
                        out = []
                        for k, m in enumerate(msgs):
                            if k:
                                crc.clear()
                            if k % 2 == 0:
                                for d in m:
                                    crc.update(Bit(d))
                            else:
                                crc.update_multiple(*[Bit(d) for d in m])
                            out.append(reg_of(crc))
                        return out

                    S.run("BitwiseCrc(messages)", (w, poly, init_name, msgs), run_messages, [crc_ref(init_int, poly, w, m) for m in msgs])
    violations = []
    for f in S.fail:
        violations.append({
            "kind": "custom", "qual": "<C18 helper sweep>", "case": f["helper"], "oid": f"C18/helpers-sweep[{f['helper']}]#bounded", "check": "helpers_sweep", "key": f["helper"],
            "assignment": {"helper": f["helper"], "input": repr(f["input"])}, "solver": {"got": repr(f["got"])[:200], "want": repr(f["want"])[:200]}, "reproduced": True,
            "replay_payload": {"property": "C18", "custom": "contracts.c18_helpers.replay", "helper": f["helper"], "tier": tier, "obligation": f"C18/helpers-sweep[{f['helper']}]#bounded",
                               "verifier_output": f"{f['helper']}({f['input']!r}) = {f['got']!r}, definition gives {f['want']!r}"},
        })
    return {
        "evaluations": S.n,
        "distinct": S.n,
        "violations": violations,
        "samples": S.samples[:6],
        "bounded": [{"function": h, "case": "exhaustive over the stated bound", "evaluations": c, "exhaustive_within_bound": True,
                     "bound": f"all bit strings of width <= {W} (pairs: width <= {4 if tier == 'quick' else 5}); lists of <= {4 if tier == 'quick' else 5} two-bit values; folds over <= {9 if tier == 'quick' else 13} items, batch sizes 2..6"}
                    for h, c in sorted(S.per_helper.items())],
    }


def replay(payload):
    r = helpers_sweep(payload.get("tier", "quick"), 0)
    hit = [v for v in r["violations"] if v["case"] == payload["helper"]]
    return {"reproduced": bool(hit), "detail": hit[0]["solver"] if hit else "helper agrees with its definition on the whole bound"}
