"""C05 / C03: every assignment form of qualified objects performs the trial
assignment on the placeholder value (so the conversion matrix decides
acceptance) and yields an assignment intrinsic with the right target, source
and mode.

Functions: Signal._next_setter_replacement (<<=, .next),
Signal._push_setter_replacement (^=, .push),
Variable._value_setter_replacement (@=, .value),
TypeQualifier._assign_replacement (AssignMode dispatch)."""

from __future__ import annotations

import inspect

import cohdl
from cohdl import Unsigned, Signed, BitVector, Integer, Bit, Null, Full, Signal, Variable, Temporary
from cohdl._core import _intrinsic_operations as intr_op
from cohdl._core._intrinsic_operations import AssignMode, _IntrinsicAssignment
from cohdl._core._type_qualifier import TypeQualifier

from pyvc import contracts as C
from pyvc import interp as I
from pyvc import sym
from pyvc.contracts import Case, contract, Const
from pyvc.values import SCls, SObj
from contracts import core_models as M
from contracts.core_models import vec, width, bits, is_kind
from contracts.c05_convert import convert, KINDS, source_shapes
from contracts.c05_format_cast import Built, KNAME

PROPS = ("C05", "C03")
P2 = sym.pow2

for _name, _cls in inspect.getmembers(intr_op, inspect.isclass):
    if _cls.__module__ == intr_op.__name__ and "__init__" in _cls.__dict__:
        I.register_inline(_cls.__dict__["__init__"])

C.inline("cohdl._core._type_qualifier:_decay")
C.inline("cohdl._core._type_qualifier:TypeQualifier._needs_array_elem_assignment")
C.inline("cohdl._core._primitive_type:is_primitive")


def qualified(qcls, qsrc, kind, default):
    """symbolic Signal/Variable[kind[w]] object; default: has a default value or not"""

    def make(env):
        prim = vec(kind, env["w"], env["a"])
        o = SObj(qcls, _value=prim, _ref_spec=[], _attributes=[], _Wrapped=SCls(kind, width=env["w"]), _name="obj",
                 _default=(vec(kind, env["w"], 0) if default else None))
        o.fields["_root"] = o
        return o

    def src(asg):
        w = asg["w"]
        d = f'cohdl.{KNAME[kind]}[{w}]("{asg["a"]:0{w}b}")' if default else "None"
        return f"cohdl.{qsrc}[cohdl.{KNAME[kind]}[{w}]]({d})"

    def sample(rng, asg):
        w = rng.randint(1, 8)
        asg["w"] = w
        asg["a"] = rng.randrange(2**w)

    return Built(["w", "a"], make, src, lambda asg: ("q", kind, asg["w"], default), lambda env: sym.And(env["w"] >= 1, env["a"] >= 0, env["a"] < P2(env["w"])), sample)


def setter_spec(kind, mode, needs_default=False, has_default=True):
    def spec(sx, target, value, *rest):
        if needs_default:
            sx.require(has_default)
        tw = target[2] if isinstance(target, tuple) else width(target.fields["_value"])
        prim = value.fields["_value"] if isinstance(value, SObj) and issubclass(value.kind, TypeQualifier) else value
        r = convert(sx, kind, tw, prim)  # rejection of the trial assignment propagates

        def holds(res):
            if not (isinstance(res, SObj) and res.kind is _IntrinsicAssignment):
                return False
            f = res.fields
            rtarget, rvalue = sx.real_args[0], sx.real_args[1]  # the objects the real body saw
            ok_t = f.get("target") is rtarget
            if isinstance(prim, SObj) and issubclass(prim.kind, cohdl._core._primitive_type._PrimitiveType):
                ok_s = f.get("source") is rvalue
            else:
                # non-primitive literal (int, Null, Full ...): a copy of the placeholder that now holds it
                s = f.get("source")
                ok_s = isinstance(s, SObj) and s is not rtarget.fields["_value"] and issubclass(s.kind, kind)
            return bool(ok_t and ok_s and f.get("mode") is mode)

        def native(res):
            return type(res) is _IntrinsicAssignment and res.mode is mode

        return C.Pred(holds, f"_IntrinsicAssignment(target, source, {mode})", native=native)

    return spec


def value_sources():
    out = []
    for nm, shp in source_shapes():
        out.append((nm, shp))
    # type-qualified (run-time) sources
    for K, srck, VS in KINDS:
        def make(env, K=K):
            p = vec(K, env["w2"], env["b"])
            o = SObj(Signal, _value=p, _ref_spec=[], _attributes=[], _Wrapped=SCls(K, width=env["w2"]))
            o.fields["_root"] = o
            return o

        def sample(rng, asg):
            w = rng.randint(1, 8)
            asg["w2"] = w
            asg["b"] = rng.randrange(2**w)

        out.append((
            f"rt-{K.__name__}",
            Built(["w2", "b"], make,
                  lambda asg, K=K: f'cohdl.Signal[cohdl.{KNAME[K]}[{asg["w2"]}]](cohdl.{KNAME[K]}[{asg["w2"]}]("{asg["b"]:0{asg["w2"]}b}"))',
                  lambda asg, K=K: vec(K, asg["w2"], asg["b"]),
                  lambda env: sym.And(env["w2"] >= 1, env["b"] >= 0, env["b"] < P2(env["w2"])), sample),
        ))
    return out


TQMOD = "cohdl._core._type_qualifier:"
for K, srck, VS in KINDS:
    for nm, shp in value_sources():
        if nm == "bool":
            continue
        con = contract(TQMOD + "Signal._next_setter_replacement", PROPS)
        con.cases.append(Case(f"{K.__name__}<-{nm}", [qualified(Signal, "Signal", K, True), shp], setter_spec(K, AssignMode.NEXT)))
        con = contract(TQMOD + "Variable._value_setter_replacement", PROPS)
        con.cases.append(Case(f"{K.__name__}<-{nm}", [qualified(Variable, "Variable", K, True), shp], setter_spec(K, AssignMode.VALUE)))
        con = contract(TQMOD + "Signal._push_setter_replacement", PROPS)
        con.cases.append(Case(f"{K.__name__}<-{nm}", [qualified(Signal, "Signal", K, True), shp], setter_spec(K, AssignMode.PUSH, True, True)))
        con.cases.append(Case(f"{K.__name__}<-{nm}@nodefault", [qualified(Signal, "Signal", K, False), shp], setter_spec(K, AssignMode.PUSH, True, False)))

M.NS["cohdl"] = cohdl


# ---- TypeQualifier._assign_replacement: AssignMode dispatch (C03 assignment-mode table) ----
def _setter_summary(mode, needs_default=False):
    def spec(sx, self, value):
        if needs_default:
            sx.require(self.fields.get("_default") is not None)
        prim = value.fields["_value"] if isinstance(value, SObj) and issubclass(value.kind, TypeQualifier) else value
        k = self.fields["_value"].kind
        kind = Unsigned if issubclass(k, Unsigned) else Signed if issubclass(k, Signed) else BitVector
        convert(sx, kind, width(self.fields["_value"]), prim)
        return SObj(_IntrinsicAssignment, target=self, source=value, mode=mode)

    return spec


C.CONTRACTS[TQMOD + "Signal._next_setter_replacement"].summary = _setter_summary(AssignMode.NEXT)
C.CONTRACTS[TQMOD + "Signal._push_setter_replacement"].summary = _setter_summary(AssignMode.PUSH, True)
C.CONTRACTS[TQMOD + "Variable._value_setter_replacement"].summary = _setter_summary(AssignMode.VALUE)

# the documented table: which mode an assignment form resolves to, per qualifier
EXPECTED_MODE = {
    (Signal, AssignMode.AUTO): AssignMode.NEXT,
    (Signal, AssignMode.NEXT): AssignMode.NEXT,
    (Signal, AssignMode.PUSH): AssignMode.PUSH,
    (Signal, AssignMode.VALUE): None,  # rejected
    (Variable, AssignMode.AUTO): AssignMode.VALUE,
    (Variable, AssignMode.VALUE): AssignMode.VALUE,
    (Variable, AssignMode.NEXT): None,
    (Variable, AssignMode.PUSH): None,
    (Temporary, AssignMode.AUTO): None,
    (Temporary, AssignMode.NEXT): None,
    (Temporary, AssignMode.PUSH): None,
    (Temporary, AssignMode.VALUE): None,
    (Signal, AssignMode._TEMP): None,
    (Variable, AssignMode._TEMP): None,
}

con = contract(TQMOD + "TypeQualifier._assign_replacement", PROPS)
for (qcls, mode), want in EXPECTED_MODE.items():

    def spec(sx, self, value, assign_mode, want=want):
        if want is None:
            sx.reject()

        def holds(res):
            return bool(isinstance(res, SObj) and res.kind is _IntrinsicAssignment and res.fields.get("target") is sx.real_args[0]
                        and res.fields.get("source") is sx.real_args[1] and res.fields.get("mode") is want)

        return C.Pred(holds, f"assignment with mode {want}", native=lambda res: type(res) is _IntrinsicAssignment and res.mode is want)

    qsrc = qcls.__name__
    c = Case(f"{qsrc}-{mode.name}", [qualified(qcls, qsrc, Unsigned, True), M.UShape("w2", "b", max_width=1), Const(mode, f"cohdl._core._intrinsic_operations.AssignMode.{mode.name}")], spec,
             requires=lambda env: env["w2"] <= env["w"])
    con.cases.append(c)


# ---- TypeQualifier._init_replacement: INITIALISATION inside a synthesizable context ------------------------------------
# `local = Variable[T](value)` does not pass through a setter: the declaration itself must apply the conversion matrix
# (rejected pairs must not reach the backend, whose casts would reinterpret or truncate the value).
from cohdl._core._intrinsic_operations import _IntrinsicDeclaration  # noqa: E402


def _tq_cls_attr_min(it, cls, name):
    if isinstance(cls, SCls) and name == "_Wrapped" and "wrapped" in cls.params:
        return cls.params["wrapped"]
    if isinstance(cls, SCls) and name == "__base_kind__":
        return cls.kind
    return I._MISSING


I.CLS_ATTR_MODELS.setdefault(TypeQualifier, _tq_cls_attr_min)  # contracts/c13_types.py registers a superset when loaded


def fresh_qualified(qcls, kind):
    def make(env):
        W = SCls(kind, width=env["w"])
        o = SObj(SCls(qcls, wrapped=W), _Wrapped=W)
        return o

    return Built(["w"], make, lambda asg: "<new object>", lambda asg: None, lambda env: env["w"] >= 1)


def _tq_init_model(it, self, value=None, **kw):
    # TypeQualifier.__init__(None, ...): the object starts uninitialised, without default
    w = self.fields["_Wrapped"]
    self.fields.update(_value=vec(w.kind, w.params["width"], 0, known=False), _default=None, _name=kw.get("name"), _ref_spec=[], _attributes=[], _noreset=False)
    self.fields["_root"] = self
    return None


def init_spec(kind):
    def spec(sx, self, value=None, **kw):
        tw = self.fields["_Wrapped"].params["width"]
        prim = value.fields["_value"] if isinstance(value, SObj) and issubclass(value.kind, TypeQualifier) else value
        convert(sx, kind, tw, prim)  # pairs the matrix rejects are rejected here

        def holds(res):
            return bool(isinstance(res, SObj) and res.kind is _IntrinsicDeclaration and res.fields.get("new_obj") is sx.real_args[0] and res.fields.get("assigned_value") is sx.real_args[1])

        return C.Pred(holds, "declaration of the new object with the given initial value")

    return spec


for qcls in (Signal, Variable, Temporary):
    # Signal has its own copy of the replacement (delayed_init support); Variable / Temporary use TypeQualifier's
    con = contract(TQMOD + ("Signal._init_replacement" if qcls is Signal else "TypeQualifier._init_replacement"), PROPS)
    for K, srck, VS in KINDS:
        for nm, shp in value_sources():
            if nm in ("bool", "null", "full", "int", "Integer", "bit"):
                continue  # literals are folded into the declaration by the constructor matrix itself (C05 construct cases)
            c = Case(f"{qcls.__name__}[{K.__name__}]<-{nm}", [fresh_qualified(qcls, K), shp], init_spec(K))
            c.native = False
            c.may_reject = AssertionError
            c.models = [(k.__dict__["__init__"], _tq_init_model) for k in (TypeQualifier, Signal, Variable, Temporary) if "__init__" in k.__dict__]
            c.models.append((BitVector.__dict__["_is_uninitialized"], lambda it, self: not self.fields.get("known", True)))
            con.cases.append(c)


# arrays initialised from a LIST: the declared array type's own constructor applies the conversion matrix element by element
# (Array[Unsigned[8], 2]([signed, unsigned]) is rejected outside a context); inside a context the list must go through that
# constructor too -- with the placeholder VALUES of the elements -- otherwise the backend casts every element with
# format_cast, which reinterprets an equal-width Signed as Unsigned.
class _ArrayType:
    """the declared array type (type(self)._Wrapped): constructing it checks the elements"""


def array_init_spec(accepts):
    def spec(sx, self, value=None, **kw):
        it = sx.it
        if not accepts:
            sx.reject(AssertionError)

        def holds(res):
            if not (isinstance(res, SObj) and res.kind is _IntrinsicDeclaration and res.fields.get("new_obj") is sx.real_args[0] and res.fields.get("assigned_value") is sx.real_args[1]):
                return False
            # one construction of the declared type over the VALUES of the listed elements, in order
            return len(it.constructed) == 1 and len(it.constructed[0]) == 2 and it.constructed[0][0] is it.elem_values[0] and it.constructed[0][1] is it.elem_values[1]

        return C.Pred(holds, "the declared array type was constructed from the element values (its check decides), then the declaration")

    return spec


for qcls in (Signal, Variable):
    con = contract(TQMOD + ("Signal._init_replacement" if qcls is Signal else "TypeQualifier._init_replacement"), PROPS)
    for accepts in (True, False):
        for seq in (list, tuple):
            def mk_list(env, seq=seq):
                elems = [SObj(Signal, f_tag=f"element{i}", _value=SObj(_ArrayType, f_tag=f"value of element{i}"), _ref_spec=[]) for i in range(2)]
                env["__elems__"] = elems
                return seq(elems)

            c = Case(f"{qcls.__name__}[Array]<-{seq.__name__}-of-qualified-elements,{'accepted' if accepts else 'rejected'}-by-the-array-type",
                     [Built([], (lambda q: lambda env: SObj(SCls(q, wrapped=_ArrayType), _Wrapped=_ArrayType))(qcls), lambda a: "<new object>", lambda a: None), Built([], mk_list, lambda a: "<list>", lambda a: None)], array_init_spec(accepts))
            c.native = False
            c.models = [(k.__dict__["__init__"], lambda it, self, value=None, **kw: None) for k in (TypeQualifier, Signal, Variable, Temporary) if "__init__" in k.__dict__]

            def _arr_setup(it, ctx, args, env, accepts=accepts):
                it.constructed = []
                it.elem_values = [e.fields["_value"] for e in (args[1] if isinstance(args[1], (list, tuple)) else [])]

                def construct(it_, a, kw):
                    it.constructed.append(list(a[0]))
                    if not accepts:
                        from pyvc.values import PyExc

                        raise PyExc(AssertionError, ("cannot initialize unsigned type from signed",), where="array constructor")
                    return SObj(_ArrayType)

                it.class_call_models = {_ArrayType: construct}

            c.setup = _arr_setup
            c.custom_replay = "contracts.c05_setters.replay_array_list_init"
            con.cases.append(c)

_ARRAY_LIST_INIT = '''
from cohdl import Entity, Port, Bit, Unsigned, Signed, Variable, Array, std
class E(Entity):
    clk = Port.input(Bit)
    s8 = Port.input(Signed[8])
    u8 = Port.input(Unsigned[8])
    o = Port.output(Unsigned[8])
    def architecture(self):
        @std.sequential(std.Clock(self.clk))
        def proc():
            arr = Variable[Array[Unsigned[8], 2]]([self.s8, self.u8])     # a Signed element for an Unsigned array
            self.o <<= arr[0]
try:
    t = std.VhdlCompiler.to_string(E)
    print("ACCEPTED", [l.strip() for l in t.splitlines() if "=> unsigned(std_logic_vector(s8))" in l])
except AssertionError as e:
    print("REJECTED", str(e)[:80])
'''


def replay_array_list_init(payload):
    from contracts.c06_extra import _run_design

    rc, out = _run_design(_ARRAY_LIST_INIT)
    return {"reproduced": rc == 0 and "ACCEPTED" in out, "detail": out[-300:]}
