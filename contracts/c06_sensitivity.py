"""C06 / C11: the sensitivity list the backend derives for a process declared `sensitivity.all`.

VHDL before 2008 has no `process(all)`: VhdlAssembler.apply(ir.Sequential) collects the signals the process reads and
lists them explicitly.  Contract on the real branch, for event streams of a process body (reads of whole signals, of
views / slices, through run-time indices of reference paths, reads of temporaries and variables, writes):
  * the list holds exactly the ROOTS of the signals that are read -- also those read only as the index of an element
    reference -- each once; temporaries, variables and signals that are only written are not listed (C06);
  * it is an insertion-ordered identity set in order of first read: no container ordered by object address or string
    hash is handed to the emitter (C11: the text must not depend on allocation history or the hash seed);
  * an explicit sensitivity list is passed on unchanged.
"""

from __future__ import annotations

from cohdl import Signal, Temporary, Variable
from cohdl._core._ir import _repr as ir
from cohdl._core._ir._repr import AccessFlags
from cohdl._core._intrinsic import _SensitivityAll, _SensitivityList
from cohdl._compiler.backend.vhdl import _vhdl_assembler as VA
from cohdl._compiler.backend.vhdl import _vhdl_repr as VR
from cohdl.utility.id_map import IdSet

from pyvc import contracts as C
from pyvc import interp as I
from pyvc.contracts import Case, contract
from pyvc.values import SObj
from contracts.c05_format_cast import Built
from contracts import c08_cleanup as CL  # event-stream model of _visit_referenced_objects
from contracts.c04_reset import gset, _GSet

PROPS = ("C06", "C11")
R, W = AccessFlags.READ, AccessFlags.WRITE


class _Scope:
    """ProcessScope / parent scope stand-in"""


_Scope.declare = lambda self, *a, **k: None
I.register_model(_Scope.declare, lambda it, self, *a, **k: None)
I.register_model(ir.Context.__dict__["name"], lambda it, self: self.fields.get("f_name"))


def root(kind, tag):
    o = SObj(kind, _ref_spec=[], f_tag=tag)
    o.fields["_root"] = o
    return o


def view(r, tag):
    return SObj(r.kind, _root=r, _ref_spec=["slice"], f_tag=tag)


STREAMS = {
    "reads-nothing": lambda s: [("dir", s["s3"], W)],
    "one-signal": lambda s: [("dir", s["s1"], R)],
    "view-then-root": lambda s: [("dir", view(s["s1"], "s1[3:0]"), R), ("dir", s["s1"], R)],
    "index-signal-of-a-reference": lambda s: [("ref", s["s2"], R), ("dir", view(s["s1"], "s1[s2]"), R)],
    "index-signal-of-a-written-element": lambda s: [("ref", s["s2"], R), ("dir", view(s["s3"], "s3[s2]"), W)],
    "mixed": lambda s: [("dir", s["t"], W), ("dir", view(s["s2"], "s2.unsigned"), R), ("dir", s["t"], R), ("dir", s["v"], R), ("dir", s["s3"], W), ("dir", s["s1"], R), ("dir", s["s2"], R)],
}


def seq_shape(stream, explicit):
    def make(env):
        objs = {"s1": root(Signal, "s1"), "s2": root(Signal, "s2"), "s3": root(Signal, "s3"), "t": root(Temporary, "t"), "v": root(Variable, "v")}
        sens = SObj(_SensitivityList, signals=[objs["s2"]]) if explicit else SObj(_SensitivityAll)
        return SObj(ir.Sequential, _sensitivity=sens, _always_expr=None, _code="CODE", attributes={}, f_name="proc", __events__=STREAMS[stream](objs), f_objs=objs)

    return Built([], make, lambda a: "None", lambda a: None)


def expected_roots(events):
    out = []
    for kind, o, acc in events:
        if acc is R and o.kind is Signal:  # IR statements report one flag per visit (c07_visit): READ, WRITE or PUSH
            r = o.fields["_root"]
            if not any(r is x for x in out):
                out.append(r)
    return out


def sens_spec(stream, explicit):
    def spec(sx, self, inp, **kw):
        real = sx.real_args[1]

        def holds(res):
            if not (isinstance(res, SObj) and res.kind is VR.Process):
                return False
            s = res.fields["f_sensitivity"]
            if explicit:
                return s is real.fields["_sensitivity"]
            if not (isinstance(s, SObj) and s.kind is _SensitivityList):
                return False
            coll = s.fields["f_signals"]
            if not (isinstance(coll, SObj) and coll.kind is _GSet):
                return False  # e.g. a builtin set: iteration order = object addresses
            got = coll.fields["items"] + coll.fields["added"]
            want = expected_roots(real.fields["__events__"])
            return len(got) == len(want) and all(a is b for a, b in zip(got, want))

        return C.Pred(holds, "roots of the read signals, first-read order, identity set")

    return spec


con = contract("cohdl._compiler.backend.vhdl._vhdl_assembler:VhdlAssembler.apply", PROPS)
SELF = Built([], lambda env: SObj(VA.VhdlAssembler), lambda a: "None", lambda a: None)
for stream in STREAMS:
    for explicit in (False, True):
        if explicit and stream != "mixed":
            continue
        c = Case(f"sensitivity:{'explicit-list' if explicit else 'all'},{stream}", [SELF, seq_shape(stream, explicit)], sens_spec(stream, explicit),
                 kwargs={"parent_scope": Built([], lambda env: SObj(_Scope), lambda a: "None", lambda a: None)}, props=PROPS)
        c.native = False
        c.models = [(VA.VhdlAssembler.__dict__["convert_stmt"], lambda it, self, *a, **k: SObj(VR.CodeBlock, f_tag="converted"))]
        c.interp_flags = {"class_call_models": {
            VR.ProcessScope: lambda it, args, kw: SObj(_Scope, f_kind="process"),
            VR.CodeBlock: lambda it, args, kw: SObj(VR.CodeBlock, f_stmts=args[0]),
            VR.Process: lambda it, args, kw: SObj(VR.Process, f_scope=args[0], f_code=args[1], f_sensitivity=args[2], f_attributes=args[3]),
            _SensitivityList: lambda it, args, kw: SObj(_SensitivityList, f_signals=args[0]),
            IdSet: lambda it, args, kw: gset(),
        }}
        con.cases.append(c)
