"""C13 (third clause) / C02 (slices, indices): views of a qualified object keep
the root and the qualifier, and their reference path denotes exactly the bits
the view aliases.

Ghost meaning of a reference path (as the backend reads it, _format_ref after
simplify()): a trailing Slice(start, stop, base) denotes root bits
[stop + sum(base) .. start + sum(base)], a trailing Offset(i, base) denotes bit
i + sum(base); an object without trailing Slice starts at bit 0.

  view[hi:lo]   ->  bits abs_lo(self)+lo .. abs_lo(self)+hi, width hi-lo+1
  view[i]       ->  bit abs_lo(self)+i
  iteration nr  ->  bit abs_lo(self)+nr
  .unsigned/.signed/.bitvector -> same path, same bits, other kind
"""

from __future__ import annotations

import cohdl
from cohdl import Unsigned, Signed, BitVector, Bit, Signal, Variable, Temporary
from cohdl._core._bit import BitState
from cohdl._core._type_qualifier import Slice, Offset, TypeQualifier, TypeQualifierBase

from pyvc import contracts as C
from pyvc import interp as I
from pyvc import sym
from pyvc.contracts import Case, contract, PyInt
from pyvc.values import SCls, SObj, Opaque
from contracts import core_models as M
from contracts.core_models import vec, width, bits, BV, BitView, is_kind
from contracts.c05_format_cast import Built
from contracts import c13_types as T

PROPS = ("C13", "C02")
P2 = sym.pow2
MISSING = I._MISSING

for q in ("cohdl._core._type_qualifier:TypeQualifierBase.type", "cohdl._core._type_qualifier:TypeQualifierBase.qualifier",
          "cohdl._core._type_qualifier:TypeQualifier.__init__", "cohdl._core._type_qualifier:Slice.__init__",
          "cohdl._core._type_qualifier:Offset.__init__", "cohdl._core._type_qualifier:Signal.__init__",
          "cohdl._core._type_qualifier:Offset.copy", "cohdl._core._type_qualifier:Slice.copy"):
    C.inline(q)


# K[w].__getitem__ on the placeholder value (bit-level; bounded stand-in in c09_bounded)
def spec_bv_getitem(sx, self, key):
    w = width(self)
    if isinstance(key, slice):
        sx.require(key.step is None)
        hi, lo = key.start, key.stop
        sx.domain(sym.And(lo >= 0, lo <= hi, hi < w))
        return BV(hi - lo + 1, sym.pymod(sym.pydiv(bits(self), P2(lo)), P2(hi - lo + 1)))
    if isinstance(key, SObj) and key.kind is cohdl.Integer:
        key = key.fields["_val"]
    if not sym.is_intlike(key):
        sx.unspecified()
    sx.require(sym.And(key >= 0, key < w))
    b = BitView(sym.bit_at(bits(self), key))
    b.fields["index"] = key  # ghost: which bit of the parent it aliases
    return b


C.use_as_model("cohdl._core._bit_vector:BitVector.__getitem__", spec_bv_getitem)


def _tq_ctor(it, cls, *args, **kwargs):
    """object.__new__(Q[T]) followed by the real __init__ (T primitive)"""
    if not isinstance(cls, SCls):
        return MISSING
    obj = SObj(cls, _Qualifier=cls.kind)
    init_raw, owner = it.static_lookup(cls.kind, "__init__")
    it.call(I.BoundMethod(init_raw, obj), list(args), kwargs)
    return obj


from pyvc.values import BoundMethod  # noqa: E402

I.BoundMethod = BoundMethod
I.CTOR_MODELS[TypeQualifier] = _tq_ctor


def ssum(xs):
    r = 0
    for x in xs:
        r = r + x
    return r


def view_shape(kind, path):
    """path: 'root' | 'slice0' (Slice, no base) | 'slice1' (Slice with one base offset) | 'slice2'"""
    nb = {"root": 0, "slice0": 0, "slice1": 1, "slice2": 2}[path]
    names = ["w", "a"] + (["s", "t"] + [f"b{i}" for i in range(nb)] if path != "root" else [])

    def make(env):
        root = SObj(Signal, _value=vec(kind, env["w"] + 40, 0), _ref_spec=[], _Qualifier=Signal, _name=None)
        root.fields["_root"] = root
        if path == "root":
            o = SObj(Signal, _value=vec(kind, env["w"], env["a"]), _ref_spec=[], _Qualifier=Signal, _name=None, _Wrapped=SCls(kind, width=env["w"]))
            o.fields["_root"] = o
            return o
        sl = Slice(env["s"], env["t"], [env[f"b{i}"] for i in range(nb)])
        return SObj(Signal, _value=vec(kind, env["w"], env["a"]), _ref_spec=[sl], _Qualifier=Signal, _root=root, _name=None, _Wrapped=SCls(kind, width=env["w"]))

    def assume(env):
        c = [env["w"] >= 1, env["a"] >= 0, env["a"] < P2(env["w"])]
        if path != "root":
            c += [env["t"] >= 0, env["s"] == env["t"] + env["w"] - 1] + [env[f"b{i}"] >= 0 for i in range(nb)]
        return sym.And(*c)

    return Built(names, make, lambda asg: "None", lambda asg: None, assume)


def abs_lo(self_obj):
    rs = self_obj.fields["_ref_spec"]
    if rs and isinstance(rs[-1], Slice):
        return rs[-1].stop + ssum(rs[-1].base_offset)
    return 0


def ref_abs(ref):
    """(kind, abs_hi, abs_lo) of a trailing reference built by the real code"""
    if isinstance(ref, SObj) and ref.kind is Slice:
        base = ssum(ref.fields["base_offset"])
        return "slice", ref.fields["start"] + base, ref.fields["stop"] + base
    if isinstance(ref, SObj) and ref.kind is Offset:
        base = ssum(ref.fields["base_offset"])
        return "offset", ref.fields["offset"] + base, ref.fields["offset"] + base
    return None


def check_view(sx, res, real_self, want_kind, want_hi, want_lo, want_value_kind, want_width, ref_kind):
    it = sx.it
    if not (isinstance(res, SObj) and isinstance(res.cls, SCls) and res.cls.kind is Signal):
        return False
    f = res.fields
    if f.get("_root") is not real_self.fields["_root"]:
        return False
    prev = real_self.fields["_ref_spec"]
    prev = prev[:-1] if (prev and isinstance(prev[-1], Slice)) else prev
    rs = f.get("_ref_spec")
    if not isinstance(rs, list) or len(rs) != len(prev) + 1 or any(x is not y for x, y in zip(rs, prev)):
        return False
    ra = ref_abs(rs[-1])
    if ra is None or ra[0] != ref_kind:
        return False
    v = f.get("_value")
    if not isinstance(v, SObj) or not issubclass(v.kind, want_value_kind):
        return False
    conds = [sym.eq(ra[1], want_hi), sym.eq(ra[2], want_lo)]
    if want_width is not None:
        conds.append(sym.eq(width(v), want_width))
    return sym.And(*conds)


def getitem_slice_spec(sx, self, key):
    real_self = sx.real_args[0]
    hi, lo = key.start, key.stop
    sx.domain(sym.And(lo >= 0, lo <= hi, hi < width(self.fields["_value"])))
    base = abs_lo(self)
    return C.Pred(lambda res: check_view(sx, res, real_self, Signal, base + hi, base + lo, BitVector, hi - lo + 1, "slice"), "slice view")


def getitem_int_spec(sx, self, i):
    real_self = sx.real_args[0]
    sx.require(sym.And(i >= 0, i < width(self.fields["_value"])))
    base = abs_lo(self)
    return C.Pred(lambda res: check_view(sx, res, real_self, Signal, base + i, base + i, Bit, None, "offset"), "element view")


SLICE_ARG = Built(["hi", "lo"], lambda env: slice(env["hi"], env["lo"], None), lambda asg: "None", lambda asg: None)
def getitem_runtime_spec(sx, self, index):
    """x[idx] with a run-time index: an element view whose reference is Offset(idx, base) -- the position is idx PLUS the
    absolute position of the view's lowest bit (every enclosing slice's stop), so that v[13:2][9:3][i] denotes v(i + 5)"""
    real_self, real_index = sx.real_args
    base = abs_lo(self)

    def holds(res):
        if not (isinstance(res, SObj) and isinstance(res.cls, SCls) and res.cls.kind is Signal):
            return False
        f = res.fields
        if f.get("_root") is not real_self.fields["_root"]:
            return False
        prev = real_self.fields["_ref_spec"]
        prev = prev[:-1] if (prev and isinstance(prev[-1], Slice)) else prev
        rs = f.get("_ref_spec")
        if not isinstance(rs, list) or len(rs) != len(prev) + 1 or any(x is not y for x, y in zip(rs, prev)):
            return False
        ref = rs[-1]
        if not (isinstance(ref, SObj) and ref.kind is Offset and ref.fields["offset"] is real_index):
            return False
        v = f.get("_value")
        if not (isinstance(v, SObj) and issubclass(v.kind, Bit)):
            return False
        return sym.eq(ssum(ref.fields["base_offset"]), base)

    return C.Pred(holds, "element view Offset(index, base offsets summing to the view's absolute low position)")


RT_INDEX = Built([], lambda env: SObj(Signal, f_tag="run-time index", _value=Opaque("index value"), _ref_spec=[]), lambda asg: "None", lambda asg: None)
# C17: from_bits slices nested records; C02 / C09: indexing and slicing (constant or run-time index) denote the same bits
# in the constant fold and in the emitted reference
con = contract("cohdl._core._type_qualifier:TypeQualifier.__getitem__", PROPS + ("C17", "C02", "C09"))
for K in (BitVector, Unsigned, Signed):
    for path in ("root", "slice0", "slice1", "slice2"):
        c = Case(f"{K.__name__}.{path}[hi:lo]", [view_shape(K, path), SLICE_ARG], getitem_slice_spec)
        c.native = False
        con.cases.append(c)
        c = Case(f"{K.__name__}.{path}[i]", [view_shape(K, path), PyInt("i")], getitem_int_spec)
        c.native = False
        con.cases.append(c)
        c = Case(f"{K.__name__}.{path}[run-time index]", [view_shape(K, path), RT_INDEX], getitem_runtime_spec)
        c.native = False
        con.cases.append(c)


# ---- __iter__: one arbitrary iteration (loop cut) ----------------------------------------------
class IterLoop(C.LoopSpec):
    eval_iterable = False

    def enter(self, it, frame, iterable):
        return {"self": frame.locals["self"], "nr": None}

    def invariant(self, it, frame, st):
        return True  # every element already yielded was checked when it was produced

    def havoc(self, it, frame, st):
        st["nr"] = it.ctx.fresh_int("nr")
        frame.yields[:] = []

    def has_next(self, it, frame, st):
        w = width(st["self"].fields["_value"])
        return sym.And(st["nr"] >= 0, st["nr"] < w)

    def next_item(self, it, frame, st):
        b = BitView(sym.bit_at(bits(st["self"].fields["_value"]), st["nr"]))
        b.fields["index"] = st["nr"]
        return (st["nr"], b)

    def advance(self, it, frame, st):
        # the element produced by this arbitrary iteration
        ys = frame.yields
        ok = False
        if len(ys) == 1:
            base = abs_lo(st["self"])
            sx = C.SpecCtx(it.ctx, it)
            ok = check_view(sx, ys[0], st["self"], Signal, base + st["nr"], base + st["nr"], Bit, None, "offset")
        it.ctx.prove(self.oid("yield"), ok, loop=self.key)


IterLoop("TypeQualifier.__iter__", 1, prop="C13", name="cohdl._core._type_qualifier:TypeQualifier.__iter__#loop1")

con = contract("cohdl._core._type_qualifier:TypeQualifier.__iter__", PROPS)
for K in (BitVector, Unsigned, Signed):
    for path in ("root", "slice0", "slice1", "slice2"):
        c = Case(f"{K.__name__}.{path}", [view_shape(K, path)], lambda sx, self: C.ANY)
        c.native = False
        con.cases.append(c)


# ---- typed views --------------------------------------------------------------------------------
def typed_view_spec(target_kind):
    def spec(sx, self):
        real_self = sx.real_args[0]
        v = self.fields["_value"]

        def holds(res):
            if issubclass(v.kind, target_kind) and (target_kind is not BitVector or not (is_kind(v, Unsigned) or is_kind(v, Signed))):
                return res is real_self
            if not (isinstance(res, SObj) and isinstance(res.cls, SCls) and res.cls.kind is Signal):
                return False
            f = res.fields
            rs, srs = f.get("_ref_spec"), real_self.fields["_ref_spec"]
            if f.get("_root") is not real_self.fields["_root"] or not isinstance(rs, list) or len(rs) != len(srs) or any(x is not y for x, y in zip(rs[:-1], srs[:-1])):
                return False
            path_conds = []
            if srs:
                # the trailing reference is copied (its .obj back-pointer is rebound): same range
                last, slast = rs[-1], srs[-1]
                if not (isinstance(last, SObj) and last.kind is Slice and isinstance(slast, Slice)):
                    return False
                lb, sb = last.fields["base_offset"], slast.base_offset
                if len(lb) != len(sb):
                    return False
                path_conds = [sym.eq(last.fields["start"], slast.start), sym.eq(last.fields["stop"], slast.stop)] + [sym.eq(x, y) for x, y in zip(lb, sb)]
            nv = f.get("_value")
            if not isinstance(nv, SObj):
                return False
            k = Unsigned if is_kind(nv, Unsigned) else Signed if is_kind(nv, Signed) else BitVector
            if k is not target_kind:
                return False
            return sym.And(sym.eq(width(nv), width(v)), sym.eq(bits(nv), bits(v)), *path_conds)

        return C.Pred(holds, f"{target_kind.__name__} view of the same bits")

    return spec


def spec_prim_view(target_kind):
    def spec(sx, self):
        if issubclass(self.kind, target_kind) and (target_kind is not BitVector or not (is_kind(self, Unsigned) or is_kind(self, Signed))):
            return self
        return vec(target_kind, width(self), bits(self), self.fields.get("known", True))

    return spec


# ---- msb / lsb / left / right of a type-qualified vector: which subscript they denote -------------------------------
# documented: msb(count) / left(count) are the `count` MOST significant bits, lsb / right the least significant ones;
# `rest=r` selects all but r bits; without argument the single edge bit.  The subscript itself is under contract above.
def _tq_getitem_record(it, self, key):
    return ("item", self, key)


def edge_spec(high, mode):
    def spec(sx, self, count=None, rest=None):
        w = width(self.fields["_value"])
        real = sx.real_args[0]
        if mode == "both":
            sx.require(sym.eq(count + rest, w))
        if mode == "none":
            want_hi = want_lo = None
            want_index = (w - 1) if high else 0
        else:
            n = count if mode in ("count", "both") else w - rest
            want_hi, want_lo = ((w - 1, w - n) if high else (n - 1, 0))

        def holds(res):
            if not (isinstance(res, tuple) and res[0] == "item" and res[1] is real):
                return False
            key = res[2]
            if mode == "none":
                return (not isinstance(key, slice)) and sym.eq(key, want_index)
            return isinstance(key, slice) and key.step is None and sym.And(sym.eq(key.start, want_hi), sym.eq(key.stop, want_lo))

        return C.Pred(holds, "the subscript of the documented bits")

    return spec


from pyvc.contracts import PyInt  # noqa: E402

for fname, high in (("msb", True), ("left", True), ("lsb", False), ("right", False)):
    con = contract(f"cohdl._core._type_qualifier:TypeQualifier.{fname}", PROPS)
    for mode in ("count", "rest", "both", "none"):
        kw = {}
        if mode in ("count", "both"):
            kw["count"] = PyInt("cnt", None, None, 0, 9)
        if mode in ("rest", "both"):
            kw["rest"] = PyInt("rst", None, None, 0, 9)
        c = Case(mode, [view_shape(BitVector, "root")], edge_spec(high, mode), kwargs=kw)
        c.native = False
        c.may_reject = AssertionError
        c.models = [(TypeQualifier.__dict__["__getitem__"], _tq_getitem_record)]
        con.cases.append(c)


for prop, K in (("unsigned", Unsigned), ("signed", Signed), ("bitvector", BitVector)):
    raw = cohdl.BitVector.__dict__[prop]
    I.register_model(raw.fget, C.model_from_spec(spec_prim_view(K), f"BitVector.{prop}"))
    tq_raw = TypeQualifier.__dict__[prop]
    con = contract(f"cohdl._core._type_qualifier:TypeQualifier.{prop}", PROPS)
    con.custom_fn = tq_raw.fget
    for K2 in (BitVector, Unsigned, Signed):
        for path in ("root", "slice1"):
            c = Case(f"{K2.__name__}.{path}", [view_shape(K2, path)], typed_view_spec(K))
            c.native = False
            con.cases.append(c)


# C03 ("... slices and elements"): an assignment through a view addresses exactly the aliased bits, also at the third level of slicing;
# C09: iterating a view of a run-time vector visits the same bits as iterating the constant
contract("cohdl._core._type_qualifier:TypeQualifier.__getitem__", ("C03",))
contract("cohdl._core._type_qualifier:TypeQualifier.__iter__", ("C09", "C03"))
