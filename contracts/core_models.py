"""Ghost views, shapes and primitive contracts of cohdl's core value types.

Ghost view of the BitVector family: (width, bits, known) where `bits` is the
unsigned reading of the stored bits (0 <= bits < 2**width) and `known` says
that every bit is '0' or '1'.  Unsigned value = bits; Signed value = bits
read in two's complement.

The specs marked ASSUMED are bit-level primitives (Span / generators /
string round trips): they are not interpreted but *assumed* at call sites and
backed by the bounded native check of the real function (DESIGN.md 5.3).
"""

from __future__ import annotations

import z3

import cohdl
from cohdl import BitVector, Unsigned, Signed, Bit, Integer, Null, Full
from cohdl._core._bit_vector import BitOrder, _BitVector
from cohdl._core._bit import BitState
from cohdl._core._boolean import _NullFullType, _Boolean

from pyvc import contracts as C
from pyvc import interp as I
from pyvc import sym, verify
from pyvc.values import Opaque, SCls, SObj

M = I._MISSING
P2 = sym.pow2


# ----------------------------------------------------------------------
# spec-side constructors (work with z3 terms and with Python ints)
# ----------------------------------------------------------------------
def vec(kind, w, bits, known=True):
    return SObj(SCls(kind, width=w), bits=bits, known=known)


def U(w, v, known=True):
    return vec(Unsigned, w, v, known)


def S(w, v, known=True):
    """Signed[w] holding the integer v (must be representable)"""
    v = sym.to_int(v)
    if isinstance(v, int) and isinstance(w, int):
        return vec(Signed, w, v % (2**w), known)
    return vec(Signed, w, sym.Ite(sym.to_z3(v) < 0, v + P2(w), v), known)


def BV(w, bits, known=True):
    return vec(BitVector, w, bits, known)


def INT(v):
    return SObj(Integer, _val=v, _min=None, _max=None)


def width(x):
    return x.cls.params["width"]


def bits(x):
    return x.fields["bits"]


def uval(x):
    return x.fields["bits"]


def sval(x):
    w, b = width(x), bits(x)
    if isinstance(w, int) and isinstance(b, int):
        return b - 2**w if b >= 2 ** (w - 1) else b
    return sym.Ite(sym.to_z3(b) >= P2(sym.to_int(w) - 1), b - P2(w), b)


def ival(x):
    """integer value of an Unsigned / Signed / Integer / int"""
    if sym.is_intlike(x):
        return sym.to_int(x)
    if x.kind is Integer:
        return x.fields["_val"]
    if issubclass(x.kind, Signed):
        return sval(x)
    return uval(x)


def is_kind(x, k):
    return isinstance(x, SObj) and issubclass(x.kind, k)


def is_plain_bv(x):
    return is_kind(x, BitVector) and not is_kind(x, Unsigned) and not is_kind(x, Signed)


# ----------------------------------------------------------------------
# shapes
# ----------------------------------------------------------------------
class VecShape(C.Shape):
    kind = BitVector
    src_kind = "cohdl.BitVector"

    def __init__(self, wname, vname, max_width=None, min_width=1):
        self.wname, self.vname = wname, vname
        self.names = [wname, vname]
        self.max_width = max_width
        self.min_width = min_width

    def make(self, ctx, env):
        w, v = env[self.wname], env[self.vname]
        return self.build(w, v)

    def build(self, w, v):
        return vec(self.kind, w, v)

    def assume(self, env):
        w, v = env[self.wname], env[self.vname]
        c = [w >= self.min_width, v >= 0, v < P2(w)]
        if self.max_width is not None:
            c.append(w <= self.max_width)
        return sym.And(*c)

    def lit(self, w, v):
        return f'{self.src_kind}[{w}]("{v:0{w}b}")'

    def concrete_src(self, asg):
        return self.lit(asg[self.wname], asg[self.vname])

    def concrete_spec(self, asg):
        return vec(self.kind, asg[self.wname], asg[self.vname])

    def sample(self, rng, asg):
        hi = self.max_width or 12
        r = rng.random()
        if r < 0.75:
            w = rng.randint(self.min_width, min(hi, 6))
        elif r < 0.95:
            w = rng.randint(self.min_width, hi)
        else:
            w = rng.choice([x for x in (31, 32, 33, 53, 54, 63, 64, 65, 100) if self.min_width <= x <= (self.max_width or 1000)] or [self.min_width])
        asg[self.wname] = w
        r = rng.random()
        if r < 0.3:
            asg[self.vname] = rng.choice([0, 1, 2**w - 1, 2 ** (w - 1), max(0, 2 ** (w - 1) - 1)])
        else:
            asg[self.vname] = rng.randrange(0, 2**w)


class UShape(VecShape):
    kind = Unsigned
    src_kind = "cohdl.Unsigned"


class SShape(VecShape):
    """Signed[w]; vname is the *bit pattern* (unsigned reading)"""

    kind = Signed
    src_kind = "cohdl.Signed"


class BVShape(VecShape):
    kind = BitVector
    src_kind = "cohdl.BitVector"


class IntegerShape(C.PyInt):
    def make(self, ctx, env):
        return INT(env[self.name])

    def concrete_src(self, asg):
        return f"cohdl.Integer({asg[self.name]})"

    def concrete_spec(self, asg):
        return INT(asg[self.name])


class BitShape(C.Shape):
    """a Bit in a fixed concrete state (cases enumerate the states)"""

    def __init__(self, state: BitState):
        self.state = state
        self.names = []

    def make(self, ctx, env):
        return SObj(Bit, _val=self.state)

    def concrete_src(self, asg):
        return f"cohdl.Bit(cohdl.BitState.{self.state.name})"

    def concrete_spec(self, asg):
        return SObj(Bit, _val=self.state)

    def sample(self, rng, asg):
        pass


class ClsShape(C.Shape):
    """the class K[w]"""

    def __init__(self, kind, wname, src_kind):
        self.kind, self.wname, self.src_kind = kind, wname, src_kind
        self.names = [wname]

    def make(self, ctx, env):
        return SCls(self.kind, width=env[self.wname])

    def assume(self, env):
        return env[self.wname] >= 1

    def concrete_src(self, asg):
        return f"{self.src_kind}[{asg[self.wname]}]"

    def concrete_spec(self, asg):
        return SCls(self.kind, width=asg[self.wname])

    def sample(self, rng, asg):
        asg[self.wname] = rng.randint(1, 8) if rng.random() < 0.8 else rng.choice([16, 31, 32, 33, 64, 65])


NULL = C.Const(Null, "cohdl.Null")
FULL = C.Const(Full, "cohdl.Full")
NONE = C.Const(None, "None")


# ----------------------------------------------------------------------
# real-object views for the native cross-check
# ----------------------------------------------------------------------
def _bv_real_view(obj, kind, is_class=False):
    if is_class:
        if not (isinstance(obj, type) and issubclass(obj, BitVector) and hasattr(obj, "_width")):
            return None
        base = Unsigned if issubclass(obj, Unsigned) else Signed if issubclass(obj, Signed) else BitVector
        if base is not kind:
            return None
        return {"width": obj._width}
    if not isinstance(obj, BitVector):
        return None
    base = Unsigned if isinstance(obj, Unsigned) else Signed if isinstance(obj, Signed) else BitVector
    if base is not kind:
        return None
    b = 0
    known = True
    for i, bit in enumerate(obj._value):
        st = bit.get()
        if st is BitState.HIGH:
            b |= 1 << i
        elif st is not BitState.LOW:
            known = False
    return {"width": obj._width, "bits": b, "known": known}


verify.REAL_VIEW[BitVector] = _bv_real_view


def _integer_real_view(obj, kind, is_class=False):
    if is_class or type(obj) is not Integer:
        return None
    return {"_val": obj._val, "_min": obj._min, "_max": obj._max}


verify.REAL_VIEW[Integer] = _integer_real_view


def _bit_real_view(obj, kind, is_class=False):
    if is_class or type(obj) is not Bit:
        return None
    return {"_val": obj._val}


verify.REAL_VIEW[Bit] = _bit_real_view


# ----------------------------------------------------------------------
# attribute / class models
# ----------------------------------------------------------------------
def _bv_attr(it, obj, name):
    if name in ("_width", "width"):
        return it.get_cls_attr(obj.cls, "_width")
    if name in ("_order", "order"):
        return BitOrder.DOWNTO
    if name == "_value":
        return Opaque("span", obj)
    return M


I.ATTR_MODELS[BitVector] = _bv_attr


def _bv_cls_attr(it, cls, name):
    if isinstance(cls, SCls):
        if name in ("_width", "width"):
            return cls.params["width"]
        if name in ("_order", "order"):
            return BitOrder.DOWNTO
        if name == "__params__":
            return cls.params
        if name == "__base_kind__":
            return cls.kind
        return M
    # real class
    if name == "__params__":
        return {"width": cls._width} if hasattr(cls, "_width") else {}
    if name == "__base_kind__":
        for k in (Unsigned, Signed, BitVector):
            if issubclass(cls, k):
                return k
    if name == "width" and hasattr(cls, "_width"):
        return cls._width
    if name == "order" and hasattr(cls, "_order"):
        return cls._order
    return M


I.CLS_ATTR_MODELS[BitVector] = _bv_cls_attr


def _bv_subscript(it, cls, key):
    """K[n] for n > 0 -> the class of width n (canonicity itself is C13's subject)"""
    kind = it.base_kind(cls)
    if isinstance(key, slice):
        if key.step is not None:
            it.raise_(AssertionError)
        a, b = key.start, key.stop
        if sym.is_intlike(a) and sym.is_intlike(b):
            if it.truth(sym.eq(b, 0)):
                if not it.truth(sym.to_z3(sym.to_int(a)) >= 0 if sym.is_sym(a) else a >= 0):
                    it.raise_(AssertionError)
                if it.truth(sym.eq(a, 0)):
                    it.outside("BitVector[0:0] (UPTO order) is outside the modelled domain")
                return SCls(kind, width=sym.to_int(a) + 1)
            it.outside("UPTO / invalid vector declaration is outside the modelled domain")
        it.raise_(AssertionError)
    if isinstance(key, SObj) and key.kind is Integer:
        it.raise_(AssertionError)  # assert isinstance(size, int)
    if not sym.is_intlike(key):
        it.raise_(AssertionError)
    if isinstance(key, (bool, z3.BoolRef)):
        key = sym.to_int(key)
    if not it.truth(sym.to_z3(key) > 0 if sym.is_sym(key) else key > 0):
        it.raise_(AssertionError)
    return SCls(kind, width=key)


I.SUBSCRIPT_MODELS[BitVector] = _bv_subscript


# ----------------------------------------------------------------------
# construction (spec from C05 statement; bit-copy itself ASSUMED + bounded)
# ----------------------------------------------------------------------
def spec_construct(sx, cls, val=None):
    """K[w](val) for K in BitVector / Unsigned / Signed"""
    kind = cls.kind
    w = cls.params["width"]
    if val is None:
        return vec(kind, w, 0, known=False)
    if isinstance(val, SObj) and val.kind is Integer:
        val = val.fields["_val"]
    if isinstance(val, (bool, z3.BoolRef)):
        val = sym.to_int(val)
    if sym.is_intlike(val):
        if kind is Unsigned:
            sx.require(sym.And(sym.to_z3(val) >= 0 if sym.is_sym(val) else val >= 0, val < P2(w)))
            return U(w, val)
        if kind is Signed:
            half = P2(sym.to_int(w) - 1)
            sx.require(sym.And(val >= -half, val < half))
            return S(w, val)
        sx.reject()
    if val is Null:
        return vec(kind, w, 0)
    if val is Full:
        return vec(kind, w, P2(w) - 1)
    if isinstance(val, str):
        if isinstance(w, int) or sym.is_sym(w):
            sx.require(sym.eq(len(val), w))
        b = 0
        known = True
        for i, ch in enumerate(reversed(val)):
            if ch == "1":
                b |= 1 << i
            elif ch != "0":
                if ch not in "UX-":
                    sx.reject()
                known = False
        return vec(kind, w, b, known)
    if is_kind(val, BitVector):
        sw = width(val)
        if kind is Unsigned:
            if is_kind(val, Unsigned):
                sx.require(sw <= w)
                return vec(kind, w, uval(val), val.fields.get("known", True))
            if is_kind(val, Signed):
                sx.reject()
        if kind is Signed:
            if is_kind(val, Signed):
                sx.require(sw <= w)
                return S(w, sval(val), val.fields.get("known", True))
            if is_kind(val, Unsigned):
                sx.require(sw < w)
                return S(w, uval(val), val.fields.get("known", True))
        # same-width bit copy (plain BitVector source, or BitVector target)
        sx.require(sym.eq(sw, w))
        return vec(kind, w, bits(val), val.fields.get("known", True))
    sx.reject()


def _ctor_model(it, cls, *args, **kw):
    if kw or len(args) > 1:
        return M
    if not isinstance(cls, SCls):
        if not hasattr(cls, "_width"):
            return M
        cls = SCls(it.base_kind(cls), width=cls._width)
    val = args[0] if args else None
    if isinstance(val, Opaque):
        # K[w](span): view construction over existing storage (bit-level)
        return M
    return C.model_from_spec(spec_construct, "K[w](val)")(it, cls, val)


I.CTOR_MODELS[BitVector] = _ctor_model


# ----------------------------------------------------------------------
# ASSUMED primitives (bounded stand-ins in contracts/c09_bounded.py)
# ----------------------------------------------------------------------
def spec_u_to_int(sx, self):
    return uval(self)


def spec_s_to_int(sx, self):
    return sval(self)


C.use_as_model("cohdl._core._unsigned:Unsigned.to_int", spec_u_to_int)
C.use_as_model("cohdl._core._signed:Signed.to_int", spec_s_to_int)
C.inline("cohdl._core._unsigned:Unsigned.__index__")


class _BinStr:
    """marker kind: result of _uint_to_binary / _int_to_binary"""


def spec_uint_to_binary(sx, w, number):
    return SObj(SCls(_BinStr, width=w), bits=sym.pymod(number, P2(w)))


C.use_as_model("cohdl._core._unsigned:Unsigned._uint_to_binary", spec_uint_to_binary)
C.use_as_model("cohdl._core._signed:Signed._int_to_binary", spec_uint_to_binary)


def spec_bv_init(sx, self, val=None):
    """BitVector.__init__ (as reached through super().__init__)"""
    w = width(self)
    if val is None:
        return C.Effect(None, {0: SObj(self.cls, bits=0, known=False)})
    if isinstance(val, SObj) and val.kind is _BinStr:
        sx.require(sym.eq(val.cls.params["width"], w))
        return C.Effect(None, {0: SObj(self.cls, bits=val.fields["bits"], known=True)})
    if val is Null:
        return C.Effect(None, {0: SObj(self.cls, bits=0, known=True)})
    if val is Full:
        return C.Effect(None, {0: SObj(self.cls, bits=P2(w) - 1, known=True)})
    if isinstance(val, str):
        r = spec_construct(sx, SCls(BitVector, width=w), val)
        return C.Effect(None, {0: SObj(self.cls, bits=bits(r), known=r.fields["known"])})
    if is_kind(val, BitVector):
        sx.require(sym.eq(width(val), w))
        return C.Effect(None, {0: SObj(self.cls, bits=bits(val), known=val.fields.get("known", True))})
    sx.reject()


C.use_as_model("cohdl._core._bit_vector:BitVector.__init__", spec_bv_init)


def _add_core(sx, kind, self, rhs, target_width):
    """ripple-carry result: (a + b) wrapped to target_width, a and b extended"""
    wa = width(self)
    if target_width is None:
        tw = sym.maxv(wa, width(rhs))
    else:
        tw = target_width
    a, b = ival(self), ival(rhs)
    if kind is Unsigned:
        return U(tw, sym.wrap_unsigned(a + b, tw))
    return S(tw, sym.wrap_signed(a + b, tw))


def spec_unsigned_add(sx, self, rhs, target_width=None):
    w = width(self)
    if isinstance(rhs, SObj) and rhs.kind is Integer:
        rhs = rhs.fields["_val"]
    if sym.is_intlike(rhs):
        rhs = sym.to_int(rhs)
        r = sym.pymod(rhs, P2(w))
        tw = w if target_width is None else target_width
        # operands are zero-extended / truncated to the target width by the loop
        return U(tw, sym.wrap_unsigned(sym.wrap_unsigned(uval(self), tw) + sym.wrap_unsigned(r, tw), tw))
    if not is_kind(rhs, Unsigned):
        return NotImplemented
    if target_width is None:
        tw = sym.maxv(w, width(rhs))
    else:
        tw = target_width
    return U(tw, sym.wrap_unsigned(sym.wrap_unsigned(uval(self), tw) + sym.wrap_unsigned(uval(rhs), tw), tw))


def spec_signed_add(sx, self, rhs, target_width=None):
    w = width(self)
    if isinstance(rhs, SObj) and rhs.kind is Integer:
        rhs = rhs.fields["_val"]
    if sym.is_intlike(rhs):
        rhs = sym.to_int(rhs)
        if target_width is None:
            # the literal must be representable in the vector operand
            half = P2(sym.to_int(w) - 1)
            sx.require(sym.And(rhs >= -half, rhs < half))
            tw = w
        else:
            # both operands are sign-extended / truncated bit by bit to the
            # target width: the sum modulo 2**tw
            tw = target_width
        return S(tw, sym.wrap_signed(sval(self) + rhs, tw))
    if not is_kind(rhs, Signed):
        return NotImplemented
    if target_width is None:
        tw = sym.maxv(w, width(rhs))
    else:
        tw = target_width
    return S(tw, sym.wrap_signed(sval(self) + sval(rhs), tw))


C.use_as_model("cohdl._core._unsigned:Unsigned.add", spec_unsigned_add)
C.use_as_model("cohdl._core._signed:Signed.add", spec_signed_add)


def spec_bv_invert(sx, self):
    w = width(self)
    return SObj(self.cls, bits=P2(w) - 1 - bits(self), known=self.fields.get("known", True))


C.use_as_model("cohdl._core._bit_vector:BitVector.__invert__", spec_bv_invert)


def spec_bv_copy(sx, self):
    return SObj(self.cls, **self.fields)


C.use_as_model("cohdl._core._bit_vector:BitVector.copy", spec_bv_copy)


def _edge_bit(sx, self, left):
    w = width(self)
    b = sym.bit_at(bits(self), sym.to_int(w) - 1) if left else sym.bit_at(bits(self), 0)
    sx.domain(self.fields.get("known", True))
    return BitView(b)


def BitView(b):
    """a Bit whose state is LOW/HIGH according to the 0/1 term b"""
    if isinstance(b, int):
        return SObj(Bit, _val=BitState.HIGH if b else BitState.LOW)
    return SObj(Bit, _val=SymBitState(b))


class SymBitState:
    """symbolic BitState restricted to LOW/HIGH"""

    def __init__(self, b):
        self.b = b


def spec_bv_left(sx, self, width_=None, rest=None):
    w = width(self)
    if width_ is None and rest is None:
        return _edge_bit(sx, self, True)
    if width_ is not None and rest is not None:
        sx.require(sym.eq(width_ + rest, w))
    if rest is not None:
        width_ = w - rest
    sx.require(sym.And(width_ >= 1, width_ <= w))
    return BV(width_, sym.pydiv(bits(self), P2(w - width_)), self.fields.get("known", True))


def spec_bv_right(sx, self, width_=None, rest=None):
    w = width(self)
    if width_ is None and rest is None:
        return _edge_bit(sx, self, False)
    if width_ is not None and rest is not None:
        sx.require(sym.eq(width_ + rest, w))
    if rest is not None:
        width_ = w - rest
    sx.require(sym.And(width_ >= 1, width_ <= w))
    return BV(width_, sym.pymod(bits(self), P2(width_)), self.fields.get("known", True))


C.use_as_model("cohdl._core._bit_vector:BitVector.left", spec_bv_left)
C.use_as_model("cohdl._core._bit_vector:BitVector.right", spec_bv_right)
C.inline("cohdl._core._bit_vector:BitVector.msb")
C.inline("cohdl._core._bit_vector:BitVector.lsb")


def _bit_bool(it, obj, name):
    return M


def spec_bit_bool(sx, self):
    st = self.fields["_val"]
    if isinstance(st, SymBitState):
        return sym.eq(st.b, 1)
    return st is BitState.HIGH


C.use_as_model("cohdl._core._bit:Bit.__bool__", spec_bit_bool)


# Integer: fully interpreted (pure Python over ints)
for _n in (
    "decay",
    "__init__",
    "get_value",
    "__index__",
    "__bool__",
):
    C.inline(f"cohdl._core._integer:Integer.{_n}")


for _n in ("__init__", "get", "copy"):
    C.inline(f"cohdl._core._bit:Bit.{_n}")
C.inline("cohdl._core._bit:BitState.from_str")

# bit-level containers are opaque to the prover (their effects are the subject
# of the bounded native checks); assumption: these calls do not raise
from cohdl.utility import Span  # noqa: E402

I.OPAQUE_CLASSES.add(Span)
I.OPAQUE_FUNCS[id(bin)] = "bin"

NS = {"cohdl": cohdl}
