"""C13 / C03: ir.CodeBlock._fix_alias -- reads of a signal constructed in the current activation go to its alias temporary.

`loc = Signal[T](init)` inside a sequential context: the signal takes `init` only after the activation, so every READ of the
signal in the same activation is redirected to a temporary that holds `init` (the front end records `_SignalAlias(signal,
temporary)`).  Views alias storage (C13): a slice, a bit or a typed view of `loc` denotes bits of `loc` -- its read must be
redirected exactly like a read of the whole signal, to the SAME bits of the temporary (same reference path).  Writes, and
reads of objects whose root has no alias, stay as they are; the alias markers themselves are replaced by Nop.

_fix_alias is interpreted from the real source; CodeBlock.visit / visit_objects deliver the block's statements / accesses.
"""

from __future__ import annotations

from cohdl import Bit, Signal, Temporary
from cohdl._core._ir import _repr as ir
from cohdl._core._ir._repr import AccessFlags
from cohdl.utility.id_map import IdMap

from pyvc import contracts as C
from pyvc import interp as I
from pyvc.contracts import Case, contract
from pyvc.values import SObj, Opaque
from contracts.c05_format_cast import Built

PROPS = ("C13", "C03")
R, W = AccessFlags.READ, AccessFlags.WRITE


class _IdDict:
    """identity map stand-in (IdMap): keys compared by identity"""

    def __setitem__(self, k, v):
        return None

    def __contains__(self, k):
        return None

    def __getitem__(self, k):
        return None


def _set(it, self, k, v):
    self.fields["f_items"].append((k, v))
    return None


I.register_model(_IdDict.__setitem__, _set)
I.register_model(_IdDict.__contains__, lambda it, self, k: any(a is k for a, _ in self.fields["f_items"]))
I.register_model(_IdDict.__getitem__, lambda it, self, k: next(v for a, v in self.fields["f_items"] if a is k))


def _visit(it, self, operation):
    self.fields["__replaced__"] = [it.call(operation, [n], {}) for n in self.fields["__nodes__"]]
    return None


def _visit_objects(it, self, operation):
    self.fields["__results__"] = [(o, acc, it.call(operation, [o, acc], {})) for o, acc in self.fields["__events__"]]
    return None


def obj(tag, root=None, ref=()):
    o = SObj(Signal, f_tag=tag, type=Bit, _value=Opaque(f"value of {tag}"), _ref_spec=list(ref))
    o.fields["_root"] = o if root is None else root
    return o


def block_shape(n_alias):
    def make(env):
        locs = [obj(f"loc{i}") for i in range(n_alias)]
        temps = [SObj(Temporary, f_tag=f"alias{i}") for i in range(n_alias)]
        other = obj("other")
        events = []
        for s in locs:
            events += [(s, R), (obj(f"slice of {s.fields['f_tag']}", s, ["<slice 3:0>"]), R), (obj(f"bit of slice of {s.fields['f_tag']}", s, ["<slice 7:4>", "<offset 1>"]), R), (s, W), (obj("written view", s, ["<slice>"]), W)]
        events += [(other, R), (obj("view of other", other, ["<slice>"]), R), (other, W), (17, R)]  # 17: a constant operand (no `_root`)
        nodes = [SObj(ir._SignalAlias, signal=s, replacement=t) for s, t in zip(locs, temps)] + [SObj(ir.Statement, f_tag="statement")]
        return SObj(ir.CodeBlock, __nodes__=nodes, __events__=events, f_locs=locs, f_temps=temps)

    return Built([], make, lambda a: "<block>", lambda a: None)


def alias_spec(n_alias):
    def spec(sx, self):
        real = sx.real_args[0].fields
        locs, temps = real["f_locs"], real["f_temps"]

        def holds(res):
            rep = real.get("__replaced__")
            if not isinstance(rep, list) or len(rep) != n_alias + 1:
                return False
            if not all(isinstance(r, SObj) and r.kind is ir.Nop for r in rep[:n_alias]) or rep[-1] is not real["__nodes__"][-1]:
                return False
            for o, acc, got in real["__results__"]:
                root = o.fields.get("_root") if isinstance(o, SObj) else None
                idx = next((i for i, s in enumerate(locs) if s is root), None)
                if acc is R and idx is not None:
                    # redirected: same bits (reference path, value) of the alias temporary
                    if not (isinstance(got, SObj) and got.kind is Temporary and got.fields.get("f_root") is temps[idx] and got.fields.get("f_ref") is o.fields["_ref_spec"] and got.fields.get("f_value") is o.fields["_value"]):
                        return False
                elif got is not o:
                    return False
            return True

        return C.Pred(holds, "every read of the aliased signal AND of its views goes to the same bits of the alias; everything else untouched")

    return spec


con = contract("cohdl._core._ir._repr:CodeBlock._fix_alias", PROPS)
for n in (0, 1, 2):
    c = Case(f"{n}-locally-constructed-signals", [block_shape(n)], alias_spec(n))
    c.native = False
    c.models = [(ir.CodeBlock.__dict__["visit"], _visit), (ir.CodeBlock.__dict__["visit_objects"], _visit_objects)]
    mk_temp = lambda it, args, kw: SObj(Temporary, f_value=args[0], f_root=kw.get("_root"), f_ref=kw.get("_ref_spec"))  # noqa: E731
    c.interp_flags = {"class_call_models": {IdMap: lambda it, args, kw: SObj(_IdDict, f_items=[]), ir.Nop: lambda it, args, kw: SObj(ir.Nop), Temporary[Bit]: mk_temp, Temporary: mk_temp}}
    c.custom_replay = "contracts.c13_alias.replay_view_of_local_signal"
    con.cases.append(c)


_LOCAL_VIEW_DESIGN = '''
from cohdl import Entity, Port, Bit, BitVector, Signal, std
class E(Entity):
    clk = Port.input(Bit)
    a = Port.input(BitVector[4])
    o = Port.output(Bit)
    p = Port.output(BitVector[2])
    def architecture(self):
        @std.sequential(std.Clock(self.clk))
        def proc():
            loc = Signal[BitVector[4]](self.a)       # holds `a` for the rest of this activation
            self.o <<= loc[2]                        # = a(2)
            self.p <<= loc[1:0]                      # = a(1 downto 0)
t = std.VhdlCompiler.to_string(E)
body = t[t.index("proc:"):]
reads = [l.strip() for l in body.splitlines() if l.strip().startswith(("buffer_o <=", "buffer_p <="))]
print("STALE-VIEW" if any("alias" not in l for l in reads) else "ALIASED", reads)   # the alias temporary is named alias<n>
'''


def replay_view_of_local_signal(payload):
    from contracts.c06_extra import _run_design

    rc, out = _run_design(_LOCAL_VIEW_DESIGN)
    return {"reproduced": rc == 0 and "STALE-VIEW" in out, "detail": out[-300:]}
