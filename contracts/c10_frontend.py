"""C10, tracer: operator dispatch with reflected fallback and comprehension
filtering in PrepareAst.apply_impl, proved from the real source.

(1) nested `overloaded_operator(default_op, reverse_op)` of the ast.BinOp branch.
    Python:  a OP b  =  type(a).__op__(a, b) unless that is missing or returns
    NotImplemented, then type(b).__rop__(b, a); both NotImplemented -> TypeError.
    Contract: the produced call is the first applicable one, with the operands in
    exactly that order; rejected when neither applies.
(2) list comprehension  [elt for x in iterable if c1 if c2 ...]:
    the result holds elt(x), in iteration order, for exactly those x for which
    EVERY condition is true (CPython: conditions are conjunctive).
(3) dict comprehension likewise; a key produced twice is rejected (CPython would
    overwrite: a rejection, allowed by the statement).
"""

from __future__ import annotations

import ast
import itertools

from cohdl._compiler.frontend import _prepare_ast as PA
from cohdl._compiler.frontend import _prepare_ast_out as OUT
from cohdl._compiler.frontend._value_branch import ObjTraits

from pyvc import contracts as C
from pyvc import interp as I
from pyvc import sym
from pyvc.contracts import Case, contract
from pyvc.values import SObj, Opaque
from contracts.c05_format_cast import Built
from contracts.c02_frontend import _Expr, _Prep

PROPS = ("C10", "C02")
APPLY_IMPL = PA.PrepareAst.__dict__["apply_impl"]


def _static(cls, name):
    r = cls.__dict__[name]
    return r.__func__ if isinstance(r, (staticmethod, classmethod)) else r


# ---- (1) binary operator dispatch -----------------------------------------------------------------------------------
# operand classes: 'I' implements the method and returns a value, 'N' has it but returns NotImplemented, 'M' lacks it
def _hasattr(it, typ, name):
    kind = typ[1]
    return kind[0 if not name.startswith("__r") else 1] != "M"


def _getattr(it, typ, name):
    if typ[1][0 if not name.startswith("__r") else 1] == "M":
        it.raise_(AttributeError, name)  # what getattr does for a missing method: the design is rejected
    return ("method", typ, name)


def _gettype(it, obj):
    return ("type", obj.fields["f_kind"], obj)


def _get(it, x):
    return x


def _subcall(it, self, fn, args, kwargs, noreturn=None):
    _, typ, name = fn
    kind = typ[1]
    how = kind[0 if not name.startswith("__r") else 1]
    it.calls.append((name, args[0], args[1]))
    if how == "N":
        return SObj(_Expr, f_result=NotImplemented)
    if how == "M":
        raise AssertionError("method looked up although the type lacks it")
    return SObj(_Expr, f_result=("value-of", name, args[0], args[1]))


OP_MODELS = [
    (_static(ObjTraits, "hasattr"), _hasattr),
    (_static(ObjTraits, "getattr"), _getattr),
    (_static(ObjTraits, "gettype"), _gettype),
    (_static(ObjTraits, "get"), _get),
    (_Prep.subcall, _subcall),
]


def dispatch_spec(kl, kr):
    def spec(sx, default_op, reverse_op):
        it = sx.it
        lhs, rhs = it.val_lhs, it.val_rhs
        # kl = (how lhs treats __op__, irrelevant), kr = (irrelevant, how rhs treats __rop__)
        first_ok = kl[0] == "I"
        second_ok = kr[1] == "I"
        if not first_ok and not second_ok:
            # CPython: TypeError.  Here: the lookup of a missing reflected method fails (AttributeError),
            # two NotImplemented results fail the assertion -- a rejection either way
            sx.reject(AttributeError if kr[1] == "M" else AssertionError)

        def holds(res):
            if not (isinstance(res, SObj) and res.kind is _Expr):
                return False
            want = ("value-of", "__op__", lhs, rhs) if first_ok else ("value-of", "__rop__", rhs, lhs)
            r = res.fields["f_result"]
            return isinstance(r, tuple) and r[0] == want[0] and r[1] == want[1] and r[2] is want[2] and r[3] is want[3]

        return C.Pred(holds, "first applicable of lhs.__op__(rhs), rhs.__rop__(lhs)")

    return spec


con = contract("cohdl._compiler.frontend._prepare_ast:PrepareAst.apply_impl.<overloaded_operator (binary)>", PROPS)
con.custom_fn = APPLY_IMPL
con.nested = [("overloaded_operator", 0)]
for kl in ("IM", "NM", "MM"):
    for kr in ("MI", "MN", "MM"):
        NAME = Built([], lambda env: "__op__", lambda a: "'__op__'", lambda a: None)
        RNAME = Built([], lambda env: "__rop__", lambda a: "'__rop__'", lambda a: None)
        c = Case(f"lhs={kl[0]},rhs={kr[1]}", [NAME, RNAME], dispatch_spec(kl, kr))
        c.native = False
        c.may_reject = AssertionError
        c.models = OP_MODELS

        def nested_env(it, kl=kl, kr=kr):
            it.calls = []
            it.val_lhs = SObj(_Prep, f_kind=kl, f_tag="lhs")
            it.val_rhs = SObj(_Prep, f_kind=kr, f_tag="rhs")
            lhs_e, rhs_e = SObj(_Expr, f_result=it.val_lhs), SObj(_Expr, f_result=it.val_rhs)
            return {"self": SObj(_Prep), "type_lhs": ("type", kl, it.val_lhs), "type_rhs": ("type", kr, it.val_rhs), "val_lhs": it.val_lhs, "val_rhs": it.val_rhs, "lhs": lhs_e, "rhs": rhs_e}

        c.nested_env = nested_env
        con.cases.append(c)


# CPython's priority rule: if type(rhs) is a proper subclass of type(lhs) and overrides the reflected method,
# rhs.__rop__(lhs) is tried BEFORE lhs.__op__(rhs).
def subclass_spec(sx, default_op, reverse_op):
    it = sx.it
    lhs, rhs = it.val_lhs, it.val_rhs

    def holds(res):
        if not (isinstance(res, SObj) and res.kind is _Expr):
            return False
        r = res.fields["f_result"]
        return isinstance(r, tuple) and r[1] == "__rop__" and r[2] is rhs and r[3] is lhs

    return C.Pred(holds, "rhs.__rop__(lhs) first: rhs is an instance of an overriding subclass of type(lhs)")


NAME = Built([], lambda env: "__op__", lambda a: "'__op__'", lambda a: None)
RNAME = Built([], lambda env: "__rop__", lambda a: "'__rop__'", lambda a: None)
c = Case("rhs-is-overriding-subclass-of-lhs", [NAME, RNAME], subclass_spec)
c.native = False
c.may_reject = AssertionError
c.models = OP_MODELS
c.custom_replay = "contracts.c10_frontend.replay_subclass_priority"
c.finding_key = "reflected-method-of-overriding-subclass-not-tried-first"


def _sub_env(it):
    it.calls = []
    it.val_lhs = SObj(_Prep, f_kind="II", f_tag="lhs")
    it.val_rhs = SObj(_Prep, f_kind="II", f_tag="rhs (subclass of lhs, overrides __rop__)")
    return {"self": SObj(_Prep), "type_lhs": ("type", "II", it.val_lhs), "type_rhs": ("type", "II", it.val_rhs), "val_lhs": it.val_lhs, "val_rhs": it.val_rhs,
            "lhs": SObj(_Expr, f_result=it.val_lhs), "rhs": SObj(_Expr, f_result=it.val_rhs)}


c.nested_env = _sub_env
con.cases.append(c)

_SUBCLASS_DESIGN = '''
from __future__ import annotations
from cohdl import Entity, Port, Unsigned, std

class A:
    def __init__(self, v): self.v = v
    def __add__(self, other): return A(1)
    def __radd__(self, other): return A(3)

class B(A):
    def __radd__(self, other): return A(2)

print("CPYTHON", (A(0) + B(0)).v)

class E(Entity):
    o = Port.output(Unsigned[4])
    def architecture(self):
        @std.concurrent
        def logic():
            r = A(0) + B(0)
            self.o <<= Unsigned[4](r.v)

t = std.VhdlCompiler.to_string(E)
print("TRACED", [l.strip() for l in t.split("\\n") if "buffer_o <=" in l])
'''


def replay_subclass_priority(payload):
    from contracts.c06_extra import _run_design

    rc, out = _run_design(_SUBCLASS_DESIGN)
    return {"reproduced": rc == 0 and "CPYTHON 2" in out and '"0001"' in out, "detail": out[-300:]}


# ---- (2)/(3) comprehensions ---------------------------------------------------------------------------------------------
class _Target:
    """PrepareAst.Target stand-in: unpack(elt) binds the loop variable"""


_Target.unpack = lambda self, elt: None
_Target.restore_locals = lambda self: None
I.register_model(_Target.unpack, lambda it, self, elt: setattr(it, "current", elt))
I.register_model(_Target.restore_locals, lambda it, self: None)


def comp_node(kind, n_ifs):
    src = ("[f(x) for x in xs" if kind == "list" else "{k(x): v(x) for x in xs") + "".join(f" if c{j}(x)" for j in range(n_ifs)) + ("]" if kind == "list" else "}")
    return ast.parse(src, mode="eval").body


def _apply(it, self, node):
    comp = it.comp
    gen = comp.generators[0]
    if node is gen.iter:
        return SObj(_Expr, f_result=list(it.elements))
    cur = it.current
    if isinstance(comp, ast.ListComp) and node is comp.elt:
        return SObj(_Expr, f_result=("elt", cur))
    if isinstance(comp, ast.DictComp) and node is comp.key:
        return SObj(_Expr, f_result=it.keys[it.elements.index(cur)])
    if isinstance(comp, ast.DictComp) and node is comp.value:
        return SObj(_Expr, f_result=("val", cur))
    for j, c in enumerate(gen.ifs):
        if node is c:
            return SObj(_Expr, f_result=it.conds[(it.elements.index(cur), j)])
    raise AssertionError("unexpected node")


_Prep.apply = getattr(_Prep, "apply", lambda self, node: None)  # contracts/c02_frontend.py defines it first
I.register_model(_Prep.apply, _apply)


def _convert_boolean2(it, self, x, bound=None):
    return SObj(_Expr, f_result=x)


def comp_spec(kind, k, n_ifs, keys):
    def spec(sx, self, inp):
        it = sx.it
        keep = []
        for i in range(k):
            conds = [it.conds[(i, j)] for j in range(n_ifs)]
            if sx.branch(sym.And(*conds) if conds else True):
                keep.append(i)
        if kind == "dict":
            ks = [keys[i] for i in keep]
            if len(set(ks)) != len(ks):
                sx.reject(AssertionError)

        def holds(res):
            if not (isinstance(res, SObj) and res.kind is OUT.Value):
                return False
            v = res.fields["f_value"]
            if kind == "list":
                return isinstance(v, list) and len(v) == len(keep) and all(x == ("elt", it.elements[i]) for x, i in zip(v, keep))
            return isinstance(v, dict) and list(v.items()) == [(keys[i], ("val", it.elements[i])) for i in keep]

        return C.Pred(holds, "elements for which every condition holds, in order")

    return spec


def _mk_value(it, args, kwargs):
    return SObj(OUT.Value, f_value=args[0], f_bound=args[1])


con = contract("cohdl._compiler.frontend._prepare_ast:PrepareAst.apply_impl", PROPS)
for kind in ("list", "dict"):
    for k in range(0, 4):
        for n_ifs in range(0, 3):
            for keys in ([tuple(f"key{i}" for i in range(k))] + ([("key0", "key0") + tuple(f"key{i}" for i in range(2, k))] if kind == "dict" and k >= 2 else [])):
                node = comp_node(kind, n_ifs)
                SELF = Built([], lambda env: SObj(_Prep, _last_apply_inp=None), lambda a: "<self>", lambda a: None)
                INP = Built([], (lambda nd: lambda env: nd)(node), lambda a: "<comprehension>", lambda a: None)
                dup = "" if len(set(keys)) == len(keys) else ",duplicate-key"
                c = Case(f"{kind}comp:{k}-elements,{n_ifs}-ifs{dup}", [SELF, INP], comp_spec(kind, k, n_ifs, keys))
                c.native = False
                c.may_reject = AssertionError
                c.models = [(_static(ObjTraits, "get"), _get), (_Prep.convert_boolean, _convert_boolean2)]
                c.interp_flags = {"class_call_models": {OUT.Value: _mk_value, PA.PrepareAst.Target: lambda it, args, kwargs: SObj(_Target)}}

                def setup(it, ctx, args, env, node=node, k=k, n_ifs=n_ifs, keys=keys):
                    it.comp = node
                    it.elements = [f"elem{i}" for i in range(k)]
                    it.keys = list(keys)
                    it.conds = {(i, j): ctx.fresh_bool(f"c{j}_{i}") for i in range(k) for j in range(n_ifs)}
                    it.current = None

                c.setup = setup
                con.cases.append(c)


# ---- (1b) the operator TABLE of the ast.BinOp branch: which pair of methods each Python operator is dispatched to ----------------
# Python data model: `a OP b` tries a.__op__(b), then b.__rop__(a) with the names below.  The branch is interpreted from the real
# source for every binary operator of the ast, once with a left operand that implements the forward method and once with a left
# operand that returns NotImplemented and a right operand that implements the REFLECTED method.
BINOPS = {ast.Add: "add", ast.Sub: "sub", ast.Mult: "mul", ast.Div: "truediv", ast.FloorDiv: "floordiv", ast.Mod: "mod", ast.Pow: "pow", ast.LShift: "lshift",
          ast.RShift: "rshift", ast.BitOr: "or", ast.BitXor: "xor", ast.BitAnd: "and", ast.MatMult: "matmul"}


def table_spec(name, mode):
    def spec(sx, self, inp):
        it = sx.it
        lhs, rhs = it.val_lhs, it.val_rhs
        want = ("value-of", f"__{name}__", lhs, rhs) if mode == "forward" else ("value-of", f"__r{name}__", rhs, lhs)

        def holds(res):
            if not (isinstance(res, SObj) and res.kind is _Expr):
                return False
            r = res.fields["f_result"]
            return isinstance(r, tuple) and len(r) == 4 and r[0] == want[0] and r[1] == want[1] and r[2] is want[2] and r[3] is want[3]

        return C.Pred(holds, f"value of {want[1]}")

    return spec


def _table_apply(it, self, node):
    return it.operand_exprs[node.id]


# (the models above tell forward from reflected names by the prefix `__r`, which is wrong for __rshift__: here the reflected name
#  of the operator under test is known)
def _t_refl(it, name):
    return name == f"__r{it.op_name}__"


def _t_hasattr(it, typ, name):
    return typ[1][1 if _t_refl(it, name) else 0] != "M"


def _t_getattr(it, typ, name):
    if typ[1][1 if _t_refl(it, name) else 0] == "M":
        it.raise_(AttributeError, name)
    return ("method", typ, name)


def _t_subcall(it, self, fn, args, kwargs, noreturn=None):
    _, typ, name = fn
    how = typ[1][1 if _t_refl(it, name) else 0]
    it.calls.append((name, args[0], args[1]))
    if how == "N":
        return SObj(_Expr, f_result=NotImplemented)
    if how == "M":
        raise AssertionError("method looked up although the type lacks it")
    return SObj(_Expr, f_result=("value-of", name, args[0], args[1]))


TABLE_MODELS = [(_static(ObjTraits, "hasattr"), _t_hasattr), (_static(ObjTraits, "getattr"), _t_getattr), (_static(ObjTraits, "gettype"), _gettype), (_static(ObjTraits, "get"), _get), (_Prep.subcall, _t_subcall)]


con = contract("cohdl._compiler.frontend._prepare_ast:PrepareAst.apply_impl", PROPS)
for op_cls, name in BINOPS.items():
    for mode in ("forward", "reflected"):
        node = ast.BinOp(left=ast.Name(id="l", ctx=ast.Load()), op=op_cls(), right=ast.Name(id="r", ctx=ast.Load()))
        c = Case(f"binop-table:{op_cls.__name__},{mode}", [Built([], lambda env: SObj(_Prep, _last_apply_inp=None, _context=None), lambda a: "<self>", lambda a: None),
                                                          Built([], (lambda n: lambda env: n)(node), lambda a: "<binop>", lambda a: None)], table_spec(name, mode))
        c.native = False
        c.may_reject = AssertionError  # an operator the subset does not support is rejected
        c.models = TABLE_MODELS + [(_Prep.apply, _table_apply)]

        def _setup(it, ctx, args, env, mode=mode, name=name):
            kl, kr = ("IM", "MM") if mode == "forward" else ("NM", "MI")
            it.op_name = name
            it.calls = []
            it.val_lhs = SObj(_Prep, f_kind=kl, f_tag="lhs")
            it.val_rhs = SObj(_Prep, f_kind=kr, f_tag="rhs")
            it.operand_exprs = {"l": SObj(_Expr, f_result=it.val_lhs), "r": SObj(_Expr, f_result=it.val_rhs)}

        c.setup = _setup
        con.cases.append(c)
