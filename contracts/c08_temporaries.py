"""C08: the definite-assignment analysis of compiler-generated intermediates.

Function: ConvertInstance.detect_uninitialized_temporaries and its nested
recursive worker search_invalid_temporaries (structural induction over the IR).

Ghost semantics (textbook definite assignment, from the statement of C08):
   DA(leaf defining root r, r not maybe-uninitialized) = {r}, other leaves = {}
   DA(if c: A else: B)        = DA(A) & DA(B)
   DA(case: b1..bn, default)  = DA(b1) & .. & DA(bn) & DA(default);  {} without default
   DA(s1; ..; sn)             = DA(s1) | .. | DA(sn)
The analysis keeps  W (written roots) and I (possibly-unassigned roots); a read
of root r is accepted only if r in W \\ I.  V := (W \\ I) restricted to the
CHECKED roots (Temporaries not marked maybe_uninitialized).

Contract of search_invalid_temporaries(block), for ARBITRARY entry sets (I0, W0):
   on normal return with result L and exit sets (I1, W1):
     (a)  W1 \\ I1  is a subset of  (W0 \\ I0) | L     nothing becomes readable except through L
     (b)  L         is a subset of  DA(block)          only definitely assigned roots are returned
Loop invariant of the statement loop (#1):  V <= V0 | local   and   local <= DA(prefix).
Loop invariant of the branch loop (#2) of a case:  V <= V(at the case)  and
   always_defined is None before the first branch, afterwards a subset of the
   intersection of the DA sets of the branches seen.
Consequence (induction over the block with (a), (b) and the asserts of
check_used_temporaries): if the analysis of a context returns normally, every
read of an intermediate happens where it is definitely assigned.
Recursive calls use this contract as induction hypothesis (the argument is a
strict sub-term of the current block).
"""

from __future__ import annotations

import z3

from cohdl import Temporary, Signal
from cohdl._core._ir import _repr as ir
from cohdl._core._ir._repr import AccessFlags

from pyvc import contracts as C
from pyvc import interp as I
from pyvc import sym
from pyvc.contracts import Case, contract
from pyvc.values import SObj, SSet, Opaque
from contracts import core_models as M
from contracts.c05_format_cast import Built

PROPS = ("C08",)
QUAL = "cohdl._compiler.frontend._generate_ir:ConvertInstance.detect_uninitialized_temporaries"
OUTER = "ConvertInstance.detect_uninitialized_temporaries"
WORKER = OUTER + ".search_invalid_temporaries"
IntS = z3.IntSort()
IntSet = z3.SetSort(IntS)
EMPTY = z3.EmptySet(IntS)


def fresh_set(it, name):
    return z3.Const(f"{name}!{it.ctx.fresh_int().decl().name()}", IntSet)


def state(frame):
    f = frame
    while f is not None and "invalid_temporaries" not in f.locals:
        f = f.enclosing
    return f.locals["invalid_temporaries"], f.locals["written_temporaries"]


# ghost: the roots the property is about -- Temporaries that are not marked
# maybe_uninitialized (those are exempt from the check by the user's request)
CHECKED = z3.Const("CheckedTemporaries", IntSet)


def V(I_, W_):
    """roots a read is accepted for, restricted to the checked temporaries"""
    return z3.SetIntersect(z3.SetDifference(W_, I_), CHECKED)


def subset(a, b):
    return z3.IsSubset(a, b)


def zite(c, a, b):
    if c is True:
        return a
    if c is False:
        return b
    return z3.If(c, a, b)


# ---- symbolic IR pieces ---------------------------------------------------------------------------
def obj_with_root(it, cls, name):
    root = SObj(cls, __id__=it.ctx.fresh_int(name + "_root"), _maybe_uninitialized=it.ctx.fresh_bool(name + "_maybe_uninit"), _ref_spec=[])
    root.fields["_root"] = root
    checked = z3.And(not root.fields["_maybe_uninitialized"] if isinstance(root.fields["_maybe_uninitialized"], bool) else z3.Not(root.fields["_maybe_uninitialized"])) if cls is Temporary else z3.BoolVal(False)
    it.ctx.assume(z3.IsMember(root.fields["__id__"], CHECKED) == checked)
    return SObj(cls, _root=root, _ref_spec=[])


def any_obj(it, name):
    """an arbitrary Temporary reference, or a non-temporary object"""
    if it.ctx.branch(it.ctx.fresh_bool(name + "_is_temp")):
        return obj_with_root(it, Temporary, name)
    return obj_with_root(it, Signal, name)


def indexed_obj(it, name):
    """an operand reached through a reference path with a RUN-TIME index (`vec[idx]`): reading it reads the index as well"""
    from cohdl._core._type_qualifier import Offset

    o = any_obj(it, name)
    idx = any_obj(it, name + "_index")
    o.fields["_ref_spec"] = [Offset(idx, [])]
    o.fields["__index__"] = idx
    return o


def block(it):
    return SObj(ir.CodeBlock, _content=Opaque("statements"))


def leaf_visit_model(it, stmt, operation):
    """ir._visit_referenced_objects on a leaf statement: the callback is applied
    to every object the statement reads and to the object it writes (that
    visit_objects reports all of them is the subject of the C07 contracts)"""
    for o in stmt.fields.get("__refreads__", []):  # run-time indices inside reference paths
        it.call(operation, [o, AccessFlags.READ], {})
    for o in stmt.fields.get("__reads__", []):
        it.call(operation, [o, AccessFlags.READ], {})
    w = stmt.fields.get("__write__")
    if w is not None:
        it.call(operation, [w, AccessFlags.WRITE], {})
    return None


def direct_visit_model(it, stmt, operation):
    """stmt.visit_objects: only the objects themselves, not the run-time
    indices of their reference paths"""
    for o in stmt.fields.get("__reads__", []):
        it.call(operation, [o, AccessFlags.READ], {})
    w = stmt.fields.get("__write__")
    if w is not None:
        it.call(operation, [w, AccessFlags.WRITE], {})
    return None


I.register_model(ir._visit_referenced_objects, leaf_visit_model)
for _n in dir(ir):
    _c = getattr(ir, _n)
    if isinstance(_c, type) and "visit_objects" in _c.__dict__:
        I.register_model(_c.__dict__["visit_objects"], direct_visit_model)


def _record_check(it, closure, args, kwargs, node):
    """ghost: which objects reached check_used_temporaries with READ access"""
    if len(args) == 2 and args[1] is AccessFlags.READ:
        if not hasattr(it, "checked_reads"):
            it.checked_reads = []
        it.checked_reads.append(args[0])
    return it._run_closure(closure, args, kwargs, node)


I.CLOSURE_ENTRY_HOOKS[OUTER + ".check_used_temporaries"] = _record_check
I.register_model(ir.Context.__dict__["code"], lambda it, self: block(it))


# ---- induction hypothesis for the recursive calls ----------------------------------------------------
def worker_summary(it, closure, code):
    I_, W_ = state(closure.frame)
    I0, W0 = I_.term, W_.term
    # precondition of every recursive call: the branches of one statement are alternatives, each is entered
    # on a path on which none of its siblings ran -- so a branch may only read what was readable BEFORE the
    # statement (a temporary defined in the then-branch is not defined in the else-branch)
    entry = getattr(it, "stmt_entry_V", None)
    if entry is not None:
        it.ctx.prove(QUAL + "/search_invalid_temporaries#call.pre-branch-sees-only-the-state-before-its-statement", subset(V(I0, W0), entry))
    if not it.ctx.branch(it.ctx.fresh_bool("sub_block_accepted")):
        it.raise_(AssertionError)  # the analysis of the sub-block may reject
    I1, W1, L, G = fresh_set(it, "I"), fresh_set(it, "W"), fresh_set(it, "L"), fresh_set(it, "DA")
    it.ctx.assume(subset(V(I1, W1), z3.SetUnion(V(I0, W0), L)))  # (a)
    it.ctx.assume(subset(L, G))  # (b)
    I_.term, W_.term = I1, W1
    it.sub_calls.append(G)
    return SSet(L)


I.CLOSURE_MODELS[WORKER] = worker_summary


def worker_entry(it, closure, args, kwargs, node):
    """outermost call: arbitrary entry state, then the two postconditions"""
    frame = closure.frame
    frame.locals["invalid_temporaries"] = SSet(fresh_set(it, "I0"))
    frame.locals["written_temporaries"] = SSet(fresh_set(it, "W0"))
    I0, W0 = frame.locals["invalid_temporaries"].term, frame.locals["written_temporaries"].term
    it.sub_calls = []
    it.block_da = None
    res = it._run_closure(closure, args, kwargs, node)
    I1, W1 = frame.locals["invalid_temporaries"].term, frame.locals["written_temporaries"].term
    ok_a = ok_b = False
    if isinstance(res, SSet) and it.block_da is not None:
        ok_a = subset(V(I1, W1), z3.SetUnion(V(I0, W0), res.term))
        ok_b = subset(res.term, it.block_da)
    it.ctx.prove(QUAL + "/search_invalid_temporaries#post.a-only-L-becomes-readable", ok_a)
    it.ctx.prove(QUAL + "/search_invalid_temporaries#post.b-L-definitely-assigned", ok_b)
    return res


I.CLOSURE_ENTRY_HOOKS[WORKER] = worker_entry


# ---- loop #1: for stmt in code._content --------------------------------------------------------------
class StmtLoop(C.LoopSpec):
    eval_iterable = False

    def enter(self, it, frame, iterable):
        I_, W_ = state(frame)
        return {"V0": V(I_.term, W_.term), "G": EMPTY}

    def invariant(self, it, frame, st):
        I_, W_ = state(frame)
        loc = frame.locals["local_temporaries"]
        if not isinstance(loc, SSet):
            return False
        return z3.And(subset(V(I_.term, W_.term), z3.SetUnion(st["V0"], loc.term)), subset(loc.term, st["G"]))

    def havoc(self, it, frame, st):
        I_, W_ = state(frame)
        I_.term, W_.term = fresh_set(it, "I"), fresh_set(it, "W")
        frame.locals["local_temporaries"] = SSet(fresh_set(it, "local"))
        st["G"] = fresh_set(it, "DAprefix")

    def has_next(self, it, frame, st):
        if not it.ctx.branch(it.ctx.fresh_bool("more_statements")):
            it.block_da = st["G"]  # DA(block) = DA of all its statements
            return False
        return True

    def next_item(self, it, frame, st):
        kind = it.ctx.choose(6, "stmt_kind")
        I_, W_ = state(frame)
        it.stmt_entry_V = V(I_.term, W_.term)
        it.sub_calls = []
        it.checked_reads = []
        it.case_exit = None
        if kind == 0:
            # the test: an arbitrary object, or an edge / level event of a hand-written sequential context
            # (`if cohdl.rising_edge(clk):` -- the process is activated also when the event condition does not hold)
            test = SObj(ir.Event) if it.ctx.branch(it.ctx.fresh_bool("test_is_event")) else any_obj(it, "test")
            s = SObj(ir.If, _test=test, _body=block(it), _orelse=block(it))
        elif kind == 1:
            s = block(it)
        elif kind == 2:
            has_default = it.ctx.branch(it.ctx.fresh_bool("has_default"))
            s = SObj(ir.CaseWhen, _value=indexed_obj(it, "value"), _branches=Opaque("branches"), _default=block(it) if has_default else None)
        elif kind == 3:
            res = any_obj(it, "result")
            s = SObj(ir.Expression, _result=res, __reads__=[any_obj(it, "operand")], __refreads__=[any_obj(it, "index")], __write__=res)
        elif kind == 4:
            tgt = any_obj(it, "target")
            s = SObj(ir.VariableAssignment, _target=tgt, __reads__=[any_obj(it, "source")], __refreads__=[any_obj(it, "index")], __write__=tgt)
        else:
            # inline code (f"{vhdl[T]:...}"): its result is an intermediate defined by this statement, like the result of an expression
            res = any_obj(it, "inline_result")
            s = SObj(ir.InlineCode, result=res, __reads__=[any_obj(it, "inline_operand")], __refreads__=[any_obj(it, "index")], __write__=res)
        st["stmt"], st["kind"] = s, kind
        return s

    def advance(self, it, frame, st):
        """ghost: DA(prefix; stmt) = DA(prefix) | DA(stmt)"""
        s, kind = st["stmt"], st["kind"]
        subs = it.sub_calls
        da = None
        if kind == 0 and len(subs) == 2:
            da = z3.SetIntersect(subs[0], subs[1])
        elif kind == 1 and len(subs) == 1:
            da = subs[0]
        elif kind == 2 and it.case_exit is not None:
            first, gall = it.case_exit
            if s.fields["_default"] is None:
                da = EMPTY if not subs else None
            elif len(subs) == 1:
                da = zite(first, subs[0], z3.SetIntersect(gall, subs[0]))
        elif kind in (3, 4, 5) and not subs:
            tgt = s.fields["_result"] if kind == 3 else s.fields["_target"] if kind == 4 else s.fields["result"]
            if tgt.kind is Temporary:
                root = tgt.fields["_root"]
                da = z3.If(root.fields["_maybe_uninitialized"], EMPTY, z3.SetAdd(EMPTY, root.fields["__id__"]))
            else:
                da = EMPTY
        if da is None:
            # the real code made recursive calls the ghost semantics does not expect
            it.ctx.prove(QUAL + "/search_invalid_temporaries#loop1#ghost-structure", False)
            da = EMPTY
        if kind in (3, 4, 5):
            # every object the statement reads -- also the run-time index of a
            # reference path -- must have gone through the read check
            seen = getattr(it, "checked_reads", [])
            want = s.fields["__reads__"] + s.fields["__refreads__"]
            it.ctx.prove(QUAL + "/search_invalid_temporaries#loop1#every-read-checked", all(any(x is y for y in seen) for x in want))
        if kind in (0, 2):
            # the operand a control statement branches on (if test, case subject) is read BEFORE any branch runs:
            # an intermediate computed in only one branch of an earlier statement must be rejected here as well
            seen = getattr(it, "checked_reads", [])
            ctrl = s.fields["_test"] if kind == 0 else s.fields["_value"]
            it.ctx.prove(QUAL + "/search_invalid_temporaries#loop1#control-operand-checked", any(ctrl is y for y in seen))
            if kind == 2:
                # the subject of a case statement is whatever the user matched on -- e.g. an element selected with a run-time
                # index; the index is read with it.  (The test of an `if` is always the boolean cast made by the front end,
                # contract c03_if, so it has no reference path.)
                it.ctx.prove(QUAL + "/search_invalid_temporaries#loop1#control-operand-index-checked", any(ctrl.fields["__index__"] is y for y in seen))
        it.checked_reads = []
        st["G"] = z3.SetUnion(st["G"], da)


# ---- loop #2: for branch_cond, branch_code in stmt._branches -------------------------------------------
class CaseLoop(C.LoopSpec):
    eval_iterable = False

    def enter(self, it, frame, iterable):
        I_, W_ = state(frame)
        return {"Vc": V(I_.term, W_.term), "first": True, "Gall": EMPTY}

    def invariant(self, it, frame, st):
        I_, W_ = state(frame)
        ad = frame.locals["always_defined"]
        base = subset(V(I_.term, W_.term), st["Vc"])
        if ad is None:
            return z3.And(base, sym.to_z3(st["first"]))
        if isinstance(ad, SSet):
            return z3.And(base, sym.to_z3(sym.Not(st["first"])), subset(ad.term, st["Gall"]))
        return False

    def havoc(self, it, frame, st):
        I_, W_ = state(frame)
        I_.term, W_.term = fresh_set(it, "I"), fresh_set(it, "W")
        st["Gall"] = fresh_set(it, "DAbranches")
        st["first"] = it.ctx.fresh_bool("no_branch_yet")
        frame.locals["always_defined"] = None if it.ctx.branch(st["first"]) else SSet(fresh_set(it, "always"))

    def has_next(self, it, frame, st):
        if not it.ctx.branch(it.ctx.fresh_bool("more_branches")):
            it.case_exit = (st["first"], st["Gall"])
            it.sub_calls = []  # calls after the loop (default branch) are recorded afresh
            return False
        it.sub_calls = []
        return True

    def next_item(self, it, frame, st):
        st["cond"] = indexed_obj(it, "branch_cond")
        return (st["cond"], block(it))

    def advance(self, it, frame, st):
        it.ctx.prove(QUAL + "/search_invalid_temporaries#loop2#choice-operand-checked", any(st["cond"] is y for y in getattr(it, "checked_reads", [])))
        it.ctx.prove(QUAL + "/search_invalid_temporaries#loop2#choice-operand-index-checked", any(st["cond"].fields["__index__"] is y for y in getattr(it, "checked_reads", [])))
        g = it.sub_calls[0] if len(it.sub_calls) == 1 else None
        if g is None:
            it.ctx.prove(QUAL + "/search_invalid_temporaries#loop2#ghost-structure", False)
            g = EMPTY
        st["Gall"] = zite(st["first"], g, z3.SetIntersect(st["Gall"], g))
        st["first"] = False


StmtLoop(WORKER, 1, prop="C08", name=QUAL + "/search_invalid_temporaries#loop1")
CaseLoop(WORKER, 2, prop="C08", name=QUAL + "/search_invalid_temporaries#loop2")


# ---- the case: a context with an arbitrary block ----------------------------------------------------------
CTX = Built([], lambda env: SObj(ir.Context), lambda asg: "None", lambda asg: None)
con = contract(QUAL, PROPS)
c = Case("any-context", [CTX], lambda sx, ctx: C.ANY)
c.native = False
c.may_reject = AssertionError
c.interp_flags = {"symbolic_set_sort": IntS}
con.cases.append(c)


_DA_DESIGNS = '''
import cohdl
from cohdl import std, Entity, Port, Bit, BitVector, Unsigned, vhdl

class MatchIndex(Entity):
    clk = Port.input(Bit)
    sel = Port.input(Bit)
    vec = Port.input(BitVector[4])
    idx = Port.input(Unsigned[2])
    o = Port.output(Bit, default=False)
    def architecture(self):
        @std.sequential(std.Clock(self.clk))
        def proc():
            if self.sel:
                elem = self.vec[self.idx]
            match elem:
                case "1":
                    self.o <<= True
                case _:
                    self.o <<= False

class InlineConditional(Entity):
    clk = Port.input(Bit)
    a = Port.input(Bit)
    x = Port.input(Bit)
    y = Port.input(Bit)
    o = Port.output(Bit, default=False)
    def architecture(self):
        @std.sequential(std.Clock(self.clk))
        def proc():
            if self.a:
                t = f"{vhdl[Bit]:{self.x!r} and {self.y!r}}"
            self.o <<= t

for E in (MatchIndex, InlineConditional):
    try:
        std.VhdlCompiler.to_string(E)
        print(E.__name__, "ACCEPTED")
    except Exception as e:
        print(E.__name__, "REJECTED")
'''


def replay_conditional_definitions(payload):
    from contracts.c06_extra import _run_design

    rc, out = _run_design(_DA_DESIGNS)
    return {"reproduced": "ACCEPTED" in out,
            "detail": "an element indexed by a snapshot taken in one branch used as match subject / an inline-code result defined in one branch and used afterwards: " + out[-80:].replace("\n", "; ")}


c.custom_replay = "contracts.c08_temporaries.replay_conditional_definitions"
