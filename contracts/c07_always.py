"""C07: IrGenerator.convert_sequential -- the hoisted always-expression of a
sequential context is emitted as a concurrent block.  An intermediate it reads
(directly or as the run-time index of a reference path) must have been written
by the always-expression itself, otherwise the design is rejected: a process
intermediate would appear outside its process.  Intermediates written by the
always-expression are turned into signals (they may cross into the process).
"""

from __future__ import annotations

from cohdl import Temporary, Signal, Bit
from cohdl._core._ir import _repr as ir
from cohdl._core._ir._repr import AccessFlags
from cohdl._compiler.frontend import _generate_ir as GI
from cohdl._compiler.frontend import _prepare_ast_out as out

from pyvc import contracts as C
from pyvc import interp as I
from pyvc.contracts import Case, contract
from pyvc.values import SCls, SObj, Opaque
from contracts import c13_types, c13_views  # qualified-type models (Signal[T](...))
from contracts import c08_cleanup as EV  # event-stream models of visit_objects / _visit_referenced_objects
from contracts.c05_format_cast import Built

PROPS = ("C07", "C08")
QUAL = "cohdl._compiler.frontend._generate_ir:IrGenerator.convert_sequential"
R, W = AccessFlags.READ, AccessFlags.WRITE

for cls, names in ((out.Sequential, ("code", "always_expr", "sensitivity")), (out.Context, ("code", "name", "attributes", "source_location"))):
    for n in names:
        if n in cls.__dict__:
            I.register_model(cls.__dict__[n], (lambda n: lambda it, self: self.fields["f_" + n])(n))

C.inline("cohdl._core._ir._repr:AccessFlags.is_written")
C.inline("cohdl._core._type_qualifier:TypeQualifier.type") if False else None


def _irgen(it, args, kwargs):
    blk = it.case_blocks.pop(0)
    return SObj(GI.IrGenerator, __code__=blk)


I.register_model(GI.IrGenerator.__dict__["apply"], lambda it, self, *a, **k: None)
I.register_model(GI.IrGenerator.__dict__["code"], lambda it, self: self.fields["__code__"])


def _concurrent_ctor(it, args, kwargs):
    c = SObj(ir.Concurrent, __events__=args[1].fields["__events__"])
    if args[1] is getattr(it, "always_block", None):
        it.always_block = c  # the hoisted block: the context that wraps the always expression's code
    return c


def _sequential_ctor(it, args, kwargs):
    return SObj(ir.Sequential, _always_expr=args[2])


def mk_temp_view(root):
    return SObj(SCls(Temporary, wrapped=Bit, direction=None), _root=root, _ref_spec=[], _Qualifier=Temporary)


def shape(stream):
    """stream: events of the always-expression: (kind 'dir'|'ref', root name, access)"""

    def make(env):
        roots = {}
        evs = []
        for kind, rn, acc in stream:
            if rn not in roots:
                r = SObj(SCls(Temporary, wrapped=Bit, direction=None), _ref_spec=[], _Qualifier=Temporary)
                r.fields["_root"] = r
                roots[rn] = r
            evs.append((kind, mk_temp_view(roots[rn]), acc))
        always_blk = SObj(ir.CodeBlock, __events__=evs)
        proc_blk = SObj(ir.CodeBlock, __events__=[])
        return SObj(out.Sequential, f_code=SObj(out.CodeBlock, __returns__=False), f_always_expr=[Opaque("always-stmt")], f_sensitivity=None, f_name="p", f_attributes={}, f_source_location=None,
                    __blocks__=[proc_blk, always_blk])

    return Built([], make, lambda asg: "None", lambda asg: None)


I.register_model(out.Statement.__dict__["returns"], lambda it, self: False)


def expected_ok(stream):
    written = set()
    for kind, rn, acc in stream:
        if acc is W:
            written.add(rn)
        elif rn not in written:
            return False
    return True


def spec_for(stream):
    def spec(sx, inp):
        if not expected_ok(stream):
            sx.reject()
        it = sx.it

        def holds(res):
            # accepted: every temporary of the always expression was written there.  The hoisted block is emitted OUTSIDE the
            # process, so afterwards EVERY mention of such a temporary in it -- also as the run-time index in the reference path
            # of another object ('ref' events) -- is a signal: the last visit of each event returned a Signal, not the Temporary
            last = {}
            for idx, kind, obj, result in it.replace_log:
                last[idx] = (kind, result)
            if len(last) != len(stream):
                return False
            for idx, (kind, result) in last.items():
                q = result.cls if isinstance(result, SObj) else None
                if not (isinstance(q, SCls) and it.base_kind(q) is Signal):
                    return False
            return True

        return C.Pred(holds, "every temporary mentioned in the always expression (directly or in a reference path) is replaced by a signal")

    return spec


def recording_model(refs):
    def model(it, obj, operation, *a, **k):
        if not (isinstance(obj, SObj) and "__events__" in obj.fields):
            return None
        mine = obj is it.always_block
        for idx, (kind, o, acc) in enumerate(obj.fields["__events__"]):
            if kind == "ref" and not refs:
                continue
            r = it.call(operation, [o, acc], {})
            if mine:
                it.replace_log.append((idx, kind, o, r))
        return None

    return model


con = contract(QUAL, PROPS)
STREAMS = [
    [("dir", "a", R)], [("ref", "a", R)], [("dir", "a", W)], [("dir", "a", W), ("dir", "a", R)], [("dir", "a", W), ("ref", "a", R)],
    [("dir", "a", W), ("dir", "b", R)], [("dir", "a", W), ("ref", "b", R)], [("ref", "b", R), ("dir", "a", W)], [("dir", "a", W), ("dir", "b", W), ("ref", "b", R), ("dir", "a", R)],
]
for st in STREAMS:
    nm = ",".join(f"{k}-{r}-{'w' if a is W else 'r'}" for k, r, a in st)
    c = Case(nm, [shape(st)], spec_for(st))
    c.native = False

    def setup(it, ctx, args, env):
        it.case_blocks = list(args[0].fields["__blocks__"])
        it.always_block = args[0].fields["__blocks__"][1]
        it.replace_log = []
        it.class_call_models = {GI.IrGenerator: _irgen, ir.Concurrent: _concurrent_ctor, ir.Sequential: _sequential_ctor}

    c.setup = setup
    # case-level: every visitor of the two code blocks delivers the event stream and records what the operation returned
    c.models = [(ir._visit_referenced_objects, recording_model(True)), (ir.Context.__dict__["visit_objects"], recording_model(False)), (ir.CodeBlock.__dict__["visit_objects"], recording_model(False))]
    c.custom_replay = "contracts.c07_always.replay_always_index"
    con.cases.append(c)


_ALWAYS_INDEX_DESIGN = '''
import re
import cohdl
from cohdl import Entity, Port, Bit, BitVector, Unsigned, std
class AlwaysIndex(Entity):
    clk = Port.input(Bit)
    vec = Port.input(BitVector[4])
    idx = Port.input(Unsigned[2])
    c = Port.input(Bit)
    o = Port.output(Bit)
    def architecture(self):
        @std.sequential(std.Clock(self.clk))
        def proc():
            with cohdl.always:
                picked = self.vec[self.idx]
                self.o <<= picked & self.c
try:
    t = std.VhdlCompiler.to_string(AlwaysIndex)
    proc = re.search(r"process\\(.*?end process;", t, flags=re.S)
    variables = re.findall(r"variable (\\w+)", proc.group(0)) if proc else []
    outside = t.replace(proc.group(0), "") if proc else t
    used = [v for v in variables if re.search(rf"\\b{v}\\b", outside)]
    print("VARIABLES-USED-OUTSIDE", used)
except AssertionError as e:
    print("REJECTED")
'''


def replay_always_index(payload):
    from contracts.c06_extra import _run_design

    rc, out = _run_design(_ALWAYS_INDEX_DESIGN)
    return {"reproduced": rc == 0 and "VARIABLES-USED-OUTSIDE [" in out and "VARIABLES-USED-OUTSIDE []" not in out,
            "detail": "run-time indexed element inside `with cohdl.always:`: the index intermediate must be a signal in the hoisted block: " + out[-120:]}
