"""C07: process-local objects are not shared between scopes (VhdlScope.declare).

Every process scope declares the objects its code refers to and hands the declaration on to the enclosing
scopes (`_is_first=False`), so that an object needed by several sub-scopes is declared once, further out.  For
SIGNALS that is how a signal shared by two processes ends up in the architecture.  A Variable or a Temporary
(process variable) must never be shared: when the enclosing scope is asked for one it already knows, the second
request comes from a different scope -- another process, or the port map of an entity instance reading a value
computed inside a process -- and the design must be rejected.  This assertion is the only guard for
process-local values used as instance actuals.

Contract: VhdlScope.declare(obj, _is_first, ...) for an object the scope already holds:
    not _is_first and obj is a Variable / Temporary  -> AssertionError
    otherwise                                        -> the existing declaration is marked used, nothing is added.
"""

from __future__ import annotations

from cohdl import Signal, Variable, Temporary
from cohdl._compiler.backend.vhdl import _vhdl_repr as VR

from pyvc import contracts as C
from pyvc import interp as I
from pyvc.contracts import Case, contract
from pyvc.values import SObj
from contracts.c05_format_cast import Built

PROPS = ("C07", "C08")


class _Decls:
    """scope._declarations: identity map object -> Declaration"""


class _Decl:
    """VhdlScope.Declaration stand-in"""


_Decls.__contains__ = lambda self, o: None
_Decls.__getitem__ = lambda self, o: None
_Decls.__setitem__ = lambda self, o, v: None
_Decl.use = lambda self: None
I.register_model(_Decls.__contains__, lambda it, self, o: any(o is k for k, _ in self.fields["f_items"]))
I.register_model(_Decls.__getitem__, lambda it, self, o: [v for k, v in self.fields["f_items"] if k is o][0])
I.register_model(_Decls.__setitem__, lambda it, self, o, v: self.fields["f_items"].append((o, v)))
I.register_model(_Decl.use, lambda it, self: self.fields.__setitem__("f_used", self.fields.get("f_used", 0) + 1))


def scope_shape(kind):
    def make(env):
        obj = SObj(kind, _ref_spec=[], _attributes=[], f_tag="obj")
        obj.fields["_root"] = obj
        d = SObj(_Decl, f_used=0)
        s = SObj(VR.VhdlScope, _declarations=SObj(_Decls, f_items=[(obj, d)]), _parent=None, f_obj=obj, f_decl=d)
        return s

    return Built([], make, lambda a: "None", lambda a: None)


def declare_spec(kind, first):
    def spec(sx, self, obj, _is_first, *a, **kw):
        if not first and kind in (Variable, Temporary):
            raise C.SpecRaise(AssertionError)
        real = sx.real_args[0]
        return C.Pred(lambda res: res is None and real.fields["f_decl"].fields["f_used"] == 1 and len(real.fields["_declarations"].fields["f_items"]) == 1,
                      "existing declaration marked used, nothing added")

    return spec


con = contract("cohdl._compiler.backend.vhdl._vhdl_repr:VhdlScope.declare", PROPS)
for kind in (Signal, Variable, Temporary):
    for first in (True, False):
        shp = scope_shape(kind)
        OBJ = Built([], lambda env: None, lambda a: "None", lambda a: None)  # replaced in setup by the scope's own object
        c = Case(f"already-declared-{kind.__name__},{'first' if first else 'requested-by-another-scope'}", [shp, OBJ, Built([], (lambda f: lambda env: f)(first), lambda a: repr(first), lambda a: None)], declare_spec(kind, first))
        c.native = False

        def setup(it, ctx, args, env):
            args[1] = args[0].fields["f_obj"]

        c.setup = setup
        con.cases.append(c)
