"""C08, second and third mechanism.

StatemachineContext._check_temporaries: in every state the first access to an
intermediate must be a write -- including accesses through run-time indices of
reference paths (vec[idx]): otherwise an intermediate computed in one state is
consumed in another.

ConvertInstance.cleanup_unused: an assignment to an intermediate is removed
only if NO reference (whole object, slice, bit, typed view) to its root is
read anywhere in the context.

Event streams are enumerated for all orders/aliasings of up to three accesses
(identities symbolic); the callbacks themselves are interpreted from the real
source.  (Bounded in the length of the enumerated stream, stated in the
evidence; the per-event callbacks are the unit the argument rests on.)
"""

from __future__ import annotations

import itertools

from cohdl import Temporary, Signal
from cohdl._core._ir import _repr as ir
from cohdl._core._ir._repr import AccessFlags
from cohdl._compiler.frontend._generate_ir import ConvertInstance
from cohdl.utility.id_map import IdSet, IdMap

from pyvc import contracts as C
from pyvc import interp as I
from pyvc.contracts import Case, contract
from pyvc.values import SObj
from contracts.c05_format_cast import Built
from contracts import c08_temporaries as T  # visit models

PROPS = ("C08",)
R, W = AccessFlags.READ, AccessFlags.WRITE

for q in ("cohdl.utility.id_map:IdSet.__init__", "cohdl.utility.id_map:IdSet.add", "cohdl.utility.id_map:IdSet.__contains__",
          "cohdl._core._ir._repr:AccessFlags.is_read", "cohdl._core._ir._repr:AccessFlags.is_written", "cohdl._core._ir._repr:AccessFlags.is_pushed"):
    C.inline(q)


def event_visit_model(refs):
    def model(it, obj, operation):
        for kind, o, acc in obj.fields["__events__"]:
            if kind == "ref" and not refs:
                continue
            it.call(operation, [o, acc], {})
        return None

    return model


I.register_model(ir._State.__dict__["visit_objects"], event_visit_model(False))
# a state visited through ir._visit_referenced_objects sees the reference-path reads too
_prev = I.MODELS[id(ir._visit_referenced_objects)]


def _vro(it, obj, operation):
    if isinstance(obj, SObj) and "__events__" in obj.fields:
        return event_visit_model(True)(it, obj, operation)
    return _prev(it, obj, operation)


I.register_model(ir._visit_referenced_objects, _vro)


def mk_temp(root=None, view=False):
    if root is None:
        root = SObj(Temporary, _ref_spec=[])
        root.fields["_root"] = root
        return root
    return SObj(Temporary, _root=root, _ref_spec=[])


# ---- _check_temporaries -----------------------------------------------------------------------------
def states_shape(pattern):
    """pattern: list (per state) of events (kind, rootname, access); kind 'dir' | 'ref'"""

    def make(env):
        roots = {}
        states = []
        for evs in pattern:
            lst = []
            for kind, rn, acc in evs:
                if rn == "sig":
                    o = SObj(Signal, _ref_spec=[])
                else:
                    if rn not in roots:
                        roots[rn] = mk_temp()
                    o = mk_temp(roots[rn])  # a view of the root
                lst.append((kind, o, acc))
            states.append(SObj(ir._State, __events__=lst))
        return SObj(ir.StatemachineContext, _states=states)

    return Built([], make, lambda asg: "None", lambda asg: None)


def expected_ok(pattern):
    for evs in pattern:
        seen = set()
        for kind, rn, acc in evs:
            if rn == "sig":
                continue
            if rn not in seen:
                if acc is not W:
                    return False
                seen.add(rn)
    return True


def check_spec(pattern):
    def spec(sx, self):
        if not expected_ok(pattern):
            sx.reject()
        return None

    return spec


con = contract("cohdl._core._ir._repr:StatemachineContext._check_temporaries", PROPS)
EVENTS = [("dir", "a", W), ("dir", "a", R), ("dir", "b", W), ("dir", "b", R), ("ref", "a", R), ("ref", "b", R), ("dir", "sig", R)]
seen_names = set()
for n in (1, 2, 3):
    for evs in itertools.product(EVENTS, repeat=n):
        for second in ([], [("dir", "a", R)], [("dir", "a", W), ("dir", "a", R)]):
            pattern = [list(evs)] + ([second] if second else [])
            name = "|".join(",".join(f"{k[0]}{r}{'w' if a is W else 'r'}" for k, r, a in st) for st in pattern)
            if name in seen_names:
                continue
            seen_names.add(name)
            has_ref = any(k == "ref" for st in pattern for k, _, _ in st)
            # keep the enumeration small: all streams of length <= 2, and the length-3 streams that contain a reference-path read
            if n == 3 and not has_ref:
                continue
            if n == 3 and second:
                continue
            c = Case(name, [states_shape(pattern)], check_spec(pattern))
            c.native = False
            c.custom_replay = "contracts.c08_cleanup.replay_index_across_states"
            no_refs = [[e for e in st if e[0] != "ref"] for st in pattern]
            if expected_ok(no_refs) and not expected_ok(pattern):
                # rejected ONLY because a run-time index inside a reference path is read first
                c.finding_key = "first-access-is-a-reference-path-read"
            con.cases.append(c)


# ---- cleanup_unused ------------------------------------------------------------------------------------
def ctx_shape(read_kind, same_root):
    """context whose only read of a temporary is `read_kind` of root A (or of an
    unrelated root); the candidate statement defines root A"""

    def make(env):
        a = mk_temp()
        other = mk_temp()
        src_root = a if same_root else other
        if read_kind == "whole":
            rd = src_root
        elif read_kind == "view":
            rd = mk_temp(src_root)
        else:
            rd = None
        events = [("dir", rd, R)] if rd is not None else []
        events.append(("dir", mk_temp(a), W))  # the defining write itself
        stmt = SObj(ir.Expression, _result=mk_temp(a))
        return SObj(ir.Context, __events__=events, __stmt__=stmt)

    return Built([], make, lambda asg: "None", lambda asg: None)


def _ctx_visit_ref(it, self, operation):
    return event_visit_model(True)(it, self, operation)


def _ctx_visit(it, self, operation):
    """Context.visit: the operation is applied to every statement; its result replaces the statement"""
    self.fields["__replaced__"] = it.call(operation, [self.fields["__stmt__"]], {})
    return None


# Context.visit_referenced_objects is the module function ir._visit_referenced_objects
# (model _vro above: objects with an event list deliver it, reference-path reads included)
I.register_model(ir.Context.__dict__["visit"], _ctx_visit)
I.register_model(ir.Expression.__dict__["result"], lambda it, self: self.fields["_result"])
C.inline("cohdl._core._ir._repr:CodeBlock.__init__")
C.inline("cohdl._core._ir._repr:Statement.__init__")


def cleanup_spec(read_kind, same_root):
    def spec(sx, ctx):
        real = sx.real_args[0]
        used = read_kind in ("whole", "view") and same_root

        def holds(res):
            if res is not real:
                return False
            rep = real.fields.get("__replaced__")
            if used:
                return rep is real.fields["__stmt__"]  # a needed write is never removed
            return isinstance(rep, SObj) and rep.kind is ir.CodeBlock  # unused: removed

        return C.Pred(holds, "assignment kept iff its root is read somewhere")

    return spec


# also a C03 fact: a removed assignment whose target is still read through a slice / bit / typed view leaves the reader with
# the value of an earlier activation (sequential) or without a driver (concurrent)
con = contract("cohdl._compiler.frontend._generate_ir:ConvertInstance.cleanup_unused", PROPS + ("C03",))
for rk in ("whole", "view", "none"):
    for same in (True, False):
        c = Case(f"read-{rk}-{'same' if same else 'other'}-root", [ctx_shape(rk, same)], cleanup_spec(rk, same))
        c.native = False
        con.cases.append(c)


# ---- cleanup_bool_cast ------------------------------------------------------------------------------------
from cohdl._core import _boolean  # noqa: E402

C.inline("cohdl._core._ir._repr:Nop.__init__")
C.inline("cohdl._core._type_qualifier:TypeQualifierBase.type")


def bool_temp():
    t = SObj(Temporary, _ref_spec=[], _Wrapped=_boolean.boolean)
    t.fields["_root"] = t
    return t


def cast_ctx_shape(chain, extra_read):
    """chain bool casts t0 -> t1 -> .. -> tk; the context reads tk (and maybe t0 / an unrelated temporary)"""

    def make(env):
        ts = [bool_temp() for _ in range(chain + 1)]
        stmts = [SObj(ir.Boolean, _arg=ts[i], _result=ts[i + 1]) for i in range(chain)]
        other = bool_temp()
        reads = [ts[-1]] + ({"first": [ts[0]], "other": [other], "none": []}[extra_read])
        return SObj(ir.Context, __stmts__=stmts, __events__=[("dir", o, R) for o in reads], __capture__=[], __temps__=ts)

    return Built([], make, lambda asg: "None", lambda asg: None)


def _ctx_visit_list(it, self, operation):
    if "__stmts__" in self.fields:
        self.fields["__replaced__"] = [it.call(operation, [s], {}) for s in self.fields["__stmts__"]]
        return None
    return _ctx_visit(it, self, operation)


I.register_model(ir.Context.__dict__["visit"], _ctx_visit_list)
_prev2 = I.MODELS[id(ir._visit_referenced_objects)]


def _vro_capture(it, obj, operation):
    if isinstance(obj, SObj) and "__capture__" in obj.fields:
        for kind, o, acc in obj.fields["__events__"]:
            obj.fields["__capture__"].append((o, it.call(operation, [o, acc], {})))
        return None
    return _prev2(it, obj, operation)


I.register_model(ir._visit_referenced_objects, _vro_capture)


def cast_spec(chain):
    def spec(sx, ctx):
        real = sx.real_args[0]

        def holds(res):
            ts = real.fields["__temps__"]
            if res is not real:
                return False
            if not all(isinstance(r, SObj) and r.kind is ir.Nop for r in real.fields["__replaced__"]):
                return False  # every redundant cast is removed ...
            for before, after in real.fields["__capture__"]:
                want = ts[0] if any(before is t for t in ts) else before
                if after is not want:
                    return False  # ... and every use of a removed target refers to the original source
            return True

        return C.Pred(holds, "uses of removed cast results refer to the original source")

    return spec


con = contract("cohdl._compiler.frontend._generate_ir:ConvertInstance.cleanup_bool_cast", PROPS + ("C03",))
for chain in (1, 2, 3):
    for extra in ("none", "first", "other"):
        c = Case(f"chain-{chain}-{extra}", [cast_ctx_shape(chain, extra)], cast_spec(chain))
        c.native = False
        con.cases.append(c)


# a cast whose SOURCE is a variable or a signal is a snapshot of that object (`old = bool(var); var @= ...; if old:`):
# it must stay -- replacing its result by the object itself would read the later value (C03)
def stateful_source_shape(kind):
    def make(env):
        src = SObj(kind, _ref_spec=[], _Wrapped=_boolean.boolean)
        src.fields["_root"] = src
        t = bool_temp()
        stmt = SObj(ir.Boolean, _arg=src, _result=t)
        return SObj(ir.Context, __stmts__=[stmt], __events__=[("dir", t, R)], __capture__=[], __temps__=[src, t])

    return Built([], make, lambda asg: "None", lambda asg: None)


def snapshot_spec(sx, ctx):
    real = sx.real_args[0]

    def holds(res):
        if res is not real:
            return False
        stmt = real.fields["__stmts__"][0]
        if "__replaced__" in real.fields and real.fields["__replaced__"][0] is not stmt:
            return False  # the cast statement is kept
        return all(after is before for before, after in real.fields["__capture__"])  # and no use is redirected

    return C.Pred(holds, "a snapshot of a variable / signal is neither removed nor redirected")


from cohdl._core._type_qualifier import Variable as _Variable, Signal as _Signal  # noqa: E402

for kind in (_Variable, _Signal):
    c = Case(f"snapshot-of-{kind.__name__}", [stateful_source_shape(kind)], snapshot_spec)
    c.native = False
    con.cases.append(c)


_DESIGN = '''
from cohdl import Entity, Port, Bit, BitVector, Unsigned, std
class E(Entity):
    clk = Port.input(Bit)
    vec = Port.input(BitVector[8])
    idx = Port.input(Unsigned[3])
    o = Port.output(Bit)
    def architecture(self):
        @std.sequential(std.Clock(self.clk))
        async def p():
            await self.vec[self.idx]
            self.o <<= True
t = std.VhdlCompiler.to_string(E)
import re
w = re.search(r"when (state_\\d+) =>[^;]*;\\s*(temp\\d*) := idx;", t)
r = re.search(r"when (state_\\d+) =>\\s*if vec\\(to_integer\\((temp\\d*)\\)\\)", t)
print("written-in", w and w.groups(), "read-in", r and r.groups())
'''


def replay_index_across_states(payload):
    from contracts.c06_extra import _run_design

    rc, out = _run_design(_DESIGN)
    rep = rc == 0 and "written-in ('state_0'" in out and "read-in ('state_1'" in out
    return {"reproduced": rep, "detail": out[-300:]}
