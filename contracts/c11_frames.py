"""C11: exception-safe frames of the compiler's scratch state.

For every function that sets a piece of global scratch state around a
compilation step, the obligation `excframe`: on EVERY exit -- normal return or
an exception raised by any callee -- the state equals its value on entry.
The function's real body is executed symbolically in 'havoc' mode: every
callee without a contract returns an opaque value OR raises (both explored).

  IrGenerator._apply_impl [out.Statemachine]   StatemachineContext._singleton
  ConvertPythonInstance.apply [entity type]    _block_stack (prepare_ast's alias of the list)
  cohdl Entity.__init__                         _block_stack, info.instantiated
  Entity._library_declaration (backend)         no iteration over a set of str reaches the text
"""

from __future__ import annotations

import z3

import cohdl
from cohdl._core import _context as CTX
from cohdl._core._ir import _repr as ir
from cohdl._compiler.frontend import _generate_ir as GI
from cohdl._compiler.frontend import _prepare_ast as PA
from cohdl._compiler.frontend import _prepare_ast_out as out
from cohdl._compiler.backend.vhdl import _vhdl_repr as VR

from pyvc import contracts as C
from pyvc import interp as I
from pyvc.contracts import Case, contract
from pyvc.values import SCls, SObj, Opaque, SFmt
from contracts.c05_format_cast import Built

PROPS = ("C11",)
MISSING = I._MISSING

for q in ("cohdl._core._ir._repr:StatemachineContext.enter", "cohdl._core._ir._repr:StatemachineContext.finish", "cohdl._core._ir._repr:StatemachineContext.get"):
    C.inline(q)


def overlay_get(ctx, owner, name, default):
    ent = ctx.attr_overlay.get((id(owner), name))
    return ent[1] if ent is not None else default


# ---- 1. statemachine singleton ------------------------------------------------------------------------------
def sm_on_exit(it, ctx, real, rep):
    now = overlay_get(ctx, ir.StatemachineContext, "_singleton", ir.StatemachineContext._singleton)
    ctx.prove(rep.oid("excframe._singleton"), now is None, exit=real[0], value=repr(now)[:80])


con = contract("cohdl._compiler.frontend._generate_ir:IrGenerator._apply_impl", PROPS)
c = Case("statemachine", [
    Built([], lambda env: SObj(GI.IrGenerator), lambda a: "None", lambda a: None),
    Built([], lambda env: SObj(out.Statemachine, _name="sm", _body=Opaque("body"), _frame=None), lambda a: "None", lambda a: None),
    Built([], lambda env: [SObj(ir.CodeBlock, _content=[])], lambda a: "None", lambda a: None),
], lambda sx, *a: C.ANY)
c.native = False
c.may_reject = BaseException
c.interp_flags = {"havoc_unknown_calls": True}
c.on_exit = sm_on_exit
con.cases.append(c)
# the coroutine is reached on more than one path (a helper with an early return before cohdl.coroutine_step): rejected by the
# path check of this branch -- also THIS rejection must leave no active StatemachineContext behind
c = Case("statemachine-reached-on-two-paths", [
    Built([], lambda env: SObj(GI.IrGenerator), lambda a: "None", lambda a: None),
    Built([], lambda env: SObj(out.Statemachine, _name="sm", _body=Opaque("body"), _frame=None), lambda a: "None", lambda a: None),
    Built([], lambda env: [SObj(ir.CodeBlock, _content=[]), SObj(ir.CodeBlock, _content=[])], lambda a: "None", lambda a: None),
], lambda sx, *a: C.ANY)
c.native = False
c.may_reject = BaseException
c.interp_flags = {"havoc_unknown_calls": True}
c.on_exit = sm_on_exit
con.cases.append(c)


# ---- 2. prepare_ast: dummy block on the block stack ---------------------------------------------------------
def _entity_cls_attr(it, cls, name):
    if isinstance(cls, SCls) and name in cls.params:
        return cls.params[name]
    return MISSING


I.CLS_ATTR_MODELS[CTX.Entity] = _entity_cls_attr


def _entity_ctor(it, cls, *args, **kwargs):
    # instantiating the entity (runs the user's architecture): may raise
    if it.ctx.branch(it.ctx.fresh_bool("architecture_raises")):
        from pyvc.values import PyExc

        raise PyExc(AssertionError, (), where="architecture")
    return SObj(cls, _cohdl_block_info=SObj(object, _exit_handlers=[Opaque("exit-handler")], _subcontext=[], _subblocks=[]))


I.CTOR_MODELS[CTX.Entity] = _entity_ctor
I.register_model(GI.IrGenerator.__dict__["_convert_bound"], lambda it, self, inp, open_blocks: open_blocks)


def pa_shape(n_ctx, n_blk):
    def make(env):
        binfo = SObj(object, _name="e", _attributes={}, _subcontext=[Opaque(f"ctx{i}") for i in range(n_ctx)], _subblocks=[Opaque(f"blk{i}") for i in range(n_blk)])
        inst = SObj(CTX.Entity, _cohdl_block_info=binfo)
        info = SObj(object, instantiated_template=None, extern=False, instantiated=inst)
        cls = SCls(CTX.Entity, _cohdl_info=info)
        inst.cls = cls
        return cls

    return Built([], make, lambda a: "None", lambda a: None)


def pa_setup(it, ctx, args, env):
    stack = []
    ctx.global_overlay[(PA.__name__, "_block_stack")] = stack
    ctx.global_overlay[(PA.__name__, "_active_converter_instance")] = args[0]
    ctx.global_overlay[(PA.__name__, "_inline_declared_entities")] = []
    it.block_stack = stack
    it.class_call_models = {CTX.Block: lambda it_, a, k: SObj(CTX.Block, _cohdl_block_info=SObj(object, _subcontext=[], _subblocks=[]))}


def pa_on_exit(it, ctx, real, rep):
    ctx.prove(rep.oid("excframe._block_stack"), len(it.block_stack) == 0, exit=real[0], depth=len(it.block_stack))


con = contract("cohdl._compiler.frontend._prepare_ast:ConvertPythonInstance.apply", PROPS)
for n_ctx, n_blk in ((1, 0), (0, 1), (2, 1)):
    c = Case(f"entity-type-{n_ctx}ctx-{n_blk}blk", [Built([], lambda env: SObj(PA.ConvertPythonInstance), lambda a: "None", lambda a: None), pa_shape(n_ctx, n_blk)], lambda sx, *a: C.ANY)
    c.native = False
    c.may_reject = BaseException
    c.interp_flags = {"havoc_unknown_calls": True}
    c.setup = pa_setup
    c.on_exit = pa_on_exit
    con.cases.append(c)


# an EXTERN entity has no architecture: nothing reports it to the instantiation handler, so apply() itself must register its
# info -- otherwise __exit__ never discards the template (a copy of the port dictionary taken in THIS compilation) and every
# later compilation in the process sees the interface the extern entity had now (a port added later: KeyError in the IR)
def extern_shape():
    def make(env):
        info = SObj(CTX.EntityInfo, instantiated_template=None, extern=True, instantiated=None, f_copy=Opaque("copy of the info"))
        return SCls(CTX.Entity, _cohdl_info=info)

    return Built([], make, lambda a: "None", lambda a: None)


class _InfoCopy:
    pass


def extern_spec(sx, self, inp):
    real_self, real_cls = sx.real_args[0], sx.real_args[1]
    info = real_cls.params["_cohdl_info"]

    def holds(res):
        infos = real_self.fields["_entity_infos"]
        return (isinstance(res, SObj) and res.kind is OUT.EntityTemplate and info.fields["instantiated_template"] is res
                and sum(1 for i in infos if i is info) == 1)

    return C.Pred(holds, "the template is cached on the info AND the info is registered for the discard at the end of the compilation")


from cohdl._compiler.frontend import _prepare_ast_out as OUT  # noqa: E402

c = Case("extern-entity-type", [Built([], lambda env: SObj(PA.ConvertPythonInstance, _entity_infos=[]), lambda a: "None", lambda a: None), extern_shape()], extern_spec)
c.native = False
c.models = [(CTX.EntityInfo.__dict__["copy"], lambda it, self: self.fields["f_copy"])]


def _extern_setup(it, ctx, args, env):
    pa_setup(it, ctx, args, env)
    it.class_call_models[OUT.EntityTemplate] = lambda it_, a, k: SObj(OUT.EntityTemplate, f_info=a[0])


c.setup = _extern_setup
c.on_exit = pa_on_exit
c.custom_replay = "contracts.c11_frames.replay_extern_template"
con.cases.append(c)

_EXTERN_DESIGN = '''
from cohdl import Entity, Port, Bit, std
class Ext(Entity, extern=True):
    a = Port.input(Bit)
    y = Port.output(Bit)
class Top1(Entity):
    x = Port.input(Bit)
    o = Port.output(Bit)
    def architecture(self):
        Ext(a=self.x, y=self.o)
std.VhdlCompiler.to_string(Top1)
print("TEMPLATE-KEPT" if Ext._cohdl_info.instantiated_template is not None else "TEMPLATE-DISCARDED")
'''


def replay_extern_template(payload):
    from contracts.c06_extra import _run_design

    rc, out = _run_design(_EXTERN_DESIGN)
    return {"reproduced": rc == 0 and "TEMPLATE-KEPT" in out, "detail": "template of an extern entity after the compilation that instantiated it: " + out[-40:]}


# ---- 3. Entity.__init__ ------------------------------------------------------------------------------------------
def ent_shape():
    def make(env):
        info = SObj(object, name="e", attributes={}, extern=False, instantiated=None, architecture=Opaque("architecture"), ports={}, generics={}, non_dynamic_ports=None, _discard_dynamic_ports=Opaque("discard_dynamic_ports"))
        return SObj(SCls(CTX.Entity, _cohdl_info=info), _cohdl_info=info)

    return Built([], make, lambda a: "None", lambda a: None)


def ent_setup(it, ctx, args, env):
    it.entry_stack = ["outer-block"]
    ctx.global_overlay[(CTX.__name__, "_block_stack")] = it.entry_stack
    ctx.global_overlay[(CTX.__name__, "_entity_instantiation_handler")] = Opaque("handler")


def ent_on_exit(it, ctx, real, rep):
    now = ctx.global_overlay.get((CTX.__name__, "_block_stack"))
    ctx.prove(rep.oid("excframe._block_stack"), now is it.entry_stack and now == ["outer-block"], exit=real[0])
    info = it.the_info
    if real[0] == "raise":
        # a rejected architecture must not leave a partially built instance behind
        ctx.prove(rep.oid("excframe.info.instantiated"), info.fields.get("instantiated") is None, exit=real[0])
        # ... and must keep the record of which ports are static: the next compilation removes the ports the aborted
        # architecture added dynamically (std.add_entity_port) by comparing against it.  Allowed after an abort:
        # the value at entry (the abort came before the snapshot) or the snapshot of the declared ports.
        ndp = info.fields.get("non_dynamic_ports")
        ctx.prove(rep.oid("excframe.info.non_dynamic_ports"), ndp is it.entry_ndp or (isinstance(ndp, (set, frozenset)) and ndp == set(info.fields["ports"])), exit=real[0])


I.register_model(CTX.Block.__dict__["__init__"], lambda it, self, *a, **k: None)

con = contract("cohdl._core._context:Entity.__init__", PROPS)
c = Case("first-instantiation", [ent_shape()], lambda sx, *a: C.ANY)
c.native = False
c.may_reject = BaseException
c.interp_flags = {"havoc_unknown_calls": True}


def _ent_setup(it, ctx, args, env):
    ent_setup(it, ctx, args, env)
    it.the_info = args[0].fields["_cohdl_info"]
    it.the_info.fields["ports"] = {"a": "PORT-a", "b": "PORT-b"}
    it.the_info.fields["non_dynamic_ports"] = {"a"}  # the snapshot an earlier compilation left
    it.entry_ndp = it.the_info.fields["non_dynamic_ports"]


c.setup = _ent_setup
c.on_exit = ent_on_exit
con.cases.append(c)


# ---- 4. library clauses: see contracts/c06_library.py (shared with C06)
from contracts import c06_library as _LIB  # noqa: E402,F401


# ---- 5. emission order of sub-entities: instantiation order, never address order ------------------------------------------
# IdSet / IdMap keep insertion order, but their set algebra (IdSet.union, IdSet.__and__, IdMap.merge) goes through
# Python sets of id() values: the order of the result depends on object addresses, i.e. on everything the process
# allocated before.  The list Library.from_top_entity walks must therefore be the insertion-ordered set itself
# (or an order-preserving copy), not the result of such an operation.
from cohdl.utility.id_map import IdSet, IdMap  # noqa: E402


class _AddressOrdered:
    """result of id-set algebra: iteration order depends on object addresses"""


def _address_ordered(it, *a, **k):
    return SObj(_AddressOrdered, f_from=list(a))


ADDRESS_ORDER_MODELS = [(IdSet.__dict__["union"], _address_ordered), (IdSet.__dict__["__and__"], _address_ordered), (IdMap.__dict__["merge"].__func__, _address_ordered)]


def sub_entities_spec(sx, self):
    stored = sx.real_args[0].fields["_sub_entities"]

    def holds(res):
        if res is stored:
            return True
        return isinstance(res, (list, tuple)) and len(res) == len(stored) and all(a is b for a, b in zip(res, stored))

    return C.Pred(holds, "the sub-entities in instantiation order (insertion-ordered set or an order-preserving copy)")


con = contract("cohdl._compiler.backend.vhdl._vhdl_repr:Entity.sub_entities", PROPS)
for k in (0, 1, 3):
    c = Case(f"{k}-instances", [Built([], (lambda k: lambda env: SObj(VR.Entity, _sub_entities=[SObj(VR.EntityInst, f_nr=i) for i in range(k)]))(k), lambda a: "None", lambda a: None)], sub_entities_spec)
    c.native = False
    c.models = ADDRESS_ORDER_MODELS
    con.cases.append(c)

# ---- 6. top-level converters work on a private copy of the function's scope ----------------------------------------------
# FunctionDefinition objects (and their scope dicts) are cached for the lifetime of the interpreter.  The converter of
# a context must therefore copy the scope (PrepareAst(..., mutable_scope=False), the default): with a shared scope the
# local names bound by one compilation are still bound in the next one, which is then rejected ("name already used").
from cohdl._compiler.frontend import _prepare_ast as PA2  # noqa: E402
from cohdl._compiler.frontend import _prepare_ast_out as OUT2  # noqa: E402
from cohdl._core._context import ContextType  # noqa: E402


class _Conv:
    """the PrepareAst instance created by the converter"""


class _Ctx:
    """the context being converted"""


for _n in ("convert_call",):
    setattr(_Conv, _n, lambda self: None)
for _n in ("instantiate_fn", "name", "attributes", "source_location"):
    setattr(_Ctx, _n, (lambda n: lambda self: None)(_n))
    I.register_model(getattr(_Ctx, _n), (lambda n: lambda it, self: f"<{n}>")(_n))


class _Call:
    """out.Call stand-in"""


_Call.code = lambda self: None
I.register_model(_Call.code, lambda it, self: "<code>")
I.register_model(_Conv.convert_call, lambda it, self: SObj(OUT2.Call))
I.register_model(OUT2.Call.__dict__["code"], lambda it, self: "<code>")


def converter_spec(kind):
    def spec(sx, ctx):
        it = sx.it

        def holds(res):
            made = it.made
            if len(made) != 1:
                return False
            args, kw = made[0]
            if list(args) != ["<instantiate_fn>", kind] or kw.get("mutable_scope", False) is not False or kw.get("parent") is not None:
                return False
            if not (isinstance(res, SObj) and res.kind is (OUT2.Sequential if kind is ContextType.SEQUENTIAL else OUT2.Concurrent)):
                return False
            return res.fields["f_args"][:2] == ["<name>", "<code>"]

        return C.Pred(holds, "one converter for ctx.instantiate_fn() with a private scope copy; result carries name and code")

    return spec


def _mk_conv(it, args, kw):
    it.made.append((args, kw))
    return SObj(_Conv, _always_exprs="<always>", _sensitivity="<sens>")


for fname, kind in (("convert_sequential", ContextType.SEQUENTIAL), ("convert_concurrent", ContextType.CONCURRENT)):
    con = contract(f"cohdl._compiler.frontend._prepare_ast:PrepareAst.{fname}", PROPS)
    c = Case("top-level-context", [Built([], lambda env: SObj(_Ctx), lambda a: "None", lambda a: None)], converter_spec(kind))
    c.native = False
    c.interp_flags = {"class_call_models": {
        PA2.PrepareAst: _mk_conv,
        OUT2.Sequential: lambda it, args, kw: SObj(OUT2.Sequential, f_args=list(args), f_kw=dict(kw)),
        OUT2.Concurrent: lambda it, args, kw: SObj(OUT2.Concurrent, f_args=list(args), f_kw=dict(kw)),
    }}

    def _setup6(it, ctx, args, env):
        it.made = []

    c.setup = _setup6
    con.cases.append(c)

# ---- 7. ConvertPythonInstance.__exit__: nothing of the finished compilation is kept for the next one ------------------------------
# FunctionDefinition._known_definitions maps id(function) to the parsed definition TOGETHER with the values the global
# and nonlocal names used by the function had when it was parsed.  The key does not determine those values, so the entries
# of one compilation must not reach the next one ("this is done so future compilations do not contain cached results from
# the current run", comment in __exit__): on exit every instantiation info is discarded and no cached definition is left.
from cohdl._core import _collect_ast_and_scope as CAS7  # noqa: E402
import inspect as _inspect  # noqa: E402


class _Info7:
    def _discard_instantiation(self):
        return None


class _Coro7:
    def close(self):
        return None


def _discard7(it, self):
    it.discarded.append(self)
    return None


I.register_model(_Info7._discard_instantiation, _discard7)
I.register_model(_Coro7.close, lambda it, self: None)
I.register_model(CTX._set_entity_instantiation_handler, lambda it, h: it.handlers.__setitem__("inst", h))
I.register_model(CTX._on_register_inline_entity, lambda it, h: it.handlers.__setitem__("inline", h))
if hasattr(CAS7.FunctionDefinition, "_discard_known_definitions"):
    I.register_inline(CAS7.FunctionDefinition.__dict__["_discard_known_definitions"].__func__)


def exit_spec(n_infos, n_defs):
    def spec(sx, self, *exc):
        it = sx.it

        def holds(res):
            known = overlay_get(it.ctx, CAS7.FunctionDefinition, "_known_definitions", it.known)
            if __import__("os").environ.get("PYVC_DEBUG7"):
                print("DEBUG7", known, it.known, it.discarded, it.infos, it.handlers)
            return len(known) == 0 and [id(x) for x in it.discarded] == [id(x) for x in it.infos] and it.handlers == {"inst": None, "inline": None}

        return C.Pred(holds, "every instantiation info discarded, both handlers removed, no cached function definition left")

    return spec


def _exit_setup(n_infos, n_defs):
    def setup(it, ctx, args, env):
        it.infos = args[0].fields["_entity_infos"]
        it.discarded = []
        it.handlers = {"inst": "<handler>", "inline": "<handler>"}
        it.known = {1000 + i: (Opaque(f"definition{i}"), SObj(_Coro7) if i % 2 else Opaque(f"function{i}")) for i in range(n_defs)}
        ctx.attr_overlay[(id(CAS7.FunctionDefinition), "_known_definitions")] = (CAS7.FunctionDefinition, it.known)
        ctx.global_overlay[(PA.__name__, "_active_converter_instance")] = args[0]

    return setup


con = contract("cohdl._compiler.frontend._prepare_ast:ConvertPythonInstance.__exit__", PROPS)
# the with-statement calls __exit__(None, None, None) after an accepted design and __exit__(type, value, traceback) when the
# design was REJECTED inside the block: a rejected compilation must not leave its cached definitions behind either
for n_infos, n_defs in ((0, 0), (1, 1), (2, 3), (0, 2)):
    for rejected in (False, True):
        exc = (AssertionError, AssertionError("design rejected"), Opaque("traceback")) if rejected else (None, None, None)
        c = Case(f"{n_infos}-instantiated-entities,{n_defs}-cached-definitions" + (",design-rejected" if rejected else ""),
                 [Built([], (lambda n: lambda env: SObj(PA.ConvertPythonInstance, _entity_infos=[SObj(_Info7) for _ in range(n)]))(n_infos), lambda a: "<converter>", lambda a: None)]
                 + [Built([], (lambda v: lambda env: v)(e), lambda a: "None", lambda a: None) for e in exc],
                 exit_spec(n_infos, n_defs))
        c.native = False
        c.models = [(_inspect.iscoroutine, lambda it, x: isinstance(x, SObj) and x.kind is _Coro7)]
        c.setup = _exit_setup(n_infos, n_defs)
        con.cases.append(c)


# ---- 8. _ScopeBase._capture_env: the captured names of a function are collected in an order that does not depend on the hash seed --
# Unnamed objects are named after the first name they are bound to, so the ORDER of the result matters: local names (the
# parameters among them) and free names come as sets of strings; they must reach the result sorted, never in set iteration order.
from cohdl._core import _collect_ast_and_scope as CAS8  # noqa: E402


def capture_spec(local_names, free_names, found):
    def spec(sx, self, ln, nn, gd, nd):
        def holds(res):
            if not isinstance(res, dict):
                return False
            return list(res.keys()) == sorted(local_names) + [n for n in sorted(free_names) if n in found and n not in local_names]

        return C.Pred(holds, "keys: the local names in sorted order, then the resolved free names in sorted order")

    return spec


def capture_on_exit(it, ctx, real, rep):
    bad = [e for e in ctx.events if e[0] == "iter-set-of-str"]
    ctx.prove(rep.oid("no-set-of-str-iteration"), not bad, events=str(bad)[:160])


con = contract("cohdl._core._collect_ast_and_scope:_ScopeBase._capture_env", PROPS)
for local_names, free_names in (({"north", "south", "east", "west"}, {"helper", "Bit", "len"}), ({"a"}, {"zeta", "alpha"}), (set(), {"len", "alpha", "Mid"}), ({"x", "y", "z"}, set())):
    found = {"helper": "<fn>", "Bit": "<Bit>", "alpha": 1, "zeta": 2, "Mid": 3}
    c = Case(f"locals-{'-'.join(sorted(local_names)) or 'none'},free-{'-'.join(sorted(free_names)) or 'none'}",
             [Built([], lambda env: SObj(CAS8._ScopeBase), lambda a: "None", lambda a: None),
              Built([], (lambda v: lambda env: set(v))(local_names), lambda a: "None", lambda a: None), Built([], (lambda v: lambda env: set(v))(free_names), lambda a: "None", lambda a: None),
              Built([], (lambda f: lambda env: {"__builtins__": {"len": len}, **{k: v for k, v in f.items() if k[0].isupper()}})(found), lambda a: "None", lambda a: None),
              Built([], (lambda f: lambda env: {k: v for k, v in f.items() if not k[0].isupper()})(found), lambda a: "None", lambda a: None)],
             capture_spec(local_names, free_names, set(found) | {"len"}))
    c.native = False
    c.on_exit = capture_on_exit
    con.cases.append(c)


# C10 ("evaluates during compilation to exactly the values CPython produces"): a definition cached with the values its global /
# closure names had in an EARLIER compilation is evaluated with stale values -- the discard on every exit is part of C10 as well
contract("cohdl._compiler.frontend._prepare_ast:ConvertPythonInstance.__exit__", ("C10",))


# C10: a free name that is bound nowhere is a NameError in CPython.  In an imported module `__builtins__` is a DICTIONARY: looking the
# name up with hasattr() finds the dictionary's own methods (`get`, `keys`, `items` ...) -- such names must be rejected, also
# `__class__`-like special cases excepted only for the name `__class__`
def undefined_spec(sx, self, ln, nn, gd, nd):
    sx.reject(AssertionError)


_cap = contract("cohdl._core._collect_ast_and_scope:_ScopeBase._capture_env", ("C10",))
for _name in ("get", "keys", "items", "undefined_name"):
    for _builtins_kind in ("dict", "module"):
        import builtins as _builtins_mod

        c = Case(f"undefined-free-name:{_name},__builtins__-is-a-{_builtins_kind}",
                 [Built([], lambda env: SObj(CAS8._ScopeBase), lambda a: "None", lambda a: None),
                  Built([], lambda env: set(), lambda a: "set()", lambda a: None), Built([], (lambda n: lambda env: {n})(_name), lambda a: "None", lambda a: None),
                  Built([], (lambda k: lambda env: {"__builtins__": {"len": len} if k == "dict" else _builtins_mod})(_builtins_kind), lambda a: "None", lambda a: None),
                  Built([], lambda env: {}, lambda a: "{}", lambda a: None)], undefined_spec)
        c.native = False
        c.on_exit = capture_on_exit
        c.custom_replay = "contracts.c11_frames.replay_undefined_name"
        _cap.cases.append(c)

_UNDEFINED_NAME_SCRIPT = '''
import os, sys, tempfile
import cohdl
from cohdl import std, Entity, Port, Bit
d = tempfile.mkdtemp()
open(os.path.join(d, "undef_helper.py"), "w").write("def undefined_get():\\n    return get('len')\\n")
sys.path.insert(0, d)
import undef_helper
class Demo(Entity):
    a = Port.input(Bit)
    b = Port.output(Bit)
    def architecture(self):
        @std.concurrent
        def logic():
            undef_helper.undefined_get()
            self.b <<= self.a
try:
    std.VhdlCompiler.to_string(Demo)
    print("ACCEPTED")
except BaseException as e:
    print("REJECTED", type(e).__name__)
'''


def replay_undefined_name(payload):
    from contracts.c06_extra import _run_design

    rc, out = _run_design(_UNDEFINED_NAME_SCRIPT)
    return {"reproduced": "ACCEPTED" in out, "detail": "a function of an imported module that uses the undefined name `get` (CPython: NameError): " + out[-60:]}
