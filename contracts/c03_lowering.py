"""C03: lowering of assignments and of if/else in IrGenerator._apply_impl,
proved from the real source.

(A) out.Assign -- which IR statement an assignment becomes (table from the
    statement of C03; `AUTO` is the mode of a plain `target <<= / @= ...` on an object
    whose kind decides):
       signal,   <<= (NEXT or AUTO)                -> SignalAssignment   (takes effect after the activation)
       signal,   ^=  (PUSH)                        -> SignalPush         (one step, then default)
       variable, @=  (VALUE or AUTO)               -> VariableAssignment (immediate)
       temporary (AUTO / _TEMP): sequential context-> VariableAssignment (immediate)
                                 concurrent context-> SignalAssignment   (continuous)
    exactly ONE statement (target, value) is appended to EVERY open block, in order,
    and the same open blocks are returned.

(B) out.If -- where execution continues after the statement.  With
    open_body / open_orelse the blocks in which the two branches end:
       neither branch left its own block     -> execution continues in the parent block
       otherwise                             -> execution continues in every block of
                                                open_body and of open_orelse (each exactly once);
    a branch that ends nowhere (return) contributes nothing.  The If node is appended to
    the parent BEFORE its branches are converted, with the test's result and the two branch blocks.
"""

from __future__ import annotations

import itertools

from cohdl._compiler.frontend import _generate_ir as GI
from cohdl._compiler.frontend import _prepare_ast_out as out
from cohdl._core._ir import _repr as ir
from cohdl._core._intrinsic_operations import AssignMode
from cohdl._core._type_qualifier import Signal, Variable, Temporary

from pyvc import contracts as C
from pyvc import interp as I
from pyvc import sym
from pyvc.contracts import Case, contract
from pyvc.values import SObj, Opaque
from contracts.c05_format_cast import Built

PROPS = ("C03", "C02")
QUAL = "cohdl._compiler.frontend._generate_ir:IrGenerator._apply_impl"

I.register_inline(out.Assign.__dict__["target"])
I.register_inline(out.Assign.__dict__["value"])


class _Block:
    """an open ir.CodeBlock: append(stmt) records"""


_Block.append = lambda self, s: None
I.register_model(_Block.append, lambda it, self, s: self.fields["f_content"].append(s))


def block(tag, parent=None):
    return SObj(_Block, f_tag=tag, f_content=[], f_parent=parent)


def _mk(cls, names):
    def f(it, args, kwargs):
        o = SObj(cls)
        for n, a in zip(names, args):
            o.fields[n] = a
        for k, v in kwargs.items():
            o.fields[k] = v
        return o

    return f


CLASS_MODELS = {
    ir.SignalAssignment: _mk(ir.SignalAssignment, ["_target", "_source"]),
    ir.SignalPush: _mk(ir.SignalPush, ["_target", "_source"]),
    ir.VariableAssignment: _mk(ir.VariableAssignment, ["_target", "_source"]),
    ir.If: _mk(ir.If, ["f_test", "f_body", "f_orelse"]),
    ir.CodeBlock: lambda it, args, kwargs: block(f"new{len(it.new_blocks)}", kwargs.get("parent", args[1] if len(args) > 1 else None)) if not it.new_blocks.append(None) else None,
}

BASE_MODELS = [(GI.IrGenerator.__dict__["_convert_bound"], lambda it, self, inp, open_blocks: open_blocks)]

# ---- (A) assignments ---------------------------------------------------------------------------------------------
TABLE = {
    (Signal, AssignMode.NEXT): ir.SignalAssignment,
    (Signal, AssignMode.AUTO): ir.SignalAssignment,
    (Signal, AssignMode.PUSH): ir.SignalPush,
    (Variable, AssignMode.VALUE): ir.VariableAssignment,
    (Variable, AssignMode.AUTO): ir.VariableAssignment,
}


def assign_spec(kind, mode, gen_mode, n):
    def spec(sx, self, inp, open_blocks):
        real_blocks = sx.real_args[2]
        real_inp = sx.real_args[1]
        if kind is Temporary and mode in (AssignMode.AUTO, AssignMode._TEMP):
            want = ir.VariableAssignment if gen_mode is GI.IrGenerator.Mode.SEQUENTIAL else ir.SignalAssignment
        else:
            want = TABLE.get((kind, mode))
        if want is None:
            raise C.SpecUnspecified()  # combinations the front end never builds (e.g. @= on a signal is rejected earlier)

        def holds(res):
            if not (isinstance(res, list) and len(res) == len(real_blocks) and all(a is b for a, b in zip(res, real_blocks))):
                return False
            for b in real_blocks:
                c = b.fields["f_content"]
                if len(c) != 1 or not isinstance(c[0], SObj) or c[0].kind is not want:
                    return False
                if c[0].fields["_target"] is not real_inp.fields["_target"] or c[0].fields["_source"] is not real_inp.fields["_value"]:
                    return False
            return True

        return C.Pred(holds, f"one {want.__name__}(target, value) appended to every open block")

    return spec


con = contract(QUAL, PROPS)
for kind in (Signal, Variable, Temporary):
    for mode in (AssignMode.AUTO, AssignMode.NEXT, AssignMode.PUSH, AssignMode.VALUE, AssignMode._TEMP):
        for gen_mode in (GI.IrGenerator.Mode.SEQUENTIAL, GI.IrGenerator.Mode.CONCURRENT):
            if not (kind is Temporary and mode in (AssignMode.AUTO, AssignMode._TEMP)) and (kind, mode) not in TABLE:
                continue  # combinations the front end never builds (rejected by the setter replacements, C05)
            for n in (0, 1, 2):
                SELF = Built([], (lambda gm: lambda env: SObj(GI.IrGenerator, _mode=gm))(gen_mode), lambda a: "<gen>", lambda a: None)
                INP = Built([], (lambda k, m: lambda env: SObj(out.Assign, _target=SObj(k, f_tag="target"), _value=Opaque("value"), _mode=m))(kind, mode), lambda a: "<assign>", lambda a: None)
                OB = Built([], (lambda n: lambda env: [block(f"b{i}") for i in range(n)])(n), lambda a: "<blocks>", lambda a: None)
                c = Case(f"assign:{kind.__name__},{mode.name},{gen_mode.name},{n}-open", [SELF, INP, OB], assign_spec(kind, mode, gen_mode, n))
                c.native = False
                c.may_reject = AssertionError
                c.models = BASE_MODELS
                c.interp_flags = {"class_call_models": CLASS_MODELS}

                def setup(it, ctx, args, env):
                    it.new_blocks = []

                c.setup = setup
                con.cases.append(c)


# ---- (B) if / else ---------------------------------------------------------------------------------------------------
# how a branch ends, relative to its own block `own`:  own -> [own];  ret -> [];  x -> [X];  own+x -> [own, X];  x+y -> [X, Y]
ENDS = ("own", "ret", "x", "own+x", "x+y")


def branch_end(end, own, tag):
    new = lambda t: block(f"{tag}-{t}")
    return {"own": [own], "ret": [], "x": [new("x")], "own+x": [own, new("x")], "x+y": [new("x"), new("y")]}[end]


def _apply_model(it, self, inp, open_blocks=None):
    tag = inp.fields.get("f_role")
    if tag == "test":
        it.events.append(("test", list(open_blocks)))
        return open_blocks
    own = open_blocks[0]
    parent = own.fields["f_parent"]
    # the If node must already be in the parent when a branch is converted
    it.events.append((tag, own, [s for s in parent.fields["f_content"]]))
    res = branch_end(it.ends[tag], own, f"{parent.fields['f_tag']}.{tag}")
    it.branch_results.setdefault(id(parent), {})[tag] = (own, res)
    return res


def if_spec(end_body, end_orelse, n):
    def spec(sx, self, inp, open_blocks):
        it = sx.it
        real_blocks = sx.real_args[2]
        real_inp = sx.real_args[1]

        def holds(res):
            if not isinstance(res, list):
                return False
            want = []
            for b in real_blocks:
                br = it.branch_results.get(id(b))
                if br is None or "body" not in br or "orelse" not in br:
                    return False
                (own_b, rb), (own_o, ro) = br["body"], br["orelse"]
                # the If node: first statement of the parent, built from the test's result and the two branch blocks
                c = b.fields["f_content"]
                if len(c) != 1 or c[0].kind is not ir.If or c[0].fields["f_body"] is not own_b or c[0].fields["f_orelse"] is not own_o or c[0].fields["f_test"] != "TEST-RESULT":
                    return False
                if own_b.fields["f_parent"] is not b or own_o.fields["f_parent"] is not b or own_b is own_o:
                    return False
                stays_b = len(rb) > 0 and all(x is own_b for x in rb)
                stays_o = len(ro) > 0 and all(x is own_o for x in ro)
                if stays_b and stays_o:
                    want.append(b)
                else:
                    want.extend(rb + ro)
            # each continuation block exactly once (identity), nothing else
            if len(res) != len(want):
                return False
            return all(sum(1 for y in res if y is x) == 1 for x in want)

        return C.Pred(holds, "continuation blocks == end blocks of both branches (parent if neither branch left)")

    return spec


for end_body, end_orelse in itertools.product(ENDS, ENDS):
    for n in (1, 2):
        SELF = Built([], lambda env: SObj(GI.IrGenerator, _mode=GI.IrGenerator.Mode.SEQUENTIAL), lambda a: "<gen>", lambda a: None)

        def mk_inp(env):
            test = SObj(out.Expression, f_role="test", _result="TEST-RESULT")
            return SObj(out.If, _test=test, _body=SObj(out.CodeBlock, f_role="body"), _orelse=SObj(out.CodeBlock, f_role="orelse"))

        INP = Built([], mk_inp, lambda a: "<if>", lambda a: None)
        OB = Built([], (lambda n: lambda env: [block(f"p{i}") for i in range(n)])(n), lambda a: "<blocks>", lambda a: None)
        c = Case(f"if:body={end_body},orelse={end_orelse},{n}-open", [SELF, INP, OB], if_spec(end_body, end_orelse, n))
        c.native = False
        c.models = BASE_MODELS + [(GI.IrGenerator.__dict__["apply"], _apply_model), (out.Expression.__dict__["result"], lambda it, self: self.fields["_result"])]
        c.interp_flags = {"class_call_models": CLASS_MODELS}

        def setup(it, ctx, args, env, eb=end_body, eo=end_orelse):
            it.new_blocks = []
            it.events = []
            it.branch_results = {}
            it.ends = {"body": eb, "orelse": eo}

        c.setup = setup
        con.cases.append(c)


# ---- (C) operator expressions: operands are converted first, left to right, then ONE IR node with the same
#      operator over the operands' results (in source order) and the expression's result goes to every open block ----
def _operand_apply(it, self, inp, open_blocks=None):
    it.events.append(("operand", inp.fields["f_role"]))
    return open_blocks


def expr_spec(kind, n):
    def spec(sx, self, inp, open_blocks):
        it = sx.it
        real_inp, real_blocks = sx.real_args[1], sx.real_args[2]
        f = real_inp.fields

        def holds(res):
            if not (isinstance(res, list) and len(res) == len(real_blocks) and all(a is b for a, b in zip(res, real_blocks))):
                return False
            want_order = [("operand", "arg")] if kind == "UnaryOp" else [("operand", "lhs"), ("operand", "rhs")]
            if it.events != want_order:
                return False  # operands evaluated once each, left before right
            for b in real_blocks:
                c = b.fields["f_content"]
                if len(c) != 1 or not isinstance(c[0], SObj):
                    return False
                nd = c[0].fields
                if kind == "UnaryOp":
                    ok = c[0].kind is ir.UnaryOp and nd["f_op"] is f["_op"] and nd["f_a"] == "RESULT-arg" and nd["f_result"] == "RESULT"
                else:
                    ok = c[0].kind is getattr(ir, kind) and nd["f_op"] is f["_op"] and nd["f_a"] == "RESULT-lhs" and nd["f_b"] == "RESULT-rhs" and nd["f_result"] == "RESULT"
                if not ok:
                    return False
            return True

        return C.Pred(holds, "one IR node (same operator, operand results in source order) per open block")

    return spec


def _expr_models():
    return {
        **CLASS_MODELS,
        ir.UnaryOp: _mk(ir.UnaryOp, ["f_op", "f_a", "f_result"]),
        ir.BinOp: _mk(ir.BinOp, ["f_op", "f_a", "f_b", "f_result"]),
        ir.Compare: _mk(ir.Compare, ["f_op", "f_a", "f_b", "f_result"]),
    }


def _sub(role):
    return SObj(out.Expression, f_role=role, _result=f"RESULT-{role}")


for kind, mk in (
    ("UnaryOp", lambda: SObj(out.UnaryOp, _op=ir.UnaryOp.Operator.NEG, _arg=_sub("arg"), _result="RESULT")),
    ("BinOp", lambda: SObj(out.BinOp, _op=ir.BinOp.Operator.SUB, _lhs=_sub("lhs"), _rhs=_sub("rhs"), _result="RESULT")),
    ("Compare", lambda: SObj(out.Compare, _op=ir.Compare.Operator.LT, _lhs=_sub("lhs"), _rhs=_sub("rhs"), _result="RESULT")),
):
    for n in (1, 2):
        SELF = Built([], lambda env: SObj(GI.IrGenerator, _mode=GI.IrGenerator.Mode.SEQUENTIAL), lambda a: "<gen>", lambda a: None)
        INP = Built([], (lambda mk: lambda env: mk())(mk), lambda a: "<expr>", lambda a: None)
        OB = Built([], (lambda n: lambda env: [block(f"b{i}") for i in range(n)])(n), lambda a: "<blocks>", lambda a: None)
        c = Case(f"expr:{kind},{n}-open", [SELF, INP, OB], expr_spec(kind, n))
        c.native = False
        c.models = BASE_MODELS + [(GI.IrGenerator.__dict__["apply"], _operand_apply), (out.Expression.__dict__["result"], lambda it, self: self.fields["_result"])]
        c.interp_flags = {"class_call_models": _expr_models()}

        def setup(it, ctx, args, env):
            it.new_blocks = []
            it.events = []

        c.setup = setup
        con.cases.append(c)


# ---- (D) if-expressions and select_with: one selection per merged value -------------------------------------------
# The tracer joins the alternatives of every merged value in a shared temporary and records, per alternative, a
# redirect (target temporary, source value) in that alternative's hook.  The IR must select, for EVERY merged value i,
#      target_i  <=  body source_i   when the test is true,  orelse source_i  otherwise        (if-expression)
#      target_i  <=  source_{j,i}    when the selector equals choice_j,  default source_i otherwise   (select_with)
# with the alternatives paired by position, in every open block.
from cohdl._compiler.frontend._value_branch import _ValueBranchHook, _Redirect  # noqa: E402
from cohdl._core import _boolean  # noqa: E402
from cohdl import Bit as _Bit  # noqa: E402

I.register_inline(_ValueBranchHook.__dict__["has_redirect"])


def hook(pairs):
    return SObj(_ValueBranchHook, redirects=[SObj(_Redirect, target=t, source=s) for t, s in pairs], name=None)


def ifexpr_shape(k, test_kind):
    def make(env):
        targets = [f"TARGET{i}" for i in range(k)]
        test = SObj(out.Expression, f_role="test", _result=SObj(Temporary, f_tag="test", type=test_kind))
        return SObj(out.IfExpr, _test=test, _body=SObj(out.Expression, f_role="body", _result=None), _orelse=SObj(out.Expression, f_role="orelse", _result=None),
                    _hook_body=hook([(targets[i], f"BODY{i}") for i in range(k)]), _hook_orelse=hook([(targets[i], f"ORELSE{i}") for i in range(k)]))

    return Built([], make, lambda a: "<ifexpr>", lambda a: None)


def ifexpr_spec(k, test_kind, n):
    def spec(sx, self, inp, open_blocks):
        real_inp, real_blocks = sx.real_args[1], sx.real_args[2]

        def holds(res):
            if not (isinstance(res, list) and len(res) == len(real_blocks) and all(a is b for a, b in zip(res, real_blocks))):
                return False
            test_val = real_inp.fields["_test"].fields["_result"]
            # program order: the test is evaluated (sampled) BEFORE the statements bound to the two alternatives -- both
            # alternatives are evaluated (if-expressions do not short-circuit), but a side effect of an alternative
            # (`v @= False` inside a called function) must not change the test that was written before it
            if sx.it.events != [("operand", "test"), ("operand", "body"), ("operand", "orelse")]:
                return False
            for b in real_blocks:
                c = b.fields["f_content"]
                if len(c) != k:
                    return False
                for i, nd in enumerate(c):
                    if nd.kind is not ir.SelectWith:
                        return False
                    f = nd.fields
                    br = f["f_branches"]
                    if f["f_arg"] is not test_val or len(br) != 1 or f["result"] != f"TARGET{i}" or f["default"] != f"ORELSE{i}" or br[0][1] != f"BODY{i}":
                        return False
                    tv = br[0][0]
                    # the single choice is 'true' of the test's type
                    if test_kind is _Bit:
                        from cohdl._core._bit import BitState

                        real_one = isinstance(tv, _Bit) and bool(tv)
                        ghost_one = isinstance(tv, SObj) and tv.kind is _Bit and tv.fields.get("_val") is BitState.HIGH
                        if not (real_one or ghost_one):
                            return False
                    elif not (isinstance(tv, _boolean._Boolean) and bool(tv)):
                        return False
            return True

        return C.Pred(holds, "target_i <= body_i when test else orelse_i, for every merged value")

    return spec


def _mk_select(it, args, kwargs):
    o = SObj(ir.SelectWith, f_arg=args[0], f_branches=[tuple(b) for b in args[1]])
    rest = list(args[2:])
    o.fields["default"] = kwargs["default"] if "default" in kwargs else rest.pop(0)
    o.fields["result"] = kwargs["result"] if "result" in kwargs else rest.pop(0)
    return o


for k in (0, 1, 2):
    for test_kind in (_boolean._Boolean, _Bit):
        for n in (1, 2):
            SELF = Built([], lambda env: SObj(GI.IrGenerator, _mode=GI.IrGenerator.Mode.SEQUENTIAL), lambda a: "<gen>", lambda a: None)
            OB = Built([], (lambda n: lambda env: [block(f"b{i}") for i in range(n)])(n), lambda a: "<blocks>", lambda a: None)
            c = Case(f"ifexpr:{k}-merged-values,test={test_kind.__name__},{n}-open", [SELF, ifexpr_shape(k, test_kind), OB], ifexpr_spec(k, test_kind, n))
            c.native = False
            c.models = BASE_MODELS + [(GI.IrGenerator.__dict__["apply"], _operand_apply), (out.Expression.__dict__["result"], lambda it, self: self.fields["_result"])]
            c.interp_flags = {"class_call_models": {**CLASS_MODELS, ir.SelectWith: _mk_select, _boolean._Boolean: lambda it, args, kwargs: _boolean._Boolean(*args)}}

            def setup(it, ctx, args, env):
                it.new_blocks = []
                it.events = []

            c.setup = setup
            c.custom_replay = "contracts.c03_lowering.replay_ifexpr_order"
            con.cases.append(c)

_IFEXPR_ORDER_DESIGN = '''
import cohdl
from cohdl import Bit, Unsigned, Port, Variable, std
class Obs(cohdl.Entity):
    clk = Port.input(Bit)
    a = Port.input(Unsigned[4])
    b = Port.input(Unsigned[4])
    c = Port.input(Bit)
    o = Port.output(Unsigned[4])
    def architecture(self):
        v = Variable[Bit](False)
        def f():
            nonlocal v
            v @= False
            return self.a
        @std.sequential(std.Clock(self.clk))
        def proc():
            nonlocal v
            v @= self.c
            self.o <<= f() if v else self.b     # program order: the test reads v == c, THEN f() clears v
lines = [l.strip() for l in std.VhdlCompiler.to_string(Obs).splitlines()]
i_side = lines.index("v := '0';")
i_test = next(i for i, l in enumerate(lines) if l.endswith(":= v = '1';"))
print("TEST-AFTER-SIDE-EFFECT" if i_side < i_test else "TEST-FIRST", i_side, i_test)
'''


def replay_ifexpr_order(payload):
    from contracts.c06_extra import _run_design

    rc, out = _run_design(_IFEXPR_ORDER_DESIGN)
    return {"reproduced": rc == 0 and "TEST-AFTER-SIDE-EFFECT" in out, "detail": out[-300:]}


def select_shape(k, nb, with_default):
    def make(env):
        targets = [f"TARGET{i}" for i in range(k)]
        hooks = [hook([(targets[i], f"SRC{j}_{i}") for i in range(k)]) for j in range(nb)]
        return SObj(out.SelectWith, _arg="SELECTOR", _conditions=[f"CHOICE{j}" for j in range(nb)], _branch_hooks=hooks,
                    _default_hook=hook([(targets[i], f"DEFAULT{i}") for i in range(k)]) if with_default else None)

    return Built([], make, lambda a: "<select>", lambda a: None)


def select_spec(k, nb, with_default):
    def spec(sx, self, inp, open_blocks):
        real_blocks = sx.real_args[2]

        def holds(res):
            if not (isinstance(res, list) and all(a is b for a, b in zip(res, real_blocks)) and len(res) == len(real_blocks)):
                return False
            for b in real_blocks:
                c = b.fields["f_content"]
                if len(c) != k:
                    return False
                for i, nd in enumerate(c):
                    f = nd.fields
                    if nd.kind is not ir.SelectWith or f["f_arg"] != "SELECTOR" or f["result"] != f"TARGET{i}":
                        return False
                    if f["f_branches"] != [(f"CHOICE{j}", f"SRC{j}_{i}") for j in range(nb)]:
                        return False
                    if f["default"] != (f"DEFAULT{i}" if with_default else None):
                        return False
            return True

        return C.Pred(holds, "target_i <= source_{j,i} when selector == choice_j, default_i otherwise")

    return spec


for k in (0, 1, 2):
    for nb in (1, 2):
        for with_default in (False, True):
            SELF = Built([], lambda env: SObj(GI.IrGenerator, _mode=GI.IrGenerator.Mode.CONCURRENT), lambda a: "<gen>", lambda a: None)
            OB = Built([], lambda env: [block("b0"), block("b1")], lambda a: "<blocks>", lambda a: None)
            c = Case(f"select_with:{k}-merged-values,{nb}-branches{',default' if with_default else ''}", [SELF, select_shape(k, nb, with_default), OB], select_spec(k, nb, with_default), props=PROPS)
            c.native = False
            c.models = BASE_MODELS
            c.interp_flags = {"class_call_models": {**CLASS_MODELS, ir.SelectWith: _mk_select}}

            def setup(it, ctx, args, env):
                it.new_blocks = []
                it.events = []

            c.setup = setup
            con.cases.append(c)


# ---- (E) inlined function calls: where execution continues after the call -----------------------------------------------------
# A helper function is inlined.  Inside it a `return` ends a path: the block that path was writing to is parked in
# IrGenerator.returned_blocks.  AFTER the call the caller continues on EVERY path that left the helper -- those that fell
# off its end and those that returned early (`if skip: return` must not drop the rest of the caller on the skip path),
# and the list of the enclosing call is put back untouched.
class _CalleeCode:
    """code of the callee: f_fall = blocks left open at its end, f_ret = blocks that ended with return"""


_CalleeCode.returns_always = lambda self: None
I.register_model(_CalleeCode.returns_always, lambda it, self: len(self.fields["f_fall"]) == 0)


def _apply_callee(it, self, code, open_blocks=None, **kw):
    cur = it.get_attr(GI.IrGenerator, "returned_blocks")
    for b in code.fields["f_ret"]:
        cur.append(b)
    return list(code.fields["f_fall"])


def call_spec(n_fall, n_ret):
    def spec(sx, self, inp, open_blocks):
        it = sx.it
        code = sx.real_args[1].fields["_code"]

        def holds(res):
            want = code.fields["f_fall"] + code.fields["f_ret"]
            if not (isinstance(res, list) and len(res) == len(want) and all(a is b for a, b in zip(res, want))):
                return False
            now = it.get_attr(GI.IrGenerator, "returned_blocks")
            return now is it.parent_returned and now == ["parent-returned-block"]

        return C.Pred(holds, "continues in the fall-through blocks and in the blocks that returned; the enclosing call's list is restored")

    return spec


for n_fall in (0, 1, 2):
    for n_ret in (0, 1, 2):
        SELF = Built([], lambda env: SObj(GI.IrGenerator, _mode=GI.IrGenerator.Mode.SEQUENTIAL), lambda a: "<gen>", lambda a: None)
        INP = Built([], (lambda nf, nr: lambda env: SObj(out.Call, _code=SObj(_CalleeCode, f_fall=[block(f"fall{i}") for i in range(nf)], f_ret=[block(f"ret{i}") for i in range(nr)])))(n_fall, n_ret), lambda a: "<call>", lambda a: None)
        OB = Built([], lambda env: [block("b0")], lambda a: "<blocks>", lambda a: None)
        c = Case(f"call:{n_fall}-paths-fall-through,{n_ret}-paths-return", [SELF, INP, OB], call_spec(n_fall, n_ret), props=PROPS)
        c.native = False
        c.models = BASE_MODELS + [(GI.IrGenerator.__dict__["apply"], _apply_callee)]

        def setup_call(it, ctx, args, env):
            it.new_blocks = []
            it.events = []
            it.parent_returned = ["parent-returned-block"]
            ctx.attr_overlay[(id(GI.IrGenerator), "returned_blocks")] = (GI.IrGenerator, it.parent_returned)

        c.setup = setup_call
        con.cases.append(c)
